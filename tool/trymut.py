#!/usr/bin/env python3
"""tool/trymut.py <prop> <file> <old> <new>: one ad-hoc edit on a scratch copy, quick rules of <prop>; prints the failures.
Development aid (the frozen edits live in mutants/<prop>.json)."""
import sys, json
sys.path.insert(0, "/verif")
from mpsa import selftest, evidence
prop, file, old, new = sys.argv[1:5]
known = {k["key"] for k in evidence.load_known() if k.get("status") == "known"}
o = selftest._one((prop, dict(name="adhoc", file=file, old=old, new=new, expect="\0"), known))
if o[0] == "noapply":
    print("does not apply (%d occurrences)" % o[2]); sys.exit(2)
_, name, ok, hit, fails, broken = o
print("FAILS:", fails[:6], "BROKEN:", broken)
