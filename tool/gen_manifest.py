#!/usr/bin/env python3
"""Regenerates MANIFEST.json from the rule modules' metadata."""
import importlib, json, os, sys
HERE = os.path.dirname(os.path.dirname(os.path.abspath(__file__)))
sys.path.insert(0, HERE)
props = [json.loads(l) for l in open(os.path.join(HERE, "properties.jsonl"))]
NA = {}
try:
    NA = json.load(open(os.path.join(HERE, "tool", "not_applicable.json")))
except OSError:
    pass
checks, na = [], []
for p in props:
    pid = p["id"]
    path = os.path.join(HERE, "mpsa", "rules", pid + ".py")
    if pid in NA or not os.path.exists(path):
        na.append(dict(property_id=pid, reason=NA.get(pid, "check not built yet (see DESIGN.md)")))
        continue
    m = importlib.import_module("mpsa.rules." + pid)
    checks.append(dict(
        property_id=pid,
        quick_cmd="./check %s --tier quick" % pid,
        thorough_cmd="./check %s --tier thorough" % pid,
        evidence_file="/verif/evidence/%s.json" % pid,
        replay_cmd_template="./check %s --replay {path}" % pid,
        engine="mpx+mpsa",
        level_claimed=dict(category=m.LEVEL, text=m.LEVEL_TEXT, design_ref=m.DESIGN_REF),
        level_note=m.LEVEL_NOTE,
        technique=m.TECHNIQUE))
man = dict(
    version=1,
    setup_cmd="make -C tool mpx",
    hooks=dict(guard="AMPL_MP_VERIF",
               enable="-DAMPL_MP_VERIF when compiling src/solver.cc (named signal points MP_VERIF_SIGPOINT in SignalHandler); used only by the triage program replay/c15_replay.cc - the checks are static and need no instrumentation",
               baseline_off_cmd="python3 /verif/tool/baseline.py",
               source_commits=["d35624a"], add_only=True),
    engines=[dict(name="mpx+mpsa", path="/verif/tool/mpx.cc, /verif/mpsa",
                  serves_properties=[c["property_id"] for c in checks],
                  kind_free_text="clang-14 LibTooling fact exporter (resolved AST + CFG of the "
                  "functions named by each rule, from /repo's current sources) and Python rule "
                  "modules: table agreement, CFG path/dominance/typestate rules, call-graph "
                  "rules, small abstract domains")],
    checks=checks,
    notes="Static analysis only; exit 2 = analysis broken (anchor vanished / floor not met). "
          "Known findings: /verif/known_findings.json.",
    not_applicable=na)
json.dump(man, open(os.path.join(HERE, "MANIFEST.json"), "w"), indent=1)
print("checks:", [c["property_id"] for c in checks]); print("n/a:", [n["property_id"] for n in na])
