#!/usr/bin/env python3
"""Rebuilds /repo/_build (hooks guard OFF: no -DAMPL_MP_VERIF) and runs the
repository's test suite; compares with the stable baseline of BASELINE.json.
Exit 0 iff every stable_pass test passes."""
import glob, json, os, shutil, subprocess, sys, tempfile
import xml.etree.ElementTree as ET

B = "/repo/_build"
base = json.load(open("/root/.vp/BASELINE.json"))
stable = set(base["stable_pass"])
if not os.path.exists(os.path.join(B, "build.ninja")):
    subprocess.check_call(["cmake", "-G", "Ninja", "-S", "/repo", "-B", B])
r = subprocess.run(["cmake", "--build", B, "-j16"], stdout=subprocess.PIPE, stderr=subprocess.STDOUT)
if r.returncode != 0:
    print(r.stdout.decode()[-4000:]); print("BUILD FAILED"); sys.exit(1)
out = tempfile.mkdtemp(prefix="mpbase")
env = dict(os.environ, GTEST_OUTPUT="xml:%s/gtest/" % out)
subprocess.run(["ctest", "--test-dir", B, "-j8", "--timeout", "900",
                "--output-junit", out + "/ctest.xml"], env=env,
               stdout=subprocess.PIPE, stderr=subprocess.STDOUT)
passed, failed = set(), set()
for fn in [out + "/ctest.xml"] + glob.glob(out + "/gtest/*.xml"):
    try: root = ET.parse(fn).getroot()
    except Exception: continue
    for tc in root.iter("testcase"):
        tid = (tc.get("classname") or "") + "::" + (tc.get("name") or "")
        st = (tc.get("status") or "").lower()
        if tc.find("failure") is not None or tc.find("error") is not None or st in ("fail", "failed", "error"):
            failed.add(tid)
        elif tc.find("skipped") is not None or st in ("skipped", "notrun", "disabled"):
            pass
        else:
            passed.add(tid)
passed -= failed
shutil.rmtree(out, ignore_errors=True)
missing = sorted(stable - passed)
print("passed %d, failed %d, stable baseline %d, stable tests not passing: %d"
      % (len(passed), len(failed), len(stable), len(missing)))
for m in missing[:50]: print("  NOT PASSING:", m)
sys.exit(1 if missing else 0)
