#!/usr/bin/env python3
"""debug: tool/dump.py <unit> <fn-regex> [--cfg] : prints the exported AST of matching functions"""
import sys, os
sys.path.insert(0, os.path.dirname(os.path.dirname(os.path.abspath(__file__))))
from mpsa import facts, cfg
unit, rx = sys.argv[1], sys.argv[2]
d = facts.export(unit, fn=[rx])
F = cfg.Facts([d])
def show(n, ind=0):
    extra = []
    for k in ("op","name","callee","cv","v","ck","m","declId"):
        if k in n and k!="declId": extra.append("%s=%s" % (k, n[k]))
    print("%s%d %s %s  [%s]" % ("  "*ind, n["i"], n["k"], " ".join(extra), n.get("t","")[:50]))
    for c in cfg.kids(n): show(c, ind+1)
for f in F.funcs:
    if f.is_dependent() and "--dep" not in sys.argv: continue
    print("=====", f.full, f.loc, f.id)
    for r in f.roots: show(r)
    if "--cfg" in sys.argv and f.cfg:
        for b in sorted(f.cfg.blocks.values(), key=lambda b:-b["id"]):
            print(" B%d el=%s term=%s cond=%s succ=%s" % (b["id"], b["el"], b.get("term"), b.get("cond"), b["succ"]))
