#!/usr/bin/env python3
"""tool/rename_locals.py <check id> [suffix]: robustness probe.  Runs the rules of one check on a scratch copy of
/repo in which every local variable and parameter of every function the check analyses has been renamed
(name -> name<suffix>, default `_rn`), i.e. the mechanical core of a "rename locals" refactoring.  A rule that
fails on the renamed copy depends on identifier spelling, not on behaviour.  Development aid; prints the failures."""
import os, re, sys, shutil, subprocess, tempfile, collections
sys.path.insert(0, "/verif")
from mpsa import cfg, evidence, selftest
from mpsa.facts import AnalysisBroken

prop = sys.argv[1]
suffix = sys.argv[2] if len(sys.argv) > 2 and not sys.argv[2].startswith("--") else "_rn"
captured = []
_orig_init = cfg.Facts.__init__


def _hook(self, unit_facts):
    _orig_init(self, unit_facts)
    captured.append(self)


cfg.Facts.__init__ = _hook
try:
    selftest.run_on(prop, "/repo")
except AnalysisBroken:
    pass
cfg.Facts.__init__ = _orig_init

# declId -> (name, [positions])
sites = collections.defaultdict(set)
names = {}


def _np(path):
    return os.path.normpath(path)
for F in captured:
    for f in F.funcs:
        for p in f.params:
            d = p.get("declId") or ""
            m = re.match(r"^(.*)#(/repo/.+):(\d+):(\d+)$", d)
            if m and p.get("name"):
                names[d] = p["name"]
                sites[d].add((_np(m.group(2)), int(m.group(3)), int(m.group(4))))
        for n in f.walk():
            if n["k"] == "VarDecl" and n.get("declId") and n.get("name") and (n.get("l") or "").startswith("/repo/"):
                fl, ln, co = n["l"].rsplit(":", 2)
                names[n["declId"]] = n["name"]
                sites[n["declId"]].add((_np(fl), int(ln), int(co)))
    for f in F.funcs:
        for n in f.walk():
            if n["k"] == "DeclRefExpr" and n.get("declId") in names and (n.get("l") or "").startswith("/repo/") and n.get("dk") in ("Var", "Parm"):
                fl, ln, co = n["l"].rsplit(":", 2)
                sites[n["declId"]].add((_np(fl), int(ln), int(co)))

# extent (file, first line, last line) of the function that owns each variable
extent = {}
for F in captured:
    for f in F.funcs:
        lns = [int(n["l"].rsplit(":", 2)[1]) for n in f.walk() if (n.get("l") or "").startswith("/repo/")]
        if not lns or not (f.loc or "").startswith("/repo/"):
            continue
        fl0 = _np(f.loc.rsplit(":", 2)[0])
        lo, hi = min(lns + [int(f.loc.rsplit(":", 2)[1])]), max(lns)
        for p in f.params:
            if p.get("declId") in names:
                extent[p["declId"]] = (fl0, lo, hi)
        for n in f.walk():
            if n["k"] == "VarDecl" and n.get("declId") in names:
                extent[n["declId"]] = (fl0, lo, hi)

files = {}
edits = collections.defaultdict(list)      # file -> [(line, col, name)]
skipped = 0
verdict = {}
for d, pos in sites.items():
    nm = names[d]
    ok = True
    if d in extent:
        fl0, lo, hi = extent[d]
        if fl0 not in files:
            files[fl0] = open(fl0).read().split("\n")
        known_pos = {(ln, co) for fl, ln, co in pos if fl == fl0}
        for ln in range(lo, min(hi + 3, len(files[fl0])) + 1):
            for m in re.finditer(r"(?<![A-Za-z0-9_.>:])%s(?![A-Za-z0-9_])" % re.escape(nm), files[fl0][ln - 1]):
                if (ln, m.start() + 1) not in known_pos:
                    ok = False           # an occurrence the exporter did not report (macro argument, ...): leave the variable alone
    else:
        ok = False
    for fl, ln, co in pos:
        if fl not in files:
            files[fl] = open(fl).read().split("\n")
        line = files[fl][ln - 1] if ln - 1 < len(files[fl]) else ""
        if line[co - 1:co - 1 + len(nm)] != nm or (line[co - 1 + len(nm):co + len(nm)] or " ").isidentifier():
            ok = False
            break
    verdict[d] = ok
# a position shared with a variable that stays as it is must stay too (aliases of one declaration across units)
changed = True
while changed:
    changed = False
    bad_pos = {p_ for d, pos in sites.items() if not verdict[d] for p_ in pos}
    for d, pos in sites.items():
        if verdict[d] and any(p_ in bad_pos for p_ in pos):
            verdict[d] = False
            changed = True
for d, pos in sites.items():
    if not verdict[d]:
        skipped += 1
        continue
    for fl, ln, co in pos:
        edits[fl].append((ln, co, names[d]))

D = tempfile.mkdtemp(prefix="rename_", dir="/tmp")
subprocess.check_call(["rsync", "-a", "--exclude", "_build", "--exclude", ".git", "/repo/", D + "/"])
nren = 0
for fl, ed in edits.items():
    lines = list(files[fl])
    for ln, co, nm in sorted(set(ed), reverse=True):
        s = lines[ln - 1]
        lines[ln - 1] = s[:co - 1] + nm + suffix + s[co - 1 + len(nm):]
        nren += 1
    open(fl.replace("/repo/", D + "/", 1), "w").write("\n".join(lines))
print("renamed %d occurrences of %d variables (%d skipped: macro / mismatch) in %d files" % (nren, len(sites) - skipped, skipped, len(edits)))
known = {k["key"] for k in evidence.load_known() if k.get("status") == "known"}
rc = 0
try:
    from mpsa import facts as _fx
    _fx._tree_stamp.clear()
    r = selftest.run_on(prop, D)
    fails = [(rl.full_key(i), i) for rl in r.rules for i in rl.instances if not i["ok"] and rl.full_key(i) not in known]
    for k, i in fails[:40]:
        print("  FAIL %s: %s" % (k, (i.get("detail") or "")[:200]))
    for rl in r.rules:
        if len(rl.instances) < rl.floor:
            print("  FLOOR %s: %d < %d" % (rl.id, len(rl.instances), rl.floor))
            rc = 2
    print("%s: %d failing instance(s) in rules %s" % (prop, len(fails), sorted({k.split("|")[0] for k, _ in fails})))
    rc = rc or (1 if fails else 0)
except AnalysisBroken as e:
    print("ANALYSIS-BROKEN: %s" % str(e)[:600])
    rc = 2
if "--keep" not in sys.argv:
    shutil.rmtree(D, ignore_errors=True)
else:
    print("kept", D)
sys.exit(rc)
