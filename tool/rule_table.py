#!/usr/bin/env python3
"""tool/rule_table.py: prints the rule-instance table of DESIGN 10.1 from the evidence files and the mutant counts; with
--apply rewrites the table and the counts in DESIGN.md."""
import glob
import json
import re
import sys

rows = []
for i in range(1, 21):
    pid = "C%02d" % i
    c = json.load(open("/verif/evidence/%s.json" % pid))["coverage"]
    rc = c.get("rule_instance_counts", {})
    rows.append("| %s | %d | %s |" % (pid, sum(rc.values()), ", ".join("%s %d" % (k.split(".")[1], v) for k, v in rc.items())))
tot = sil = pat = 0
for p in sorted(glob.glob("/verif/mutants/C*.json")):
    m = json.load(open(p))
    tot += len(m)
    sil += sum(1 for x in m if x.get("silent"))
    pat += sum(1 for x in m if x.get("patch") and x.get("silent"))
table = "| id | instances | rules (instances on the current tree) |\n|---|---|---|\n" + "\n".join(rows) + "\n"
print(table)
print("mutants: %d in total, %d behaviour-preserving (of which %d agent-written refactorings)" % (tot, sil, pat))
if "--apply" in sys.argv:
    p = "/verif/DESIGN.md"
    s = open(p).read()
    s2 = re.sub(r"\| id \| instances \| rules \(instances on the current tree\) \|\n\|---\|---\|---\|\n(\| C\d\d \|.*\n)+", table, s)
    s2 = re.sub(r"\(\d+ frozen edits in total, \d+ of them behaviour-preserving[^)]*\)",
                "(%d frozen edits in total, %d of them behaviour-preserving, %d of those refactorings written by independent agents)" % (tot, sil, pat), s2)
    open(p, "w").write(s2)
    print("DESIGN.md updated" if s2 != s else "DESIGN.md unchanged")
