#!/usr/bin/env python3
"""tool/add_refactors.py <dir> <ID>...: registers <dir>/<ID>/r*.diff (dir = refactors | refactors2) as silent self-test
mutants of check <ID>."""
import json, os, sys, glob
base = sys.argv[1]
for pid in sys.argv[2:]:
    p = "/verif/mutants/%s.json" % pid
    m = json.load(open(p))
    names = {x["name"] for x in m}
    meta = {}
    mp = "/verif/%s/%s/meta.json" % (base, pid)
    if os.path.exists(mp):
        try:
            for r in json.load(open(mp)).get("refactorings", []):
                meta[r.get("file")] = "%s: %s" % (r.get("where", ""), r.get("kind", ""))
        except Exception:
            pass
    tag = base.replace("refactors", "")
    for d in sorted(glob.glob("/verif/%s/%s/r*.diff" % (base, pid))):
        name = "refactor%s-%s" % (tag, os.path.basename(d)[:-5])
        if name in names:
            continue
        m.append(dict(name=name, patch=os.path.relpath(d, "/verif"), expect="", silent=True,
                      why="behaviour-preserving refactoring by an independent agent (%s)" % meta.get(os.path.basename(d), "")[:160]))
    json.dump(m, open(p, "w"), indent=1)
    print(pid, len(m))
