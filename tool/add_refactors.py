#!/usr/bin/env python3
"""tool/add_refactors.py <ID>...: registers refactors/<ID>/r*.diff as silent self-test mutants of check <ID>."""
import json, os, sys, glob
for pid in sys.argv[1:]:
    p = "/verif/mutants/%s.json" % pid
    m = json.load(open(p))
    names = {x["name"] for x in m}
    meta = {}
    mp = "/verif/refactors/%s/meta.json" % pid
    if os.path.exists(mp):
        try:
            for r in json.load(open(mp)).get("refactorings", []):
                meta[r.get("file")] = "%s: %s" % (r.get("where", ""), r.get("kind", ""))
        except Exception:
            pass
    for d in sorted(glob.glob("/verif/refactors/%s/r*.diff" % pid)):
        name = "refactor-%s" % os.path.basename(d)[:-5]
        if name in names:
            continue
        m.append(dict(name=name, patch=os.path.relpath(d, "/verif"), expect="", silent=True,
                      why="behaviour-preserving refactoring by an independent agent (%s)" % meta.get(os.path.basename(d), "")[:160]))
    json.dump(m, open(p, "w"), indent=1)
    print(pid, len(m))
