// Instantiation driver for the C17 check: makes clang instantiate the checked
// arithmetic templates of /repo/include/mp/safeint.h for every integer width
// and signedness, so that their type-checked bodies (with all promotions and
// conversions explicit) can be analysed.  Contains no logic of its own.
#include "mp/safeint.h"

namespace mp {
#define MPSA_INST(T)                                                   \
  template SafeInt<T> operator+(SafeInt<T>, SafeInt<T>);               \
  template SafeInt<T> operator-(SafeInt<T>, SafeInt<T>);               \
  template SafeInt<T> operator*(SafeInt<T>, SafeInt<T>);               \
  template MakeUnsigned<T>::Type SafeAbs(T);

MPSA_INST(signed char)
MPSA_INST(short)
MPSA_INST(int)
MPSA_INST(long)
MPSA_INST(long long)
MPSA_INST(unsigned char)
MPSA_INST(unsigned short)
MPSA_INST(unsigned int)
MPSA_INST(unsigned long)
MPSA_INST(unsigned long long)

#define MPSA_CT(T, U) template SafeInt<T>::SafeInt(U);
#define MPSA_CT_ALL(T)                                                  \
  MPSA_CT(T, signed char) MPSA_CT(T, short) MPSA_CT(T, int) MPSA_CT(T, long) \
  MPSA_CT(T, long long) MPSA_CT(T, unsigned char) MPSA_CT(T, unsigned short) \
  MPSA_CT(T, unsigned int) MPSA_CT(T, unsigned long) MPSA_CT(T, unsigned long long)

MPSA_CT_ALL(signed char)
MPSA_CT_ALL(short)
MPSA_CT_ALL(int)
MPSA_CT_ALL(long)
MPSA_CT_ALL(long long)
MPSA_CT_ALL(unsigned char)
MPSA_CT_ALL(unsigned short)
MPSA_CT_ALL(unsigned int)
MPSA_CT_ALL(unsigned long)
MPSA_CT_ALL(unsigned long long)
// mixed operands: SafeInt<T> op U and U op SafeInt<T> for a selection of type pairs (wider, narrower, other signedness)
#define MPSA_MIX(T, U)                                                  \
  template SafeInt<T> operator+(SafeInt<T>, U);  template SafeInt<T> operator+(U, SafeInt<T>);  \
  template SafeInt<T> operator-(SafeInt<T>, U);  template SafeInt<T> operator-(U, SafeInt<T>);  \
  template SafeInt<T> operator*(SafeInt<T>, U);  template SafeInt<T> operator*(U, SafeInt<T>);
#define MPSA_MIX_ALL(T)                                                 \
  MPSA_MIX(T, short) MPSA_MIX(T, int) MPSA_MIX(T, long) MPSA_MIX(T, unsigned int) MPSA_MIX(T, unsigned long)

MPSA_MIX_ALL(int)
MPSA_MIX_ALL(unsigned int)
MPSA_MIX_ALL(long)
MPSA_MIX_ALL(unsigned long)
}  // namespace mp
