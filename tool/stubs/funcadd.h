/* Minimal stand-in for ASL's funcadd.h, used only so that
   /repo/src/gsl/amplgsl.cc can be parsed by the static checks (the ASL
   headers are not part of this repository).  Field names and the addfunc /
   at_reset macros follow solvers/funcadd.h of the AMPL Solver Library. */
#ifndef FUNCADD_H_STUB
#define FUNCADD_H_STUB
#include <stdio.h>
#include <stdarg.h>
#ifdef __cplusplus
extern "C" {
#endif
typedef double real;
typedef struct arglist arglist;
typedef struct AmplExports AmplExports;
typedef struct TMInfo TMInfo;
typedef real (*rfunc)(arglist *);
typedef real (*ufunc)(arglist *);
typedef void Exitfunc(void *);
struct arglist {
  int n;            /* number of args */
  int nr;           /* number of real input args */
  int *at;          /* argument types */
  real *ra;         /* pure real args */
  const char **sa;  /* symbolic args */
  real *derivs;     /* for partial derivatives (if nonzero) */
  real *hes;        /* for second partials (if nonzero) */
  char *dig;        /* if (dig && dig[i]) { partials w.r.t. ra[i] will not be used } */
  void *funcinfo;   /* for use by the function (if desired) */
  AmplExports *AE;  /* functions made visible */
  void *f;          /* for internal use */
  void *tva;        /* for internal use */
  char *Errmsg;     /* to indicate an error, set this to a description */
  TMInfo *TMI;      /* used in Tempmem calls */
  void *Private;
  int nin, nout, nsin, nsout;
};
struct AmplExports {
  FILE *StdErr;
  void (*Addfunc)(const char *name, rfunc f, int type, int nargs, void *funcinfo, AmplExports *ae);
  long ASLdate;
  int (*FprintF)(FILE *, const char *, ...);
  int (*PrintF)(const char *, ...);
  int (*SprintF)(char *, const char *, ...);
  int (*VfprintF)(FILE *, const char *, va_list);
  int (*VsprintF)(char *, const char *, va_list);
  double (*Strtod)(const char *, char **);
  void (*AtExit)(AmplExports *ae, Exitfunc *, void *);
  void (*AtReset)(AmplExports *ae, Exitfunc *, void *);
  void *(*Tempmem)(TMInfo *, size_t);
  void (*Add_table_handler)(void);
  void *Private;
  void (*Qsortv)(void *, size_t, size_t, int (*)(const void *, const void *, void *), void *);
  FILE *StdIn, *StdOut;
  void (*Clearerr)(FILE *);
  int (*Fclose)(FILE *);
  int (*SnprintF)(char *, size_t, const char *, ...);
  int (*VsnprintF)(char *, size_t, const char *, va_list);
  void *(*Addrand)(void);
  void (*Addrandinit)(AmplExports *ae, void (*)(void *, unsigned long), void *);
};
enum FUNCADD_TYPE {
  FUNCADD_REAL_VALUED = 0, FUNCADD_STRING_VALUED = 2, FUNCADD_STRING_ARGS = 1,
  FUNCADD_RANDOM_VALUED = 4, FUNCADD_012ARGS = 8, FUNCADD_OUTPUT_ARGS = 16
};
#define addfunc(a, b, c, d, e) ae->Addfunc(a, b, c, d, e, ae)
#define at_reset(a, b) ae->AtReset(ae, a, b)
#define at_exit(a, b) ae->AtExit(ae, a, b)
#define addrandinit(a, b) ae->Addrandinit(ae, a, b)
void funcadd_ASL(AmplExports *ae);
#ifdef __cplusplus
}
#endif
#endif
