#!/usr/bin/env python3
"""tool/gen_refnames.py: (re)generates mpsa/refnames.json from the pinned tree: for every function any check
analyses, the names of its parameters and locals with a name-free key (type + shape of the initialiser).  Run after
a deliberate change of the pinned reference (never by a check)."""
import sys, json, os
sys.path.insert(0, "/verif")
os.environ["MPSA_REFNAMES"] = "0"
from mpsa import cfg, selftest, refnames
from mpsa.facts import AnalysisBroken
table = {}
orig = cfg.Facts.__init__


def hook(self, unit_facts):
    for u in unit_facts:
        for fd in u.get("functions", []):
            k = refnames.fkey(fd)
            e = refnames.reference_entry(fd)
            if not e:
                continue
            lst = table.setdefault(k, [])
            if e not in lst:
                lst.append(e)
    orig(self, unit_facts)


cfg.Facts.__init__ = hook
props = sys.argv[1:] or ["C%02d" % i for i in range(1, 21)]
for p in props:
    for tier in ("quick", "thorough"):
        try:
            selftest.run_on(p, "/repo", tier=tier)
        except AnalysisBroken as e:
            print(p, tier, "broken:", str(e)[:100])
    print(p, len(table), file=sys.stderr)
old = {}
path = "/verif/mpsa/refnames.json"
if os.path.exists(path) and sys.argv[1:]:
    old = json.load(open(path))
old.update(table)
json.dump(old, open(path, "w"), separators=(",", ":"), sort_keys=True)
print("functions:", len(old), "bytes:", os.path.getsize(path))
