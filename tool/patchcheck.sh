#!/bin/bash
# tool/patchcheck.sh <patch file> <check id>...: applies a patch to a scratch copy of /repo (outside /repo and
# /verif, removed afterwards), runs the quick rules of the named checks on the copy and prints the failures.
# Used for seeded property-breaking changes (expected: exit 1) and for behaviour-preserving refactorings
# (expected: exit 0).
set -u
P=$1; shift
D=$(mktemp -d /tmp/patchcheck_XXXXXX)
rsync -a --exclude _build --exclude .git /repo/ "$D/"
( cd "$D" && patch -p1 --quiet < "$P" ) || { echo "patch does not apply"; rm -rf "$D"; exit 2; }
cd /verif
RC=0
for c in "$@"; do
  python3 - "$c" "$D" <<'PY'
import sys
sys.path.insert(0, "/verif")
from mpsa import evidence, selftest
from mpsa.facts import AnalysisBroken
prop, repo = sys.argv[1], sys.argv[2]
known = {k["key"] for k in evidence.load_known() if k.get("status") == "known"}
try:
    r = selftest.run_on(prop, repo)
except AnalysisBroken as e:
    print("ANALYSIS-BROKEN property=%s: %s" % (prop, e)); sys.exit(2)
fails = [(rl.full_key(i), i) for rl in r.rules for i in rl.instances if not i["ok"] and rl.full_key(i) not in known]
for k, i in fails:
    print("  FAIL %s at %s: %s" % (k, i.get("where"), (i.get("detail") or "")[:300]))
# instance floors
for rl in r.rules:
    if len(rl.instances) < getattr(rl, "floor", 0):
        print("  FLOOR %s: %d instances < floor %d" % (rl.id, len(rl.instances), rl.floor)); sys.exit(2)
sys.exit(1 if fails else 0)
PY
  rc=$?
  echo "== check $c: exit $rc"
  [ $rc -gt $RC ] && RC=$rc
done
rm -rf "$D"
exit $RC
