#!/bin/bash
# tool/seedcheck.sh <ID> [more check ids...]: applies seeded/<ID>/patch.diff to /repo, runs the checks, reverts.
set -u
ID=$1; shift
CHECKS="${@:-$ID}"
P=/verif/seeded/$ID/patch.diff
cd /repo || exit 2
if [ -n "$(git status --porcelain --untracked-files=no)" ]; then echo "/repo has uncommitted changes"; exit 2; fi
git apply --check "$P" || { echo "patch does not apply"; exit 2; }
git apply "$P"
cd /verif
for c in $CHECKS; do
  ./check $c --tier quick > /tmp/seedcheck_$c.log 2>&1; rc=$?
  echo "== check $c on seeded/$ID: exit $rc"
  grep -E "FAIL|VIOLATION|BROKEN" /tmp/seedcheck_$c.log | cut -c1-400 | head -8
  cp /tmp/seedcheck_$c.log /verif/seeded/$ID/check_$c.log; rm -f /tmp/seedcheck_$c.log
done
git -C /repo checkout -- . 
git -C /repo status --porcelain --untracked-files=no
