#!/bin/bash
# tool/seedcheck.sh <ID> [check ids...]: applies seeded/<ID>/patch.diff to a scratch copy of /repo
# (outside /repo and /verif, removed afterwards) and runs the quick checks on the copy.
set -u
ID=$1; shift
CHECKS="${@:-${ID%b}}"
CHECKS="${CHECKS%c}"
P=/verif/seeded/$ID/patch.diff
D=$(mktemp -d /tmp/seedcheck_XXXXXX)
rsync -a --exclude _build --exclude .git /repo/ "$D/"
( cd "$D" && patch -p1 --quiet < "$P" ) || { echo "patch does not apply"; rm -rf "$D"; exit 2; }
cd /verif
for c in $CHECKS; do
  python3 - "$c" "$D" > /tmp/seedcheck_$$_$c.log 2>&1 <<'E'
import sys, importlib
sys.path.insert(0, "/verif")
from mpsa import evidence, selftest
from mpsa.facts import AnalysisBroken
prop, repo = sys.argv[1], sys.argv[2]
known = {k["key"] for k in evidence.load_known() if k.get("status") == "known"}
try:
    r = selftest.run_on(prop, repo)
except AnalysisBroken as e:
    print("ANALYSIS-BROKEN property=%s: %s" % (prop, e)); sys.exit(2)
fails = [(rl.full_key(i), i) for rl in r.rules for i in rl.instances if not i["ok"] and rl.full_key(i) not in known]
for k, i in fails:
    print("  FAIL %s at %s: %s" % (k, i.get("where"), i.get("detail")))
    print("VIOLATION property=%s" % prop)
sys.exit(1 if fails else 0)
E
  rc=$?
  echo "== check $c on seeded/$ID: exit $rc"
  grep -E "FAIL|VIOLATION|BROKEN|Error" /tmp/seedcheck_$$_$c.log | cut -c1-400 | head -8
  cp /tmp/seedcheck_$$_$c.log /verif/seeded/$ID/check_$c.log; rm -f /tmp/seedcheck_$$_$c.log
done
rm -rf "$D"
