// mpx — fact exporter for the mp static checks (clang 14 LibTooling).
//
// Emits, for one translation unit, a JSON file with
//   * "functions": every function definition whose qualified name matches one
//     of the --fn regexes (template instantiations and lambdas included):
//     resolved AST of the body + clang CFG (all sub-expressions as elements);
//   * "enums", "records", "vars": declaration facts matching --enum/--rec/--var;
//   * "callgraph" (with --callgraph): for every function definition of the unit
//     that is not in a system header, the list of resolved callees.
// The exporter carries no property knowledge.
//
// usage: mpx [--fn RE]... [--rec RE]... [--var RE]... [--enum RE]... [--callgraph]
//            -o out.json file.cc -- <compiler flags>

#include "clang/AST/ASTConsumer.h"
#include "clang/AST/ASTContext.h"
#include "clang/AST/Mangle.h"
#include "clang/AST/RecursiveASTVisitor.h"
#include "clang/AST/ExprCXX.h"
#include "clang/AST/StmtCXX.h"
#include "clang/Analysis/CFG.h"
#include "clang/Frontend/CompilerInstance.h"
#include "clang/Frontend/FrontendAction.h"
#include "clang/Lex/Lexer.h"
#include "clang/Tooling/CompilationDatabase.h"
#include "clang/Tooling/Tooling.h"
#include "llvm/Support/JSON.h"
#include "llvm/Support/Regex.h"
#include "llvm/Support/raw_ostream.h"
#include <map>
#include <memory>
#include <set>
#include <string>
#include <vector>

using namespace clang;

namespace {

struct Options {
  std::vector<std::string> fn, rec, var, en;
  bool callgraph = false;
  std::string out;
} Opt;

struct Matcher {
  std::vector<llvm::Regex> res;
  void add(const std::string &s) { res.emplace_back("^(" + s + ")$"); }
  bool match(llvm::StringRef s) {
    for (auto &r : res)
      if (r.match(s)) return true;
    return false;
  }
  bool empty() const { return res.empty(); }
};

class Exporter : public RecursiveASTVisitor<Exporter> {
public:
  Exporter(ASTContext &C, llvm::raw_ostream &OS)
      : Ctx(C), SM(C.getSourceManager()), J(OS, 0), PP(C.getLangOpts()),
        Names(C) {
    PP.SuppressTagKeyword = true;
    PP.Bool = true;
    for (auto &s : Opt.fn) MFn.add(s);
    for (auto &s : Opt.rec) MRec.add(s);
    for (auto &s : Opt.var) MVar.add(s);
    for (auto &s : Opt.en) MEnum.add(s);
  }

  bool shouldVisitTemplateInstantiations() const { return true; }
  bool shouldVisitImplicitCode() const { return false; }

  // ---- collection ---------------------------------------------------------
  bool VisitFunctionDecl(FunctionDecl *FD) {
    if (!FD->doesThisDeclarationHaveABody()) return true;
    if (Opt.callgraph && !SM.isInSystemHeader(FD->getLocation()))
      CGFuncs.push_back(FD);
    if (MFn.empty()) return true;
    std::string Q = plainQN(FD);
    if (MFn.match(Q)) addFunc(FD);
    return true;
  }
  bool VisitEnumDecl(EnumDecl *ED) {
    if (!ED->isCompleteDefinition() || MEnum.empty()) return true;
    if (MEnum.match(plainQN(ED))) Enums.push_back(ED);
    return true;
  }
  bool VisitCXXRecordDecl(CXXRecordDecl *RD) {
    if (!RD->isCompleteDefinition() || MRec.empty()) return true;
    if (MRec.match(plainQN(RD))) Records.push_back(RD);
    return true;
  }
  bool VisitRecordDecl(RecordDecl *RD) {
    if (isa<CXXRecordDecl>(RD)) return true;
    if (!RD->isCompleteDefinition() || MRec.empty()) return true;
    if (MRec.match(plainQN(RD))) CRecords.push_back(RD);
    return true;
  }
  bool VisitVarDecl(VarDecl *VD) {
    if (MVar.empty() || isa<ParmVarDecl>(VD)) return true;
    if (!VD->hasGlobalStorage() && !VD->isStaticDataMember()) return true;
    if (MVar.match(plainQN(VD))) Vars.push_back(VD);
    return true;
  }

  void addFunc(const FunctionDecl *FD) {
    if (FuncSeen.insert(FD).second) Funcs.push_back(FD);
  }

  // ---- helpers ------------------------------------------------------------
  std::string locStr(SourceLocation L) {
    if (L.isInvalid()) return "";
    SourceLocation E = SM.getExpansionLoc(L);
    PresumedLoc P = SM.getPresumedLoc(E);
    if (P.isInvalid()) return "";
    return std::string(P.getFilename()) + ":" + std::to_string(P.getLine()) +
           ":" + std::to_string(P.getColumn());
  }

  // qualified name without template arguments (stable across instantiations)
  std::string plainQN(const NamedDecl *D) {
    std::vector<std::string> Parts;
    Parts.push_back(D->getNameAsString());
    const DeclContext *DC = D->getDeclContext();
    while (DC && !DC->isTranslationUnit()) {
      if (auto *NS = dyn_cast<NamespaceDecl>(DC)) {
        if (NS->isAnonymousNamespace()) Parts.push_back("(anon)");
        else if (!NS->isInline()) Parts.push_back(NS->getNameAsString());
      } else if (auto *RD = dyn_cast<RecordDecl>(DC)) {
        if (auto *CRD = dyn_cast<CXXRecordDecl>(RD); CRD && CRD->isLambda())
          Parts.push_back("(lambda)");
        else if (RD->getIdentifier()) Parts.push_back(RD->getNameAsString());
        else Parts.push_back("(unnamed)");
      } else if (auto *FD = dyn_cast<FunctionDecl>(DC)) {
        Parts.push_back(FD->getNameAsString());
      } else if (auto *ED = dyn_cast<EnumDecl>(DC)) {
        if (ED->isScoped() && ED->getIdentifier()) Parts.push_back(ED->getNameAsString());
      }
      DC = DC->getParent();
    }
    std::string R;
    for (auto It = Parts.rbegin(); It != Parts.rend(); ++It) {
      if (!R.empty()) R += "::";
      R += *It;
    }
    return R;
  }
  std::string typeStr(QualType T) {
    if (T.isNull()) return "";
    return T.getAsString(PP);
  }
  std::string canonStr(QualType T) {
    if (T.isNull()) return "";
    return T.getCanonicalType().getAsString(PP);
  }
  std::string diagName(const NamedDecl *D) {
    std::string S;
    llvm::raw_string_ostream OS(S);
    D->getNameForDiagnostic(OS, PP, true);
    return OS.str();
  }
  std::string recName(const CXXRecordDecl *RD) {
    if (!RD) return "";
    return typeStr(Ctx.getRecordType(RD));
  }
  // stable identifier of a function: mangled name when it can be mangled
  std::string funcId(const FunctionDecl *FD) {
    if (!FD) return "";
    auto It = IdCache.find(FD);
    if (It != IdCache.end()) return It->second;
    std::string Id;
    bool Dep = FD->isDependentContext() || FD->getType()->isDependentType();
    if (!Dep) {
      if (FD->isTemplated()) Dep = true;
    }
    if (!Dep) {
      Id = Names.getName(FD);
    }
    if (Id.empty())
      Id = "?" + diagName(FD) + "@" + locStr(FD->getLocation());
    IdCache[FD] = Id;
    return Id;
  }
  std::string declId(const ValueDecl *D) {
    if (auto *FD = dyn_cast<FunctionDecl>(D)) return funcId(FD);
    if (isa<FieldDecl>(D) || isa<EnumConstantDecl>(D) ||
        isa<IndirectFieldDecl>(D))
      return plainQN(D);
    if (auto *VD = dyn_cast<VarDecl>(D)) {
      if (VD->hasGlobalStorage() && !VD->isStaticLocal())
        return plainQN(VD);
      return VD->getNameAsString() + "#" + locStr(VD->getLocation());
    }
    return D->getNameAsString() + "#" + locStr(D->getLocation());
  }
  const char *declKind(const ValueDecl *D) {
    if (isa<ParmVarDecl>(D)) return "Parm";
    if (isa<VarDecl>(D)) return "Var";
    if (isa<FieldDecl>(D)) return "Field";
    if (isa<EnumConstantDecl>(D)) return "EnumConst";
    if (isa<CXXMethodDecl>(D)) return "Method";
    if (isa<FunctionDecl>(D)) return "Function";
    return D->getDeclKindName();
  }

  void calleeAttrs(const FunctionDecl *FD) {
    if (!FD) return;
    J.attribute("callee", plainQN(FD));
    J.attribute("calleeId", funcId(FD));
    J.attribute("calleeFull", diagName(FD));
    if (auto *MD = dyn_cast<CXXMethodDecl>(FD)) {
      J.attribute("calleeRec", recName(MD->getParent()));
      if (MD->isVirtual()) J.attribute("virtual", true);
    }
    if (SM.isInSystemHeader(FD->getLocation())) J.attribute("sys", true);
    // make the body of callees reachable for later export? no: queries decide
  }

  // ---- statement serialisation -------------------------------------------
  unsigned nextId = 0;
  std::map<const Stmt *, unsigned> StmtIds;
  std::map<const CXXCtorInitializer *, unsigned> InitIds;
  std::map<const VarDecl *, unsigned> VarIds;

  void constValue(const Expr *E) {
    if (E->isValueDependent() || E->isTypeDependent()) return;
    if (isa<InitListExpr>(E)) return;
    QualType T = E->getType();
    if (T.isNull()) return;
    if (!E->isPRValue() && !isa<DeclRefExpr>(E)) return;
    if (T->isIntegralOrEnumerationType()) {
      Expr::EvalResult R;
      if (E->EvaluateAsInt(R, Ctx, Expr::SE_NoSideEffects)) {
        llvm::SmallString<32> S;
        R.Val.getInt().toString(S, 10);
        J.attribute("cv", S.str());
      }
    } else if (T->isRealFloatingType()) {
      llvm::APFloat F(0.0);
      if (E->EvaluateAsFloat(F, Ctx, Expr::SE_NoSideEffects)) {
        llvm::SmallString<32> S;
        F.toString(S);
        J.attribute("cv", S.str());
      }
    }
  }

  void emitVarDecl(const VarDecl *VD) {
    J.object([&] {
      unsigned id = nextId++;
      VarIds[VD] = id;
      J.attribute("i", id);
      J.attribute("k", "VarDecl");
      J.attribute("name", VD->getNameAsString());
      J.attribute("declId", declId(VD));
      J.attribute("t", typeStr(VD->getType()));
      J.attribute("ct", canonStr(VD->getType()));
      J.attribute("l", locStr(VD->getLocation()));
      if (VD->isStaticLocal()) J.attribute("static", true);
      J.attributeArray("c", [&] {
        if (VD->hasInit()) emitStmt(VD->getInit());
      });
    });
  }

  void emitStmt(const Stmt *S) {
    if (!S) {
      J.value(nullptr);
      return;
    }
    J.object([&] {
      unsigned id = nextId++;
      StmtIds[S] = id;
      J.attribute("i", id);
      J.attribute("k", S->getStmtClassName());
      SourceLocation L = S->getBeginLoc();
      J.attribute("l", locStr(L));
      if (L.isMacroID()) {
        J.attribute("m", Lexer::getImmediateMacroName(L, SM, Ctx.getLangOpts()));
        // outermost macro
        SourceLocation O = L;
        while (O.isMacroID() && SM.isMacroArgExpansion(O))
          O = SM.getImmediateSpellingLoc(O);
        if (O.isMacroID()) {
          SourceLocation T = O;
          llvm::StringRef Outer;
          while (T.isMacroID()) {
            Outer = Lexer::getImmediateMacroName(T, SM, Ctx.getLangOpts());
            T = SM.getImmediateMacroCallerLoc(T);
          }
          J.attribute("mo", Outer);
        }
      }
      if (auto *E = dyn_cast<Expr>(S)) {
        J.attribute("t", typeStr(E->getType()));
        J.attribute("ct", canonStr(E->getType()));
        if (E->isLValue()) J.attribute("lv", true);
        constValue(E);
      }
      if (auto *DRE = dyn_cast<DeclRefExpr>(S)) {
        const ValueDecl *D = DRE->getDecl();
        J.attribute("name", D->getNameAsString());
        J.attribute("qn", plainQN(D));
        J.attribute("dk", declKind(D));
        J.attribute("declId", declId(D));
        if (auto *FD = dyn_cast<FunctionDecl>(D))
          J.attribute("full", diagName(FD));
      } else if (auto *ME = dyn_cast<MemberExpr>(S)) {
        const ValueDecl *D = ME->getMemberDecl();
        J.attribute("name", D->getNameAsString());
        J.attribute("qn", plainQN(D));
        J.attribute("dk", declKind(D));
        J.attribute("declId", declId(D));
        if (ME->isArrow()) J.attribute("arrow", true);
        if (auto *FD = dyn_cast<FieldDecl>(D)) J.attribute("fi", (int64_t)FD->getFieldIndex());
      } else if (auto *DM = dyn_cast<CXXDependentScopeMemberExpr>(S)) {
        J.attribute("name", DM->getMember().getAsString());
      } else if (auto *UL = dyn_cast<UnresolvedLookupExpr>(S)) {
        J.attribute("name", UL->getName().getAsString());
      } else if (auto *UM = dyn_cast<UnresolvedMemberExpr>(S)) {
        J.attribute("name", UM->getMemberName().getAsString());
      } else if (auto *DS = dyn_cast<DependentScopeDeclRefExpr>(S)) {
        J.attribute("name", DS->getDeclName().getAsString());
      }
      if (auto *CE = dyn_cast<CallExpr>(S)) {
        if (const FunctionDecl *FD = CE->getDirectCallee()) {
          calleeAttrs(FD);
        } else if (!CE->isTypeDependent() && !CE->getCallee()->isTypeDependent()) {
          J.attribute("indirect", true);
        }
        if (auto *OC = dyn_cast<CXXOperatorCallExpr>(S))
          J.attribute("op", getOperatorSpelling(OC->getOperator()));
      } else if (auto *CC = dyn_cast<CXXConstructExpr>(S)) {
        calleeAttrs(CC->getConstructor());
      } else if (auto *NE = dyn_cast<CXXNewExpr>(S)) {
        if (NE->isArray()) J.attribute("array", true);
        J.attribute("allocT", typeStr(NE->getAllocatedType()));
      } else if (auto *BO = dyn_cast<BinaryOperator>(S)) {
        J.attribute("op", BO->getOpcodeStr());
      } else if (auto *UO = dyn_cast<UnaryOperator>(S)) {
        J.attribute("op", UnaryOperator::getOpcodeStr(UO->getOpcode()));
        if (UO->isPostfix()) J.attribute("postfix", true);
      } else if (auto *Cast = dyn_cast<CastExpr>(S)) {
        J.attribute("ck", Cast->getCastKindName());
      } else if (auto *IL = dyn_cast<IntegerLiteral>(S)) {
        llvm::SmallString<32> V;
        IL->getValue().toString(V, 10, IL->getType()->isSignedIntegerType());
        J.attribute("v", V.str());
      } else if (auto *FL = dyn_cast<FloatingLiteral>(S)) {
        llvm::SmallString<32> V;
        FL->getValue().toString(V);
        J.attribute("v", V.str());
      } else if (auto *SL = dyn_cast<clang::StringLiteral>(S)) {
        if (SL->getCharByteWidth() == 1) J.attribute("v", SL->getBytes());
      } else if (auto *CL = dyn_cast<CharacterLiteral>(S)) {
        J.attribute("v", (int64_t)CL->getValue());
      } else if (auto *BL = dyn_cast<CXXBoolLiteralExpr>(S)) {
        J.attribute("v", BL->getValue() ? "1" : "0");
      } else if (auto *UE = dyn_cast<UnaryExprOrTypeTraitExpr>(S)) {
        J.attribute("op", getTraitSpelling(UE->getKind()));
        if (UE->isArgumentType())
          J.attribute("argT", typeStr(UE->getArgumentType()));
      } else if (auto *LE = dyn_cast<LambdaExpr>(S)) {
        if (const CXXMethodDecl *MD = LE->getCallOperator()) {
          if (MD->doesThisDeclarationHaveABody()) {
            J.attribute("lambda", funcId(MD));
            addFunc(MD);
          }
        }
      } else if (auto *GS = dyn_cast<GotoStmt>(S)) {
        J.attribute("name", GS->getLabel()->getNameAsString());
      } else if (auto *LS = dyn_cast<LabelStmt>(S)) {
        J.attribute("name", LS->getName());
      } else if (auto *TE = dyn_cast<CXXTemporaryObjectExpr>(S)) {
        (void)TE;
      } else if (auto *CT = dyn_cast<CXXCatchStmt>(S)) {
        J.attribute("catchT", typeStr(CT->getCaughtType()));
      }
      if (auto *NC = dyn_cast<ExplicitCastExpr>(S))
        J.attribute("castT", typeStr(NC->getTypeAsWritten()));

      J.attributeArray("c", [&] {
        if (auto *DS = dyn_cast<DeclStmt>(S)) {
          for (const Decl *D : DS->decls()) {
            if (auto *VD = dyn_cast<VarDecl>(D)) emitVarDecl(VD);
          }
        } else if (auto *LE = dyn_cast<LambdaExpr>(S)) {
          // captures' initialisers only; the body is exported as a function
          for (const Expr *CI : LE->capture_inits()) emitStmt(CI);
        } else if (auto *CT = dyn_cast<CXXCatchStmt>(S)) {
          emitStmt(CT->getHandlerBlock());
        } else {
          for (const Stmt *C : S->children()) emitStmt(C);
        }
      });
    });
  }

  void emitCFG(const FunctionDecl *FD) {
    CFG::BuildOptions BO;
    BO.setAllAlwaysAdd();
    BO.AddInitializers = true;
    BO.AddImplicitDtors = false;
    BO.AddTemporaryDtors = false;
    BO.AddEHEdges = false;
    BO.PruneTriviallyFalseEdges = false;
    std::unique_ptr<CFG> G =
        CFG::buildCFG(FD, FD->getBody(), &Ctx, BO);
    if (!G) return;
    J.attributeObject("cfg", [&] {
      J.attribute("entry", G->getEntry().getBlockID());
      J.attribute("exit", G->getExit().getBlockID());
      J.attributeArray("blocks", [&] {
        for (const CFGBlock *B : *G) {
          J.object([&] {
            J.attribute("id", B->getBlockID());
            J.attributeArray("el", [&] {
              for (const CFGElement &El : *B) {
                if (auto CS = El.getAs<CFGStmt>()) {
                  auto It = StmtIds.find(CS->getStmt());
                  if (It != StmtIds.end()) J.value(It->second);
                  else J.value(-1);
                } else if (auto CI = El.getAs<CFGInitializer>()) {
                  auto It = InitIds.find(CI->getInitializer());
                  if (It != InitIds.end()) J.value(It->second);
                  else J.value(-2);
                } else {
                  J.value(-3);
                }
              }
            });
            if (const Stmt *T = B->getTerminatorStmt()) {
              auto It = StmtIds.find(T);
              J.attribute("term", It != StmtIds.end() ? (int)It->second : -1);
              if (const Stmt *C = B->getTerminatorCondition(true)) {
                auto Ic = StmtIds.find(C);
                J.attribute("cond", Ic != StmtIds.end() ? (int)Ic->second : -1);
              }
            }
            if (const Stmt *Lb = B->getLabel()) {
              auto It = StmtIds.find(Lb);
              J.attribute("label", It != StmtIds.end() ? (int)It->second : -1);
            }
            if (B->hasNoReturnElement()) J.attribute("noreturn", true);
            J.attributeArray("succ", [&] {
              for (auto SI = B->succ_begin(); SI != B->succ_end(); ++SI) {
                const CFGBlock *SB = SI->getReachableBlock();
                if (!SB) SB = SI->getPossiblyUnreachableBlock();
                if (SB) J.value(SB->getBlockID());
                else J.value(nullptr);
              }
            });
          });
        }
      });
    });
  }

  void emitFunction(const FunctionDecl *FD) {
    nextId = 0;
    StmtIds.clear();
    InitIds.clear();
    VarIds.clear();
    J.object([&] {
      J.attribute("id", funcId(FD));
      J.attribute("qn", plainQN(FD));
      J.attribute("full", diagName(FD));
      J.attribute("name", FD->getNameAsString());
      J.attribute("l", locStr(FD->getLocation()));
      J.attribute("ret", typeStr(FD->getReturnType()));
      J.attribute("sig", typeStr(FD->getType()));
      bool Dep = FD->isDependentContext();
      if (Dep) J.attribute("dependent", true);
      if (FD->isTemplateInstantiation()) J.attribute("inst", true);
      if (auto *MD = dyn_cast<CXXMethodDecl>(FD)) {
        J.attribute("rec", recName(MD->getParent()));
        J.attribute("recQn", plainQN(MD->getParent()));
        if (MD->isVirtual()) J.attribute("virtual", true);
        if (MD->isStatic()) J.attribute("static", true);
        if (MD->isConst()) J.attribute("const", true);
        if (MD->getParent()->isLambda()) J.attribute("isLambda", true);
        J.attributeArray("overrides", [&] {
          for (const CXXMethodDecl *O : MD->overridden_methods())
            J.value(plainQN(O));
        });
      }
      if (isa<CXXConstructorDecl>(FD)) J.attribute("ctor", true);
      if (isa<CXXDestructorDecl>(FD)) J.attribute("dtor", true);
      J.attributeArray("params", [&] {
        for (const ParmVarDecl *P : FD->parameters()) {
          J.object([&] {
            J.attribute("name", P->getNameAsString());
            J.attribute("declId", declId(P));
            J.attribute("t", typeStr(P->getType()));
            J.attribute("ct", canonStr(P->getType()));
          });
        }
      });
      if (auto *CD = dyn_cast<CXXConstructorDecl>(FD)) {
        J.attributeArray("inits", [&] {
          for (const CXXCtorInitializer *I : CD->inits()) {
            if (!I->isWritten() && !I->isAnyMemberInitializer()) continue;
            J.object([&] {
              unsigned id = nextId++;
              InitIds[I] = id;
              J.attribute("i", id);
              J.attribute("k", "CtorInit");
              if (I->isAnyMemberInitializer() && I->getAnyMember()) {
                J.attribute("name", I->getAnyMember()->getNameAsString());
                J.attribute("qn", plainQN(I->getAnyMember()));
              } else if (I->isBaseInitializer()) {
                J.attribute("base", typeStr(QualType(I->getBaseClass(), 0)));
              }
              J.attribute("written", I->isWritten());
              J.attribute("l", locStr(I->getSourceLocation()));
              J.attributeArray("c", [&] { emitStmt(I->getInit()); });
            });
          }
        });
      }
      J.attributeArray("body", [&] { emitStmt(FD->getBody()); });
      if (!Dep) emitCFG(FD);
    });
  }

  void emitEnum(const EnumDecl *ED) {
    J.object([&] {
      J.attribute("qn", plainQN(ED));
      J.attribute("l", locStr(ED->getLocation()));
      J.attributeArray("enumerators", [&] {
        for (const EnumConstantDecl *EC : ED->enumerators()) {
          J.object([&] {
            J.attribute("name", EC->getNameAsString());
            llvm::SmallString<32> V;
            EC->getInitVal().toString(V, 10);
            J.attribute("value", V.str());
          });
        }
      });
    });
  }

  void emitRecordCommon(const RecordDecl *RD) {
    J.attribute("qn", plainQN(RD));
    J.attribute("full", typeStr(Ctx.getRecordType(RD)));
    J.attribute("l", locStr(RD->getLocation()));
    J.attributeArray("fields", [&] {
      for (const FieldDecl *F : RD->fields()) {
        J.object([&] {
          J.attribute("name", F->getNameAsString());
          J.attribute("t", typeStr(F->getType()));
          J.attribute("ct", canonStr(F->getType()));
          J.attribute("index", F->getFieldIndex());
          J.attribute("l", locStr(F->getLocation()));
          if (auto *AT = Ctx.getAsConstantArrayType(F->getType()))
            J.attribute("extent", (int64_t)AT->getSize().getZExtValue());
          if (!RD->isDependentType() && !F->getType()->isDependentType() &&
              !F->getType()->isIncompleteType())
            J.attribute("size", (int64_t)Ctx.getTypeSizeInChars(F->getType()).getQuantity());
        });
      }
    });
  }

  void emitRecord(const CXXRecordDecl *RD) {
    J.object([&] {
      emitRecordCommon(RD);
      if (RD->isDependentType()) J.attribute("dependent", true);
      J.attributeArray("bases", [&] {
        for (const CXXBaseSpecifier &B : RD->bases())
          J.value(typeStr(B.getType()));
      });
      J.attributeArray("methods", [&] {
        for (const Decl *D : RD->decls()) {
          const CXXMethodDecl *MD = dyn_cast<CXXMethodDecl>(D);
          if (auto *FT = dyn_cast<FunctionTemplateDecl>(D))
            MD = dyn_cast<CXXMethodDecl>(FT->getTemplatedDecl());
          if (!MD || MD->isImplicit()) continue;
          J.object([&] {
            J.attribute("name", MD->getNameAsString());
            J.attribute("sig", typeStr(MD->getType()));
            J.attribute("l", locStr(MD->getLocation()));
            if (MD->isVirtual()) J.attribute("virtual", true);
            if (MD->isPure()) J.attribute("pure", true);
            J.attribute("access", (int)MD->getAccess());
            J.attribute("hasBody", MD->hasBody());
          });
        }
      });
      J.attributeArray("statics", [&] {
        for (const Decl *D : RD->decls())
          if (auto *VD = dyn_cast<VarDecl>(D)) {
            J.object([&] {
              J.attribute("name", VD->getNameAsString());
              J.attribute("t", typeStr(VD->getType()));
            });
          }
      });
    });
  }

  void emitVar(const VarDecl *VD) {
    nextId = 0;
    StmtIds.clear();
    J.object([&] {
      J.attribute("qn", plainQN(VD));
      J.attribute("t", typeStr(VD->getType()));
      J.attribute("ct", canonStr(VD->getType()));
      J.attribute("l", locStr(VD->getLocation()));
      if (auto *AT = Ctx.getAsConstantArrayType(VD->getType()))
        J.attribute("extent", (int64_t)AT->getSize().getZExtValue());
      const VarDecl *Def = nullptr;
      const Expr *Init = VD->getAnyInitializer(Def);
      J.attributeArray("init", [&] {
        if (Init) emitStmt(Init);
      });
    });
  }

  struct CalleeCollector : RecursiveASTVisitor<CalleeCollector> {
    Exporter &X;
    std::set<std::string> Out;
    bool Indirect = false;
    explicit CalleeCollector(Exporter &X) : X(X) {}
    bool shouldVisitTemplateInstantiations() const { return false; }
    bool VisitCallExpr(CallExpr *CE) {
      if (const FunctionDecl *FD = CE->getDirectCallee())
        Out.insert(X.funcId(FD) + "\t" + X.plainQN(FD));
      else if (!CE->isTypeDependent())
        Indirect = true;
      return true;
    }
    bool VisitCXXConstructExpr(CXXConstructExpr *CE) {
      if (const FunctionDecl *FD = CE->getConstructor())
        Out.insert(X.funcId(FD) + "\t" + X.plainQN(FD));
      return true;
    }
    bool VisitCXXThrowExpr(CXXThrowExpr *TE) {
      // pseudo callee: "throw:<type>\t<type>\tthrow-std|throw-nonstd" (rethrow: type "")
      std::string T, K = "throw-nonstd";
      if (const Expr *Op = TE->getSubExpr()) {
        QualType QT = Op->getType().getNonReferenceType().getUnqualifiedType();
        T = X.typeStr(QT);
        if (const CXXRecordDecl *RD = QT->getAsCXXRecordDecl()) {
          if (RD->hasDefinition()) {
            auto isStdExc = [](const CXXRecordDecl *D) {
              return D->getQualifiedNameAsString() == "std::exception";
            };
            if (isStdExc(RD) || RD->forallBases([&](const CXXRecordDecl *) { return true; }) ) {
              bool derived = isStdExc(RD);
              RD->forallBases([&](const CXXRecordDecl *B) { if (isStdExc(B)) derived = true; return true; });
              if (derived) K = "throw-std";
            }
          }
        }
      } else {
        K = "rethrow";
      }
      Out.insert("throw:" + T + "\t" + T + "\t" + K);
      return true;
    }
    bool VisitDeclRefExpr(DeclRefExpr *DRE) {
      // address-taken functions are potential indirect callees
      if (auto *FD = dyn_cast<FunctionDecl>(DRE->getDecl()))
        Out.insert(X.funcId(FD) + "\t" + X.plainQN(FD) + "\tref");
      return true;
    }
    bool TraverseLambdaExpr(LambdaExpr *LE) {
      // lambda bodies are attributed to the enclosing function
      return RecursiveASTVisitor<CalleeCollector>::TraverseLambdaExpr(LE);
    }
  };

  void emitCallGraph() {
    J.attributeArray("callgraph", [&] {
      for (const FunctionDecl *FD : CGFuncs) {
        if (FD->isDependentContext()) continue;
        CalleeCollector CC(*this);
        CC.TraverseStmt(FD->getBody());
        if (auto *CD = dyn_cast<CXXConstructorDecl>(FD))
          for (const CXXCtorInitializer *I : CD->inits())
            CC.TraverseStmt(I->getInit());
        J.object([&] {
          J.attribute("id", funcId(FD));
          J.attribute("qn", plainQN(FD));
          J.attribute("l", locStr(FD->getLocation()));
          if (CC.Indirect) J.attribute("indirect", true);
          J.attributeArray("callees", [&] {
            for (auto &S : CC.Out) J.value(S);
          });
        });
      }
    });
  }

  void run(TranslationUnitDecl *TU, llvm::StringRef MainFile) {
    TraverseDecl(TU);
    J.object([&] {
      J.attribute("unit", MainFile);
      J.attributeArray("functions", [&] {
        // Funcs may grow while emitting (lambdas)
        for (size_t i = 0; i < Funcs.size(); ++i) emitFunction(Funcs[i]);
      });
      J.attributeArray("enums", [&] {
        for (auto *E : Enums) emitEnum(E);
      });
      J.attributeArray("records", [&] {
        for (auto *R : Records) emitRecord(R);
        for (auto *R : CRecords) J.object([&] { emitRecordCommon(R); });
      });
      J.attributeArray("vars", [&] {
        for (auto *V : Vars) emitVar(V);
      });
      if (Opt.callgraph) emitCallGraph();
    });
  }

private:
  ASTContext &Ctx;
  SourceManager &SM;
  llvm::json::OStream J;
  PrintingPolicy PP;
  ASTNameGenerator Names;
  Matcher MFn, MRec, MVar, MEnum;
  std::vector<const FunctionDecl *> Funcs, CGFuncs;
  std::set<const FunctionDecl *> FuncSeen;
  std::vector<const EnumDecl *> Enums;
  std::vector<const CXXRecordDecl *> Records;
  std::vector<const RecordDecl *> CRecords;
  std::vector<const VarDecl *> Vars;
  std::map<const FunctionDecl *, std::string> IdCache;
};

class Consumer : public ASTConsumer {
public:
  explicit Consumer(std::string F) : File(std::move(F)) {}
  void HandleTranslationUnit(ASTContext &Ctx) override {
    if (Ctx.getDiagnostics().hasErrorOccurred()) {
      llvm::errs() << "mpx: parse errors in " << File << "\n";
      Failed = true;
    }
    std::error_code EC;
    llvm::raw_fd_ostream OS(Opt.out, EC);
    if (EC) {
      llvm::errs() << "mpx: cannot write " << Opt.out << "\n";
      Failed = true;
      return;
    }
    Exporter X(Ctx, OS);
    X.run(Ctx.getTranslationUnitDecl(), File);
    OS << "\n";
  }
  static bool Failed;
  std::string File;
};
bool Consumer::Failed = false;

class Action : public ASTFrontendAction {
public:
  std::unique_ptr<ASTConsumer> CreateASTConsumer(CompilerInstance &,
                                                 llvm::StringRef F) override {
    return std::make_unique<Consumer>(F.str());
  }
};

} // namespace

int main(int argc, const char **argv) {
  std::vector<std::string> files, flags;
  bool afterDash = false;
  for (int i = 1; i < argc; ++i) {
    std::string a = argv[i];
    if (afterDash) { flags.push_back(a); continue; }
    if (a == "--") { afterDash = true; continue; }
    auto need = [&](std::vector<std::string> &v) {
      if (i + 1 < argc) v.push_back(argv[++i]);
    };
    if (a == "--fn") need(Opt.fn);
    else if (a == "--rec") need(Opt.rec);
    else if (a == "--var") need(Opt.var);
    else if (a == "--enum") need(Opt.en);
    else if (a == "--callgraph") Opt.callgraph = true;
    else if (a == "-o") { if (i + 1 < argc) Opt.out = argv[++i]; }
    else files.push_back(a);
  }
  if (files.size() != 1 || Opt.out.empty()) {
    llvm::errs() << "usage: mpx [--fn RE].. [--rec RE].. [--var RE].. [--enum RE].. "
                    "[--callgraph] -o out.json file -- flags\n";
    return 2;
  }
  clang::tooling::FixedCompilationDatabase DB(".", flags);
  clang::tooling::ClangTool Tool(DB, files);
  int rc = Tool.run(clang::tooling::newFrontendActionFactory<Action>().get());
  if (rc != 0 || Consumer::Failed) return 1;
  return 0;
}
