#!/opt/veriftools/pyvenv/bin/python
import json, jsonschema, glob, sys
jsonschema.validate(json.load(open('/verif/MANIFEST.json')), json.load(open('/root/.vp/MANIFEST.schema.json')))
s=json.load(open('/root/.vp/EVIDENCE.schema.json'))
for f in sorted(glob.glob('/verif/evidence/C*.json')):
    jsonschema.validate(json.load(open(f)), s)
    print('valid', f)
print('manifest valid')
