"""Sentinel-scan facts: which bytes relative to a char cursor are known to be
non-NUL at a program point (must-analysis), with aliases of the form
`local == *(cursor+k)` so that tests on a copied byte count.

Cursors are identified by declId (locals/params: DeclRefExpr, members:
MemberExpr such as ReaderBase::ptr_)."""
from .cfg import kids, strip, walk, cv, call_args

REFK = ("DeclRefExpr", "MemberExpr")


def ref_id(n):
    n = strip(n)
    if n is not None and n["k"] in REFK:
        return n.get("declId")
    return None


def deref_of(n):
    """(cursor declId, offset, pre_increment) if n reads *(x+off), x[off] or *++x."""
    n = strip(n)
    if n is None:
        return None
    if n["k"] == "UnaryOperator" and n.get("op") == "*":
        t = strip(kids(n)[0])
        if t["k"] in REFK:
            return t.get("declId"), 0
        if t["k"] == "UnaryOperator" and t.get("op") == "++" and not t.get("postfix"):
            r = ref_id(kids(t)[0])
            if r:
                return r, 0          # value of *++x is the byte at the new position
        if t["k"] == "BinaryOperator" and t.get("op") == "+":
            b, o = ref_id(kids(t)[0]), cv(kids(t)[1])
            if b and o is not None:
                return b, o
    if n["k"] == "ArraySubscriptExpr":
        b, o = ref_id(kids(n)[0]), cv(kids(n)[1])
        if b and o is not None:
            return b, o
    return None


def written_refs(n):
    """declIds (locals or members) modified by executing element n."""
    k = n["k"]
    out = set()
    if k == "UnaryOperator" and n.get("op") in ("++", "--"):
        r = ref_id(kids(n)[0])
        if r:
            out.add(r)
    elif k in ("BinaryOperator", "CompoundAssignOperator") and (
            n.get("op") == "=" or k == "CompoundAssignOperator"):
        r = ref_id(kids(n)[0])
        if r:
            out.add(r)
    return out


class Scan:
    def __init__(self, F, f, member_calls_modify=None):
        """member_calls_modify(call node) -> set of member declIds a call on `this`
        may modify (default: any non-const member call kills all member cursors)."""
        self.F, self.f = F, f
        self.mcm = member_calls_modify
        self._before = f.cfg.semantic_must(self.edge_gen, self.kill, self.node_gen,
                                           edge_gen_uses_facts=True)

    # facts: ("nz", cursor, off) | ("alias", var, cursor, off)
    def kill(self, n, fact):
        w = written_refs(n)
        if n["k"] in ("CXXMemberCallExpr", "CallExpr") and self.mcm is not None:
            w = w | self.mcm(n)
        if not w:
            return False
        if fact[0] in ("nz", "adv"):
            return fact[1] in w
        return fact[1] in w or fact[2] in w

    def node_gen(self, n, facts):
        out = set()
        tgt = src = None
        if n["k"] == "VarDecl" and kids(n):
            tgt, src = n.get("declId"), kids(n)[0]
        elif n["k"] == "DeclStmt":
            for v in kids(n):
                if v["k"] == "VarDecl" and kids(v):
                    d = deref_of(kids(v)[0])
                    if d:
                        out.add(("alias", v.get("declId"), d[0], d[1]))
            return out
        elif n["k"] == "BinaryOperator" and n.get("op") == "=":
            tgt, src = ref_id(kids(n)[0]), kids(n)[1]
        if tgt and src is not None:
            d = deref_of(src)
            if d:
                out.add(("alias", tgt, d[0], d[1]))
        return out

    def implies(self, n, pol, facts, depth=0):
        """set of ("nz", cursor, off) implied by condition n having truth pol."""
        n = strip(n)
        if n is None:
            return set()
        k = n["k"]

        def byte(x):
            d = deref_of(x)
            if d:
                return d
            r = ref_id(x)
            if r:
                for f_ in facts:
                    if f_[0] == "alias" and f_[1] == r:
                        return f_[2], f_[3]
            return None
        b = byte(n)
        if b is not None:
            return {("nz",) + b} if pol else set()
        if k == "UnaryOperator" and n.get("op") == "!":
            return self.implies(kids(n)[0], not pol, facts, depth)
        if k == "BinaryOperator":
            op = n["op"]
            a, c = kids(n)
            if op in ("==", "!=", "<", "<=", ">", ">="):
                for x, y, o in ((a, c, op), (c, a, {"<": ">", ">": "<", "<=": ">=", ">=": "<="}.get(op, op))):
                    bx, cy = byte(x), cv(y)
                    if bx is None or cy is None:
                        continue
                    # byte o cy has truth pol: does it exclude byte == 0 ?
                    def holds(v):
                        r = {"==": v == cy, "!=": v != cy, "<": v < cy, "<=": v <= cy,
                             ">": v > cy, ">=": v >= cy}[o]
                        return r == pol
                    if not holds(0):
                        return {("nz",) + bx}
                    return set()
                return set()
            if op == "&&":
                if pol:
                    return self.implies(a, True, facts, depth) | self.implies(c, True, facts, depth)
                return self.implies(a, False, facts, depth) & self.implies(c, False, facts, depth)
            if op == "||":
                if pol:
                    return self.implies(a, True, facts, depth) & self.implies(c, True, facts, depth)
                return self.implies(a, False, facts, depth) | self.implies(c, False, facts, depth)
        if k in ("CallExpr", "CXXMemberCallExpr") and depth < 2:
            cal = n.get("callee", "").split("::")[-1]
            args = call_args(n)
            if cal in ("isspace", "isalpha", "isdigit", "isalnum") and args:
                bb = byte(args[0])
                return {("nz",) + bb} if (bb and pol) else set()
            # a one-line pure predicate of the code base (e.g. `static bool IsDigit(char c) { return c >= '0' && c <= '9'; }`)
            from .cfg import _pure_predicate, _subst_params
            g = getattr(self.F, "_by_id", {}).get(n.get("calleeId"))
            if g is not None:
                e = _pure_predicate(g)
                if e is not None and len(args) == len(g.params):
                    binding = {p["declId"]: strip(a) for p, a in zip(g.params, args)}
                    return self.implies(_subst_params(strip(e), binding), pol, facts, depth + 1)
        return set()

    def edge_gen(self, cond, pol, facts):
        return self.implies2(cond, pol, facts)

    def implies2(self, n, pol, facts):
        """implies() plus the derived fact ("adv", cursor): the cursor may advance
        by one (byte under it is not NUL, or the cursor differs from the end
        pointer so the sentinel has not been reached)."""
        n0 = strip(n)
        if n0 is not None and n0["k"] == "UnaryOperator" and n0.get("op") == "!":
            return self.implies2(kids(n0)[0], not pol, facts)
        if n0 is not None and n0["k"] == "BinaryOperator" and n0.get("op") in ("&&", "||"):
            a, c = kids(n0)
            conj = (n0["op"] == "&&") == pol      # both operands have truth pol
            if (n0["op"] == "&&" and pol) or (n0["op"] == "||" and not pol):
                return self.implies2(a, pol, facts) | self.implies2(c, pol, facts)
            return self.implies2(a, pol, facts) & self.implies2(c, pol, facts)
        out = set(self.implies(n, pol, facts))
        for f_ in list(out):
            if f_[0] == "nz" and f_[2] == 0:
                out.add(("adv", f_[1]))
        if n0 is not None and n0["k"] == "BinaryOperator" and n0.get("op") in ("==", "!="):
            ra, rb = ref_id(kids(n0)[0]), ref_id(kids(n0)[1])
            if ra and rb and ((n0["op"] == "!=") == pol):
                for x, y in ((ra, rb), (rb, ra)):
                    if y.endswith("::end_") or y.split("#")[0] in ("end", "end_"):
                        out.add(("adv", x))
        return out

    def before(self, node):
        return self._before(node)

    def may_advance(self, node, cursor):
        return ("adv", cursor) in self.before(node)

    def nonzero_before(self, node):
        return {(f_[1], f_[2]) for f_ in self.before(node) if f_[0] == "nz"}
