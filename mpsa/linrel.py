"""A small linear-relational abstract domain (conjunctions of linear
inequalities over integer-valued variables) with Fourier-Motzkin emptiness.

Used for the loop-free checked-arithmetic functions (C17) and the objective
helpers (C12).  All variables are integers and all coefficients are integers,
so strict inequalities are closed (e > 0  <=>  e >= 1) and every derived
inequality is tightened by dividing by the gcd of its coefficients and
flooring the constant - sound for integer points.
"""
from fractions import Fraction
from math import gcd


class Lin:
    """sum(coef*var) + const, integer coefficients."""
    __slots__ = ("co", "k")

    def __init__(self, co=None, k=0):
        self.co = {v: c for v, c in (co or {}).items() if c != 0}
        self.k = k

    @staticmethod
    def var(v):
        return Lin({v: 1}, 0)

    @staticmethod
    def const(k):
        return Lin({}, int(k))

    def __add__(self, o):
        if not isinstance(o, Lin):
            o = Lin.const(o)
        co = dict(self.co)
        for v, c in o.co.items():
            co[v] = co.get(v, 0) + c
        return Lin(co, self.k + o.k)

    def __neg__(self):
        return Lin({v: -c for v, c in self.co.items()}, -self.k)

    def __sub__(self, o):
        if not isinstance(o, Lin):
            o = Lin.const(o)
        return self + (-o)

    def scale(self, m):
        return Lin({v: c * m for v, c in self.co.items()}, self.k * m)

    def is_const(self):
        return not self.co

    def single(self):
        """(var, coef) if the expression is coef*var with no constant."""
        if self.k == 0 and len(self.co) == 1:
            (v, c), = self.co.items()
            return v, c
        return None

    def eval(self, env):
        return sum(c * env[v] for v, c in self.co.items()) + self.k

    def __repr__(self):
        parts = []
        for v, c in sorted(self.co.items()):
            parts.append(("%s" % v) if c == 1 else ("-%s" % v) if c == -1 else "%d*%s" % (c, v))
        if self.k or not parts:
            parts.append(str(self.k))
        return " + ".join(parts).replace("+ -", "- ")

    def key(self):
        return (tuple(sorted(self.co.items())), self.k)


def ge0(e):
    """constraint e >= 0 (normalised, integer-tightened)."""
    g = 0
    for c in e.co.values():
        g = gcd(g, abs(c))
    if g > 1:
        return Lin({v: c // g for v, c in e.co.items()}, e.k // g)   # floor
    return e


def GE(a, b): return ge0(a - b)            # a >= b
def LE(a, b): return ge0(b - a)            # a <= b
def GT(a, b): return ge0(a - b - 1)        # a > b   (integers)
def LT(a, b): return ge0(b - a - 1)        # a < b


def negate(c):
    """not (c >= 0)  ==  -c - 1 >= 0"""
    return ge0(-c - 1)


def infeasible(cons, max_cons=4000):
    """True if the conjunction (each c >= 0) is refuted.  The constraints are split into the connected
    components of their variable-sharing graph; the conjunction is infeasible iff one component is
    (exact), and each component is decided by Fourier-Motzkin elimination."""
    cur = {}
    for c in cons:
        cur[c.key()] = c
    cur = list(cur.values())
    parent = {}
    def find(x):
        while parent.setdefault(x, x) != x:
            parent[x] = parent[parent[x]]
            x = parent[x]
        return x
    for c in cur:
        vs = list(c.co)
        for v in vs[1:]:
            parent[find(v)] = find(vs[0])
    comps = {}
    for c in cur:
        if not c.co:
            if c.k < 0:
                return True
            continue
        comps.setdefault(find(next(iter(c.co))), []).append(c)
    return any(_fm(cc, max_cons) for cc in sorted(comps.values(), key=len))


def _fm(cur, max_cons):
    """Fourier-Motzkin on one component: True if it has no rational solution after integer
    tightening (hence no integer solution).  False means 'not refuted'."""
    while True:
        for c in cur:
            if c.is_const() and c.k < 0:
                return True
        vs = set()
        for c in cur:
            vs.update(c.co)
        if not vs:
            return False
        # choose the variable minimising the product of pos/neg occurrences
        best = None
        for v in vs:
            p = sum(1 for c in cur if c.co.get(v, 0) > 0)
            n = sum(1 for c in cur if c.co.get(v, 0) < 0)
            cost = p * n - p - n
            if best is None or cost < best[0]:
                best = (cost, v)
        v = best[1]
        pos = [c for c in cur if c.co.get(v, 0) > 0]
        neg = [c for c in cur if c.co.get(v, 0) < 0]
        rest = [c for c in cur if c.co.get(v, 0) == 0]
        new = {}
        for c in rest:
            new[c.key()] = c
        for p in pos:
            for n in neg:
                a, b = p.co[v], -n.co[v]
                e = ge0(p.scale(b) + n.scale(a))
                if e.is_const():
                    if e.k < 0:
                        return True
                    continue
                new[e.key()] = e
        cur = list(new.values())
        if len(cur) > max_cons:
            return False   # give up: not refuted


def entails(cons, c):
    return infeasible(list(cons) + [negate(c)])
