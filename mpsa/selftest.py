"""Checker self-test (thorough tier): each mutant of mutants/<prop>.json breaks
one rule instance in a scratch copy of the repository (outside /repo and
/verif, removed immediately); the rules are re-run on the copy and must report
that instance.  A mutant that is not detected, or whose text no longer applies,
makes the analysis broken (exit 2) - it says nothing about mp itself."""
import importlib, json, os, shutil, subprocess, tempfile
from . import units, evidence, facts
from .facts import AnalysisBroken


def scratch_copy():
    d = tempfile.mkdtemp(prefix="mpsa_scratch_", dir=os.environ.get("TMPDIR", "/tmp"))
    subprocess.check_call(["rsync", "-a", "--exclude", "_build", "--exclude", ".git",
                           "/repo/", d + "/"])
    return d


def run_on(prop, repo, tier="quick"):
    mod = importlib.import_module("mpsa.rules." + prop)
    rep = evidence.Report(prop, tier, mod.LEVEL, mod.EXPLANATION, mod.ASSUMPTIONS, mod.TRUSTED)
    rep.repo = repo
    mod.run(rep, dict(repo=repo, tier=tier, replay=None))
    return rep


def load(prop):
    p = os.path.join(units.VERIF, "mutants", prop + ".json")
    if not os.path.exists(p):
        return []
    return json.load(open(p))


def run(prop, rep, only=None, verbose=False):
    muts = load(prop)
    if only:
        muts = [m for m in muts if m["name"] in only]
    applied = detected = 0
    results = []
    known = {k["key"] for k in evidence.load_known() if k.get("status") == "known"}
    for m in muts:
        d = scratch_copy()
        try:
            path = os.path.join(d, m["file"])
            src = open(path).read()
            if src.count(m["old"]) != 1:
                raise AnalysisBroken("self-test mutant %s/%s does not apply to %s "
                                     "(text occurs %d times): re-freeze the mutant"
                                     % (prop, m["name"], m["file"], src.count(m["old"])))
            open(path, "w").write(src.replace(m["old"], m["new"]))
            applied += 1
            try:
                r = run_on(prop, d)
                fails = [rl.full_key(i) for rl in r.rules for i in rl.instances
                         if not i["ok"] and rl.full_key(i) not in known]
                broken = None
            except AnalysisBroken as e:
                fails, broken = [], str(e)
            if m.get("silent"):
                # property-preserving edit: the check must stay quiet
                hit = []
                ok = not fails and broken is None
            else:
                hit = [k for k in fails if m["expect"] in k]
                ok = bool(hit) or bool(m.get("expect_broken") and broken is not None)
            detected += 1 if ok else 0
            results.append(dict(mutant=m["name"], detected=ok, reported=hit[:3] or fails[:3],
                                broken=broken))
            if verbose:
                print("  mutant %-34s %s %s" % (m["name"], ("SILENT-OK" if m.get("silent") else "DETECTED") if ok else "MISSED",
                                               (hit or fails or [broken])[:2]))
            if not ok:
                raise AnalysisBroken("self-test: mutant %s/%s (%s) %s; reported: %s %s"
                                     % (prop, m["name"], m.get("why", ""),
                                        "is property-preserving but raised an alarm" if m.get("silent")
                                        else "was not reported by the expected rule " + m.get("expect", ""),
                                        fails[:5], broken or ""))
        finally:
            shutil.rmtree(d, ignore_errors=True)
    if rep is not None:
        rep.extra["mutants_applied"] = applied
        rep.extra["mutants_detected"] = detected
        rep.extra["mutant_results"] = results
    return applied, detected
