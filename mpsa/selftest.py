"""Checker self-test (thorough tier): each mutant of mutants/<prop>.json breaks
one rule instance in a scratch copy of the repository (outside /repo and
/verif, removed immediately); the rules are re-run on the copy and must report
that instance.  A mutant that is not detected, or whose text no longer applies,
makes the analysis broken (exit 2) - it says nothing about mp itself."""
import importlib, json, os, shutil, subprocess, tempfile
from . import units, evidence, facts
from .facts import AnalysisBroken


def scratch_copy():
    d = tempfile.mkdtemp(prefix="mpsa_scratch_", dir=os.environ.get("TMPDIR", "/tmp"))
    subprocess.check_call(["rsync", "-a", "--exclude", "_build", "--exclude", ".git",
                           "/repo/", d + "/"])
    return d


def run_on(prop, repo, tier="quick"):
    mod = importlib.import_module("mpsa.rules." + prop)
    rep = evidence.Report(prop, tier, mod.LEVEL, mod.EXPLANATION, mod.ASSUMPTIONS, mod.TRUSTED)
    rep.repo = repo
    mod.run(rep, dict(repo=repo, tier=tier, replay=None))
    return rep


def load(prop):
    p = os.path.join(units.VERIF, "mutants", prop + ".json")
    if not os.path.exists(p):
        return []
    return json.load(open(p))


def _one(args):
    """one mutant in a child process: returns (name, ok, hit, fails, broken, silent, why, expect) or raises through the tuple"""
    prop, m, known = args
    d = scratch_copy()
    try:
        if m.get("patch"):
            # a whole diff kept under /verif (behaviour-preserving refactorings written by independent agents)
            pf = os.path.join(units.VERIF, m["patch"])
            rc = subprocess.call(["patch", "-p1", "--quiet", "-d", d, "-i", pf], stdout=subprocess.DEVNULL, stderr=subprocess.DEVNULL)
            if rc != 0:
                return ("noapply", m["name"], 0)
        else:
            path = os.path.join(d, m["file"])
            src = open(path).read()
            if src.count(m["old"]) != 1:
                return ("noapply", m["name"], src.count(m["old"]))
            open(path, "w").write(src.replace(m["old"], m["new"]))
        try:
            r = run_on(prop, d)
            fails = [rl.full_key(i) for rl in r.rules for i in rl.instances
                     if not i["ok"] and rl.full_key(i) not in known]
            broken = None
        except AnalysisBroken as e:
            fails, broken = [], str(e)
        except Exception as e:                       # internal error of a rule on the mutated tree
            fails, broken = [], "internal error: %r" % (e,)
        if m.get("silent"):
            hit = []
            ok = not fails and broken is None
        else:
            hit = [k for k in fails if m["expect"] in k]
            ok = bool(hit) or bool(m.get("expect_broken") and broken is not None)
        return ("done", m["name"], ok, hit[:3], fails[:5], broken)
    finally:
        shutil.rmtree(d, ignore_errors=True)


def run(prop, rep, only=None, verbose=False):
    import multiprocessing as mp_
    muts = load(prop)
    if only:
        muts = [m for m in muts if m["name"] in only]
    applied = detected = 0
    results = []
    known = {k["key"] for k in evidence.load_known() if k.get("status") == "known"}
    workers = int(os.environ.get("MPSA_SELFTEST_JOBS", "6"))
    ctx = mp_.get_context("fork")
    with ctx.Pool(processes=max(1, min(workers, len(muts) or 1))) as pool:
        outs = pool.map(_one, [(prop, m, known) for m in muts], chunksize=1)
    first_err = None
    for m, o in zip(muts, outs):
        if o[0] == "noapply":
            raise AnalysisBroken("self-test mutant %s/%s does not apply to %s "
                                 "(text occurs %d times): re-freeze the mutant"
                                 % (prop, m["name"], m.get("file") or m.get("patch"), o[2]))
        _, name, ok, hit, fails, broken = o
        applied += 1
        detected += 1 if ok else 0
        results.append(dict(mutant=name, detected=ok, reported=hit or fails[:3], broken=broken))
        if verbose:
            print("  mutant %-34s %s %s" % (name, ("SILENT-OK" if m.get("silent") else "DETECTED") if ok else "MISSED",
                                           (hit or fails or [broken])[:2]))
        if not ok and first_err is None:
            first_err = ("self-test: mutant %s/%s (%s) %s; reported: %s %s"
                         % (prop, name, m.get("why", ""),
                            "is property-preserving but raised an alarm" if m.get("silent")
                            else "was not reported by the expected rule " + m.get("expect", ""),
                            fails[:5], broken or ""))
    if first_err:
        raise AnalysisBroken(first_err)
    if rep is not None:
        rep.extra["mutants_applied"] = applied
        rep.extra["mutants_detected"] = detected
        rep.extra["mutant_results"] = results
    return applied, detected
