"""Symbolic treatment of the GSL bindings (src/gsl/amplgsl.cc) for rule C16.S1.

Nothing here runs mp or GSL code.  A binding body is executed *symbolically* over its AST into
expression trees for the returned value V, the stored first derivatives D_i and the packed second
derivatives H_ij, as functions of the argument vector and of applications of GSL primitives
('prim' nodes).  The obligation D_i == dV/dx_i, H_ij == d2V/dx_i dx_j is an identity between
expressions; dV/dx_i is computed by symbolic differentiation with a table of derivative rules for
the primitives (mathematical facts, DLMF / Abramowitz-Stegun, written independently of the source),
and the identity is decided by evaluation in random *models* of the function field: elementary
functions take their real values, a primitive with an elementary closed form (spherical Bessel
functions, orthogonal polynomials of integer order, ...) is expanded to it, every other primitive is
a free transcendental - its value at a point is a random number, consistent only with the axioms of
its family (three-term recurrences, reflection formulas, defining relations such as erfc = 1 - erf).
An identity that holds in the field holds in every model; a wrong formula fails in almost every one
(polynomial identity testing).

Expression trees are nested tuples:
  ('c', v) ('a', i) ('neg', e) ('+', a, b) ('-', a, b) ('*', a, b) ('/', a, b) ('idiv', a, b)
  ('pow', a, b) ('fn', name, e) ('prim', name, args) ('ite', cond, a, b) ('nan',)
  ('cmp', op, a, b) ('and', a, b) ('or', a, b) ('not', a) ('unset',)
"""
import math, random
from .cfg import kids, strip, walk, cv, render, call_args


class Unsupported(Exception):
    pass


class DomainError(Exception):
    pass


ELEM1 = ("exp", "log", "sin", "cos", "tan", "asin", "acos", "atan", "sinh", "cosh", "tanh", "asinh",
         "acosh", "atanh", "sqrt", "fabs", "floor", "ceil")
GSL_ELEM = {"gsl_pow_2": 2, "gsl_pow_3": 3, "gsl_pow_4": 4, "gsl_pow_5": 5, "gsl_pow_6": 6, "gsl_pow_7": 7,
            "gsl_pow_8": 8, "gsl_pow_9": 9}
ASSUME_OK = ("check_args", "check_int_arg", "check_uint_arg", "check_bessel_args", "check_zero_func_args",
             "check_const_arg", "check_deriv_arg", "check_coupling_args", "check_ran_args")
ERRORS = ("error", "eval_error", "format_eval_error", "deriv_error", "format_error")


def C(v):
    return ("c", float(v))


def is_c(e, v=None):
    return e[0] == "c" and (v is None or e[1] == v)


def mk(op, a, b):
    """light simplification while building"""
    if op == "+":
        if is_c(a, 0): return b
        if is_c(b, 0): return a
    if op == "-":
        if is_c(b, 0): return a
        if is_c(a, 0): return ("neg", b)
    if op == "*":
        if is_c(a, 0) or is_c(b, 0): return C(0)
        if is_c(a, 1): return b
        if is_c(b, 1): return a
    if op == "/":
        if is_c(a, 0) and not is_c(b, 0): return C(0)
        if is_c(b, 1): return a
    if a[0] == "c" and b[0] == "c" and op in "+-*":
        return C({"+": a[1] + b[1], "-": a[1] - b[1], "*": a[1] * b[1]}[op])
    return (op, a, b)


def neg(a):
    if a[0] == "c": return C(-a[1])
    if a[0] == "neg": return a[1]
    return ("neg", a)


# ------------------------------------------------------------------------------------------
# symbolic execution of a binding body
# ------------------------------------------------------------------------------------------
class State:
    def __init__(self):
        self.store = {}      # declId or (declId, field) -> expr
        self.alias = {}      # declId -> 'derivs' | 'hes' | 'ra'
        self.out = {}        # ('d', i) / ('h', j) -> expr
        self.ret = None      # expr of the value passed to check_result, ('err',) for an error return
        self.deriv_error = None   # condition under which a derivative error is raised (expr) or None
        self.done = False

    def copy(self):
        s = State()
        s.store, s.alias, s.out = dict(self.store), dict(self.alias), dict(self.out)
        s.ret, s.deriv_error, s.done = self.ret, self.deriv_error, self.done
        return s


def ite(c, a, b):
    if a == b:
        return a
    if c[0] == "c":
        return a if c[1] else b
    return ("ite", c, a, b)


def merge(c, s1, s2):
    m = State()
    for k in set(s1.store) | set(s2.store):
        m.store[k] = ite(c, s1.store.get(k, ("unset",)), s2.store.get(k, ("unset",)))
    for k in set(s1.alias) | set(s2.alias):
        m.alias[k] = s1.alias.get(k, s2.alias.get(k))
    for k in set(s1.out) | set(s2.out):
        m.out[k] = ite(c, s1.out.get(k, ("unset",)), s2.out.get(k, ("unset",)))
    m.ret = ite(c, s1.ret or ("unset",), s2.ret or ("unset",))
    de1, de2 = s1.deriv_error or C(0), s2.deriv_error or C(0)
    d = ite(c, de1, de2)
    m.deriv_error = None if is_c(d, 0) else d
    m.done = s1.done and s2.done
    return m


class SymExec:
    """executes one binding; F.by_id gives access to pure helpers for inlining"""

    def __init__(self, F, f, depth=0, bind=None):
        self.F, self.f, self.depth = F, f, depth
        self.al = f.params[0]["declId"] if f.params and "arglist" in (f.params[0].get("t") or "") else None
        self.bind = bind or {}
        self.discrete = set()       # argument indexes converted to an integer type
        self.const_args = set()     # argument indexes the binding requires to be constant (no derivative)

    # -- expressions ---------------------------------------------------------------------
    def al_member(self, n):
        n = strip(n)
        if n is not None and n["k"] == "MemberExpr" and n.get("arrow") and n.get("qn", "").startswith("arglist::"):
            b = strip(kids(n)[0])
            if b is not None and b["k"] == "DeclRefExpr" and b.get("declId") == self.al:
                return n.get("name")
        return None

    def ptr_kind(self, n, st):
        """'derivs'/'hes'/'ra' if n denotes that array"""
        n = strip(n)
        m = self.al_member(n)
        if m in ("derivs", "hes", "ra", "dig"):
            return m
        if n is not None and n["k"] == "DeclRefExpr" and n.get("declId") in st.alias:
            return st.alias[n["declId"]]
        return None

    def lvalue(self, n, st):
        """('out', key) / ('var', key) for an assignable expression"""
        n = strip(n)
        k = n["k"]
        if k == "UnaryOperator" and n.get("op") == "*":
            p = self.ptr_kind(kids(n)[0], st)
            if p in ("derivs", "hes"):
                return ("out", ("d" if p == "derivs" else "h", 0))
        if k == "ArraySubscriptExpr":
            p = self.ptr_kind(kids(n)[0], st)
            ix = cv(kids(n)[1])
            if p in ("derivs", "hes") and ix is not None:
                return ("out", ("d" if p == "derivs" else "h", ix))
        if k == "DeclRefExpr" and n.get("dk") in ("Var", "Parm"):
            return ("var", n["declId"])
        if k == "MemberExpr" and not n.get("arrow"):
            b = strip(kids(n)[0])
            if b["k"] == "DeclRefExpr":
                return ("var", (b["declId"], n.get("name")))
        raise Unsupported("assignment target %s" % render(n)[:40])

    def read(self, lv, st):
        kind, key = lv
        v = st.out.get(key) if kind == "out" else st.store.get(key)
        if v is None:
            raise Unsupported("read of unset %s" % (key,))
        return v

    def write(self, lv, v, st):
        kind, key = lv
        if kind == "out":
            st.out[key] = v
        else:
            st.store[key] = v

    def expr(self, n, st):
        n0 = n
        n = strip(n)
        k = n["k"]
        if k in ("FloatingLiteral", "IntegerLiteral"):
            return C(float(n["v"]))
        if k == "DeclRefExpr":
            if n.get("dk") == "EnumConst" and "cv" in n:
                return C(float(n["cv"]))
            d = n.get("declId")
            if d in self.bind:
                return self.bind[d]
            if d in st.store:
                v = st.store[d]
                return v
            if n.get("dk") == "Var" and "::" not in (n.get("qn") or "::"):
                return ("glob", n.get("qn"))          # a file-scope object (rng, name tables): opaque
            raise Unsupported("variable %s" % n.get("name"))
        if k == "MemberExpr" and not n.get("arrow"):
            b = strip(kids(n)[0])
            if b["k"] == "DeclRefExpr" and (b["declId"], n.get("name")) in st.store:
                return st.store[(b["declId"], n.get("name"))]
            raise Unsupported("member %s" % render(n)[:30])
        if k == "ArraySubscriptExpr":
            b = strip(kids(n)[0])
            if b is not None and b["k"] == "DeclRefExpr" and b.get("dk") == "Var" and b.get("qn") in self.F.vars:
                v = self.F.vars[b["qn"]]
                ini = strip(v["init"][0]) if v.get("init") else None
                ix = self.expr(kids(n)[1], st)
                if ini is not None and ini["k"] == "InitListExpr" and ix[0] == "c":
                    el = kids(ini)
                    if 0 <= int(ix[1]) < len(el):
                        return self.expr(el[int(ix[1])], State())
                raise Unsupported("table %s" % b.get("name"))
            if b is not None and b["k"] == "MemberExpr" and b.get("name") == "dat":
                z = self.expr(kids(b)[0], st)
                ix = cv(kids(n)[1])
                if z[0] == "cplx" and ix in (0, 1):
                    return z[1 + ix]
                raise Unsupported("complex component")
        if k == "ArraySubscriptExpr" or (k == "UnaryOperator" and n.get("op") == "*"):
            p = self.ptr_kind(kids(n)[0], st)
            ix = 0 if k == "UnaryOperator" else cv(kids(n)[1])
            if p == "ra" and ix is not None:
                return ("a", ix)
            if p == "dig" and ix is not None:
                return C(1 if ix in self.const_args else 0)
            if p in ("derivs", "hes") and ix is not None:
                return self.read(("out", ("d" if p == "derivs" else "h", ix)), st)
            raise Unsupported("subscript %s" % render(n)[:40])
        if k in ("CStyleCastExpr", "CXXStaticCastExpr", "CXXFunctionalCastExpr", "ImplicitCastExpr"):
            inner = self.expr(kids(n)[0], st)
            if n.get("ck") == "FloatingToIntegral" or (n.get("castT") in ("int", "unsigned int", "unsigned") and
                                                      (strip(kids(n)[0]).get("ct") == "double")):
                for x in walk(inner) if False else [inner]:
                    if x[0] == "a":
                        self.discrete.add(x[1])
                if inner[0] != "a":
                    return ("fn", "trunc", inner)
            return inner
        if k == "UnaryOperator":
            op = n.get("op")
            if op == "-":
                return neg(self.expr(kids(n)[0], st))
            if op == "+":
                return self.expr(kids(n)[0], st)
            if op == "!":
                return self.cond(n, st)
            raise Unsupported("unary %s" % op)
        if k == "ConditionalOperator":
            c, a, b = kids(n)
            return ite(self.cond(c, st), self.expr(a, st), self.expr(b, st))
        if k == "BinaryOperator":
            op = n.get("op")
            if op == "=":
                v = self.expr(kids(n)[1], st)
                self.write(self.lvalue(kids(n)[0], st), v, st)
                return v
            if op in ("+", "-", "*"):
                return mk(op, self.expr(kids(n)[0], st), self.expr(kids(n)[1], st))
            if op == "/":
                a, b = self.expr(kids(n)[0], st), self.expr(kids(n)[1], st)
                if n.get("ct") in ("int", "unsigned int", "long", "unsigned long"):
                    return ("idiv", a, b)
                return mk("/", a, b)
            if op in ("<", "<=", ">", ">=", "==", "!=", "&&", "||"):
                return self.cond(n, st)
            if op == ",":
                self.expr(kids(n)[0], st)
                return self.expr(kids(n)[1], st)
            if op == "%":
                return ("imod", self.expr(kids(n)[0], st), self.expr(kids(n)[1], st))
            raise Unsupported("binary %s" % op)
        if k == "CompoundAssignOperator":
            op = n.get("op", "")[:1]
            lv = self.lvalue(kids(n)[0], st)
            if op == "/" and n.get("ct") in ("int", "unsigned int"):
                raise Unsupported("integer /=")
            v = mk(op, self.read(lv, st), self.expr(kids(n)[1], st))
            self.write(lv, v, st)
            return v
        if k == "CallExpr":
            return self.call(n, st)
        if "cv" in n:
            try:
                return C(float(n["cv"]))
            except ValueError:
                pass
        raise Unsupported("expression %s" % k)

    def call(self, n, st):
        nm = (n.get("callee") or "").replace("std::", "")
        args = call_args(n)
        if not nm:
            fp = strip(kids(n)[0])
            if fp is not None and fp["k"] == "DeclRefExpr" and isinstance(self.bind.get(fp.get("declId")), tuple) \
                    and self.bind[fp["declId"]][0] == "funcref":
                nm = self.bind[fp["declId"]][1]
        if nm == "fmod" and len(args) == 2:
            return ("fmod", self.expr(args[0], st), self.expr(args[1], st))
        if nm == "gsl_complex_rect":
            return ("cplx", self.expr(args[0], st), self.expr(args[1], st))
        if nm == "gsl_complex_log":
            z = self.expr(args[0], st)
            if z[0] == "cplx" and is_c(z[2], 0):
                return ("cplx", ("fn", "log", ("fn", "fabs", z[1])), ("unset",))
            raise Unsupported("complex logarithm")
        if nm in ELEM1 and len(args) == 1:
            return ("fn", nm, self.expr(args[0], st))
        if nm == "abs" and len(args) == 1:
            return ("fn", "fabs", self.expr(args[0], st))
        if nm == "pow" and len(args) == 2:
            return ("pow", self.expr(args[0], st), self.expr(args[1], st))
        if nm in GSL_ELEM:
            return ("pow", self.expr(args[0], st), C(GSL_ELEM[nm]))
        if nm == "gsl_pow_int" or nm == "gsl_sf_pow_int":
            return ("pow", self.expr(args[0], st), self.expr(args[1], st))
        if nm in ("gsl_isnan", "isnan", "__builtin_isnan", "gsl_finite", "gsl_isinf"):
            raise Unsupported("call %s" % nm)
        if nm in ("__builtin_nan", "__builtin_nanf", "gsl_nan", "nan"):
            return ("nan",)
        if nm in ("__builtin_inf", "__builtin_inff", "__builtin_huge_val", "gsl_posinf"):
            return C(float("inf"))
        if nm == "gsl_neginf":
            return C(float("-inf"))
        if nm in ASSUME_OK:
            if nm in ("check_int_arg", "check_uint_arg", "check_zero_func_args"):
                ix = cv(args[1])
                if ix is not None:
                    self.discrete.add(ix)
            if nm == "check_bessel_args":
                self.discrete.add(0)
            if nm == "check_const_arg":
                ix = cv(args[1])
                if ix is not None:
                    self.const_args.add(ix)
            return C(1)
        if nm in ERRORS:
            raise Unsupported("error call in expression")
        if nm.startswith("gsl_"):
            # result-struct variants: f_e(args..., &result)
            last = strip(args[-1]) if args else None
            if nm.endswith("_e") and last is not None and last["k"] == "UnaryOperator" and last.get("op") == "&":
                tgt = strip(kids(last)[0])
                a = tuple(self.expr(x, st) for x in args[:-1])
                st.store[(tgt["declId"], "val")] = ("prim", nm[:-2], a)
                st.store[(tgt["declId"], "err")] = ("unset",)
                return C(0)                     # status: success assumed (failure paths raise an error)
            return ("prim", nm, tuple(self.expr(x, st) for x in args))
        callee = self.F.by_id.get(n.get("calleeId"))
        if callee is not None and self.depth < 3 and callee.roots:
            bind = {}
            for p, a in zip(callee.params, args):
                a_ = strip(a)
                if "arglist" in (p.get("t") or ""):
                    continue
                if a_ is not None and a_["k"] == "DeclRefExpr" and a_.get("dk") == "Function":
                    bind[p["declId"]] = ("funcref", a_.get("name"))
                else:
                    bind[p["declId"]] = self.expr(a, st)
            sub = SymExec(self.F, callee, self.depth + 1, bind)
            if sub.al is not None:
                # the helper does the whole job on the same argument list: its outputs are ours
                s2 = sub.run_body()
                st.out.update(s2.out)
                st.deriv_error = s2.deriv_error or st.deriv_error
                self.discrete |= sub.discrete
                self.const_args |= sub.const_args
                return ("helperret", s2.ret)
            s2 = sub.run_body()
            if s2.ret is None:
                raise Unsupported("helper %s has no value" % nm)
            return s2.ret
        raise Unsupported("call %s" % nm)

    def cond(self, n, st):
        """condition -> expr; conditions on the request mode / argument checks are assumed favourable"""
        n = strip(n)
        k = n["k"]
        m = self.al_member(n)
        if m in ("derivs", "hes"):
            return C(1)
        if m == "dig":
            return C(1)           # mode: the dig array is present; dig[i] is set only for arguments required constant
        if k == "UnaryOperator" and n.get("op") == "!":
            c = self.cond(kids(n)[0], st)
            return C(0 if c[1] else 1) if c[0] == "c" else ("not", c)
        if k == "BinaryOperator" and n.get("op") in ("&&", "||"):
            a, b = self.cond(kids(n)[0], st), self.cond(kids(n)[1], st)
            if n["op"] == "&&":
                if a[0] == "c": return b if a[1] else C(0)
                if b[0] == "c": return a if b[1] else C(0)
                return ("and", a, b)
            if a[0] == "c": return C(1) if a[1] else b
            if b[0] == "c": return C(1) if b[1] else a
            return ("or", a, b)
        if k == "BinaryOperator" and n.get("op") in ("<", "<=", ">", ">=", "==", "!="):
            a, b = self.expr(kids(n)[0], st), self.expr(kids(n)[1], st)
            if a[0] == "c" and b[0] == "c":
                return C(1 if _cmp(n["op"], a[1], b[1]) else 0)
            return ("cmp", n["op"], a, b)
        e = self.expr(n, st)
        if e[0] == "c":
            return C(1 if e[1] else 0)
        if e[0] in ("cmp", "and", "or", "not"):
            return e
        return ("cmp", "!=", e, C(0))

    # -- statements -----------------------------------------------------------------------
    def run_body(self):
        st = State()
        body = [r for r in self.f.roots if r is not None and r["k"] == "CompoundStmt"]
        if not body:
            raise Unsupported("no body")
        return self.block(list(kids(body[-1])), st)

    def block(self, stmts, st):
        """executes stmts in order; an argument-dependent branch forks with the rest as continuation"""
        stmts = list(stmts)
        while stmts and not st.done:
            s = stmts.pop(0)
            if s is None:
                continue
            k = s["k"]
            if k == "CompoundStmt":
                stmts = list(kids(s)) + stmts
                continue
            if k == "NullStmt":
                continue
            if k == "DeclStmt":
                for v in kids(s):
                    if v["k"] != "VarDecl":
                        continue
                    ini = kids(v)
                    if not ini:
                        continue
                    p = self.ptr_kind(ini[0], st)
                    if p:
                        st.alias[v["declId"]] = p
                        continue
                    i0 = strip(ini[0])
                    if i0["k"] == "InitListExpr":
                        if "gsl_sf_result" in (v.get("ct") or ""):
                            st.store[(v["declId"], "val")] = C(0)
                        continue
                    st.store[v["declId"]] = self.expr(ini[0], st)
                continue
            if k == "ReturnStmt":
                e = strip(kids(s)[0]) if kids(s) else None
                if e is not None and e["k"] == "CallExpr" and e.get("callee") == "check_result":
                    st.ret = self.expr(call_args(e)[1], st)
                elif e is not None and e["k"] == "CallExpr" and self.F.by_id.get(e.get("calleeId")) is not None \
                        and e.get("callee") not in ASSUME_OK and e.get("callee") not in ERRORS and self.al is not None:
                    v = self.expr(e, st)
                    st.ret = v[1] if v[0] == "helperret" else ("err",)
                elif self.al is None and e is not None:
                    st.ret = self.expr(e, st)
                else:
                    st.ret = ("err",)
                st.done = True
                break
            if k == "IfStmt":
                ch = [x for x in s["c"] if x is not None]
                c = self.cond(ch[0], st)
                th, el = ch[1], (ch[2] if len(ch) > 2 else None)
                if c[0] == "c":
                    stmts = ([th] if c[1] else ([el] if el is not None else [])) + stmts
                    continue
                s1 = self.block([th] + stmts, st.copy())
                s2 = self.block(([el] if el is not None else []) + stmts, st.copy())
                return merge(c, s1, s2)
            if k == "CallExpr" and s.get("callee") in ERRORS:
                if s.get("callee") == "deriv_error":
                    st.deriv_error = C(1)
                else:
                    st.ret = ("err",)
                continue
            if k in ("ForStmt", "WhileStmt"):
                # a loop that only validates arguments (WRAP_DISCRETE): it stores nothing but its own counter
                assigned = set()
                for x in walk(s):
                    if x["k"] in ("BinaryOperator", "CompoundAssignOperator") and (x.get("op") == "=" or x["k"] == "CompoundAssignOperator"):
                        t = strip(kids(x)[0])
                        assigned.add(t.get("declId") if t["k"] == "DeclRefExpr" else None)
                    if x["k"] == "UnaryOperator" and x.get("op") in ("++", "--"):
                        t = strip(kids(x)[0])
                        assigned.add(t.get("declId") if t["k"] == "DeclRefExpr" else None)
                    if x["k"] == "CallExpr" and x.get("callee") not in ASSUME_OK and x.get("callee") not in ERRORS:
                        assigned.add(None)
                if None in assigned:
                    raise Unsupported("statement %s" % k)
                for d in assigned:
                    st.store[d] = ("unset",)
                continue
            if k in ("DoStmt", "SwitchStmt"):
                raise Unsupported("statement %s" % k)
            # expression statement
            self.expr(s, st)
        return st


def _cmp(op, a, b):
    return {"<": a < b, "<=": a <= b, ">": a > b, ">=": a >= b, "==": a == b, "!=": a != b}[op]


# ------------------------------------------------------------------------------------------
# substitution / partial evaluation
# ------------------------------------------------------------------------------------------
def subst_args(e, vals):
    """replace ('a', i) by constants for i in vals; folds comparisons and ites that become constant"""
    op = e[0]
    if op == "a":
        return C(vals[e[1]]) if e[1] in vals else e
    if op in ("c", "nan", "unset", "err", "glob"):
        return e
    if op == "prim":
        return ("prim", e[1], tuple(subst_args(x, vals) for x in e[2]))
    if op == "fn":
        a = subst_args(e[2], vals)
        if a[0] == "c" and e[1] == "trunc":
            return C(math.trunc(a[1]))
        return ("fn", e[1], a)
    if op == "ite":
        c = subst_args(e[1], vals)
        if c[0] == "c":
            return subst_args(e[2] if c[1] else e[3], vals)
        return ("ite", c, subst_args(e[2], vals), subst_args(e[3], vals))
    if op == "cmp":
        a, b = subst_args(e[2], vals), subst_args(e[3], vals)
        if a[0] == "c" and b[0] == "c":
            return C(1 if _cmp(e[1], a[1], b[1]) else 0)
        return ("cmp", e[1], a, b)
    if op == "not":
        a = subst_args(e[1], vals)
        return C(0 if a[1] else 1) if a[0] == "c" else ("not", a)
    if op in ("and", "or"):
        a, b = subst_args(e[1], vals), subst_args(e[2], vals)
        if op == "and":
            if a[0] == "c": return b if a[1] else C(0)
            if b[0] == "c": return a if b[1] else C(0)
        else:
            if a[0] == "c": return C(1) if a[1] else b
            if b[0] == "c": return C(1) if b[1] else a
        return (op, a, b)
    if op == "neg":
        return neg(subst_args(e[1], vals))
    if op in ("+", "-", "*", "/"):
        return mk(op, subst_args(e[1], vals), subst_args(e[2], vals))
    if op in ("idiv", "imod"):
        a, b = subst_args(e[1], vals), subst_args(e[2], vals)
        if a[0] == "c" and b[0] == "c" and b[1] != 0:
            q = math.trunc(a[1] / b[1])
            return C(q if op == "idiv" else a[1] - q * b[1])
        return (op, a, b)
    if op in ("pow", "fmod"):
        return (op, subst_args(e[1], vals), subst_args(e[2], vals))
    raise Unsupported("subst %s" % op)


def depends(e, i):
    if e[0] == "a":
        return e[1] == i
    if e[0] == "prim":
        return any(depends(x, i) for x in e[2])
    return any(isinstance(c, tuple) and depends(c, i) for c in e[1:])


def prims_of(e, acc=None):
    acc = set() if acc is None else acc
    if e[0] == "prim":
        acc.add(e[1])
        for x in e[2]:
            prims_of(x, acc)
    else:
        for c in e[1:]:
            if isinstance(c, tuple):
                prims_of(c, acc)
    return acc


def int_consts_compared(e, i, acc=None):
    """integer constants argument i is compared with (sample points for a discrete argument)"""
    acc = set() if acc is None else acc
    if e[0] == "cmp":
        for a, b in ((e[2], e[3]), (e[3], e[2])):
            if a == ("a", i) and b[0] == "c":
                acc.add(b[1])
    if e[0] == "prim":
        for x in e[2]:
            int_consts_compared(x, i, acc)
    else:
        for c in e[1:]:
            if isinstance(c, tuple):
                int_consts_compared(c, i, acc)
    return acc


# ------------------------------------------------------------------------------------------
# differentiation
# ------------------------------------------------------------------------------------------
def diff(e, i, T):
    """d e / d arg_i as an expression; T is the primitive table"""
    op = e[0]
    if op == "a":
        return C(1 if e[1] == i else 0)
    if op in ("c",):
        return C(0)
    if not depends(e, i):
        return C(0)
    if op == "neg":
        return neg(diff(e[1], i, T))
    if op in ("+", "-"):
        return mk(op, diff(e[1], i, T), diff(e[2], i, T))
    if op == "*":
        return mk("+", mk("*", diff(e[1], i, T), e[2]), mk("*", e[1], diff(e[2], i, T)))
    if op == "/":
        return mk("/", mk("-", mk("*", diff(e[1], i, T), e[2]), mk("*", e[1], diff(e[2], i, T))), mk("*", e[2], e[2]))
    if op == "pow":
        a, b = e[1], e[2]
        if not depends(b, i):
            return mk("*", mk("*", b, ("pow", a, mk("-", b, C(1)))), diff(a, i, T))
        if not depends(a, i):
            return mk("*", mk("*", e, ("fn", "log", a)), diff(b, i, T))
        return mk("*", e, mk("+", mk("*", diff(b, i, T), ("fn", "log", a)), mk("/", mk("*", b, diff(a, i, T)), a)))
    if op == "fn":
        a = e[2]
        n = e[1]
        one = C(1)
        d = {"exp": lambda: e, "log": lambda: mk("/", one, a), "sin": lambda: ("fn", "cos", a),
             "cos": lambda: neg(("fn", "sin", a)),
             "tan": lambda: mk("/", one, mk("*", ("fn", "cos", a), ("fn", "cos", a))),
             "asin": lambda: ("pow", mk("-", one, mk("*", a, a)), C(-0.5)),
             "acos": lambda: neg(("pow", mk("-", one, mk("*", a, a)), C(-0.5))),
             "atan": lambda: mk("/", one, mk("+", one, mk("*", a, a))),
             "sinh": lambda: ("fn", "cosh", a), "cosh": lambda: ("fn", "sinh", a),
             "tanh": lambda: mk("/", one, mk("*", ("fn", "cosh", a), ("fn", "cosh", a))),
             "asinh": lambda: ("pow", mk("+", one, mk("*", a, a)), C(-0.5)),
             "acosh": lambda: ("pow", mk("-", mk("*", a, a), one), C(-0.5)),
             "atanh": lambda: mk("/", one, mk("-", one, mk("*", a, a))),
             "sqrt": lambda: mk("/", C(0.5), e),
             "fabs": lambda: mk("/", a, e)}.get(n)
        if d is None:
            raise Unsupported("derivative of %s" % n)
        return mk("*", d(), diff(a, i, T))
    if op == "ite":
        return ("ite", e[1], diff(e[2], i, T), diff(e[3], i, T))
    if op == "prim":
        h = T.get(e[1])
        if h is None or h.get("d") is None:
            raise Unsupported("no derivative rule for %s" % e[1])
        parts = h["d"](e[2])
        tot = C(0)
        for j, a in enumerate(e[2]):
            if not depends(a, i):
                continue
            pj = parts[j] if j < len(parts) else None
            if pj is None:
                raise Unsupported("%s is not differentiable in argument %d here" % (e[1], j))
            tot = mk("+", tot, mk("*", pj, diff(a, i, T)))
        return tot
    if op == "nan":
        return e
    raise Unsupported("derivative of node %s" % op)


# ------------------------------------------------------------------------------------------
# evaluation in a model
# ------------------------------------------------------------------------------------------
class Model:
    """one random model of the function field: free values of transcendentals, memoised per point"""

    def __init__(self, seed):
        self.rnd = random.Random(seed)
        self.memo = {}

    def free(self, key, lo=0.3, hi=1.7):
        k = tuple(round(x, 12) if isinstance(x, float) else x for x in key)
        if k not in self.memo:
            self.memo[k] = self.rnd.uniform(lo, hi)
        return self.memo[k]


def ev(e, A, M, T):
    op = e[0]
    if op == "c":
        return e[1]
    if op == "a":
        return A[e[1]]
    if op == "neg":
        return -ev(e[1], A, M, T)
    if op == "+":
        return ev(e[1], A, M, T) + ev(e[2], A, M, T)
    if op == "-":
        return ev(e[1], A, M, T) - ev(e[2], A, M, T)
    if op == "*":
        return ev(e[1], A, M, T) * ev(e[2], A, M, T)
    if op == "/":
        b = ev(e[2], A, M, T)
        a = ev(e[1], A, M, T)
        if b == 0:
            if a != a or a == 0:
                return float("nan")
            return math.copysign(float("inf"), a) * math.copysign(1.0, b)
        return a / b
    if op in ("idiv", "imod"):
        a, b = ev(e[1], A, M, T), ev(e[2], A, M, T)
        if b == 0:
            raise DomainError("integer division by zero")
        q = math.trunc(a / b)
        return float(q) if op == "idiv" else a - q * b
    if op == "pow":
        a, b = ev(e[1], A, M, T), ev(e[2], A, M, T)
        try:
            r = math.pow(a, b)
        except (ValueError, OverflowError, ZeroDivisionError):
            raise DomainError("pow(%r, %r)" % (a, b))
        return r
    if op == "fmod":
        a, b = ev(e[1], A, M, T), ev(e[2], A, M, T)
        if b == 0:
            raise DomainError("fmod by zero")
        return math.fmod(a, b)
    if op == "fn":
        a = ev(e[2], A, M, T)
        if e[1] == "trunc":
            return float(math.trunc(a))
        try:
            return getattr(math, e[1])(a)
        except (ValueError, OverflowError):
            raise DomainError("%s(%r)" % (e[1], a))
    if op == "ite":
        return ev(e[2] if evc(e[1], A, M, T) else e[3], A, M, T)
    if op == "nan":
        return float("nan")
    if op == "prim":
        h = T.get(e[1])
        if h is None or h.get("ev") is None:
            raise Unsupported("no model for %s" % e[1])
        return h["ev"]([ev(x, A, M, T) for x in e[2]], M)
    if op in ("cmp", "and", "or", "not"):
        return 1.0 if evc(e, A, M, T) else 0.0
    if op in ("unset", "err"):
        raise Unsupported("value is %s on this path" % op)
    raise Unsupported("eval %s" % op)


def evc(c, A, M, T):
    op = c[0]
    if op == "c":
        return bool(c[1])
    if op == "cmp":
        return _cmp(c[1], ev(c[2], A, M, T), ev(c[3], A, M, T))
    if op == "and":
        return evc(c[1], A, M, T) and evc(c[2], A, M, T)
    if op == "or":
        return evc(c[1], A, M, T) or evc(c[2], A, M, T)
    if op == "not":
        return not evc(c[1], A, M, T)
    return ev(c, A, M, T) != 0


def hes_index(n, i, j):
    if i > j:
        i, j = j, i
    return i * n - i * (i - 1) // 2 + (j - i)


# ------------------------------------------------------------------------------------------
# the obligation  D_i == dV/dx_i,  H_ij == d2V/dx_i dx_j  for one binding
# ------------------------------------------------------------------------------------------
CONT_SAMPLES = (0.37, 1.3, 2.9, 0.62, 0.81, -0.45, -1.7, -2.6, 0.23, 4.1)


def finite(v):
    return v == v and abs(v) != float("inf")


def analyse_binding(F, f, nargs, T, canon, seed=20240320):
    """-> dict(outputs={key: dict(compared, mismatch=[...], skipped)}, discrete, why)"""
    sx = SymExec(F, f)
    st = sx.run_body()
    res = dict(outputs={}, discrete=sorted(sx.discrete), const=sorted(sx.const_args), stored=sorted(st.out))
    if not st.out or st.ret is None:
        return res
    used = set()
    for e in list(st.out.values()) + [st.ret]:
        _args_of(e, used)
    n = nargs if nargs and nargs > 0 else (max(used) + 1 if used else 0)
    res["nargs"] = n
    disc = [i for i in sorted(sx.discrete) if i < n]
    cont = [i for i in range(n) if i not in disc]
    # what each stored slot means
    slots = {}
    for key in st.out:
        if key[0] == "d":
            slots[key] = (key[1],)
        else:
            for i in range(n):
                for j in range(i, n):
                    if hes_index(n, i, j) == key[1]:
                        slots[key] = (i, j)
    # discrete sample points
    dvals = {}
    for i in disc:
        c = set()
        for e in list(st.out.values()) + [st.ret]:
            int_consts_compared(e, i, c)
        cand = {0, 1, 2, 3, 5} | {int(v) for v in c if abs(v) < 50} | {int(v) + 1 for v in c if abs(v) < 50} | \
               {int(v) - 1 for v in c if abs(v) < 50}
        dvals[i] = sorted(v for v in cand if -4 <= v <= 9)
    combos = [{}]
    for i in disc:
        combos = [dict(list(c.items()) + [(i, v)]) for c in combos for v in dvals[i]]
    rnd = random.Random(seed)
    if len(combos) > 40:
        combos = rnd.sample(combos, 40)
    vectors = []
    for t in range(14):
        vec = {}
        for i in cont:
            pool = CONT_SAMPLES[:5] if t < 5 else CONT_SAMPLES
            vec[i] = pool[(t * 3 + i * 5 + (t // 4)) % len(pool)] if t < 3 else rnd.choice(pool)
        vectors.append(vec)
    why = {}
    for dv in combos:
        try:
            V = canon(subst_args(st.ret, dv))
        except Unsupported as e:
            why["value: %s" % e] = why.get("value: %s" % e, 0) + 1
            continue
        if V[0] in ("err", "unset"):
            continue
        rules, codes = {}, {}
        for key, idx in slots.items():
            if any(i in disc or i in sx.const_args for i in idx):
                continue
            try:
                code = canon(subst_args(st.out[key], dv))
                r = diff(V, idx[0], T)
                if len(idx) == 2:
                    r = diff(r, idx[1], T)
                rules[key], codes[key] = r, code
            except Unsupported as e:
                why["%s%s: %s" % (key[0], key[1], e)] = why.get("%s%s: %s" % (key[0], key[1], e), 0) + 1
        # special points: a constant stored under a guard `x == c` must be the two-sided limit of the rule
        for key in rules:
            pts = set()
            special_points(codes[key], cont, pts)
            for (i, c) in sorted(pts):
                A = dict(vectors[0])
                A.update({k: float(v) for k, v in dv.items()})
                A[i] = c
                tag = (key, i, c, tuple(sorted(dv.items())))
                M = Model(seed)
                try:
                    cval = ev(codes[key], A, M, T)
                except (DomainError, OverflowError, ZeroDivisionError, Unsupported):
                    continue
                if cval != cval:
                    res.setdefault("special", {})[tag] = dict(status="error-reported")
                    continue
                if i not in slots[key]:
                    # the point is special in another argument: an ordinary comparison at that point
                    try:
                        rval = ev(rules[key], A, M, T)
                    except (DomainError, OverflowError, ZeroDivisionError, Unsupported):
                        continue
                    if finite(rval):
                        okv = finite(cval) and abs(cval - rval) <= 1e-7 * max(1.0, abs(rval), abs(cval))
                        res.setdefault("special", {})[tag] = dict(status="ok" if okv else "mismatch", stored=cval, limit=rval)
                    continue
                try:
                    from . import gslseries as GS
                    lims = [GS.limit(GS.sev(rules[key], i, c, sg, A)) for sg in (1, -1)]
                except Exception as e:
                    if e.__class__.__name__ != "SeriesFail":
                        raise
                    res.setdefault("special", {})[tag] = dict(status="uncovered", why=str(e))
                    continue
                if all(l[0] == "value" for l in lims) and abs(lims[0][1] - lims[1][1]) <= 1e-9 * max(1.0, abs(lims[0][1])):
                    okv = finite(cval) and abs(cval - lims[0][1]) <= 1e-9 * max(1.0, abs(lims[0][1]))
                    res.setdefault("special", {})[tag] = dict(status="ok" if okv else "mismatch", stored=cval, limit=lims[0][1])
                elif all(l[0] == "diverges" for l in lims) and not finite(cval):
                    res.setdefault("special", {})[tag] = dict(status="ok", stored=cval, limit="diverges")
                else:
                    res.setdefault("special", {})[tag] = dict(status="no-derivative", stored=cval,
                                                              limits=[l[1] if l[0] == "value" else "diverges" for l in lims])
        for vec in vectors:
            A = dict(vec)
            A.update({i: float(v) for i, v in dv.items()})
            for ms in (1, 2):
                for key in rules:
                    o = res["outputs"].setdefault(key, dict(compared=0, mismatch=[], skipped=0, slot=slots[key]))
                    M = Model(seed * 31 + ms)
                    try:
                        if st.deriv_error is not None and evc(subst_args(st.deriv_error, dv), A, M, T):
                            o["skipped"] += 1
                            continue
                        cval = ev(codes[key], A, M, T)
                        if cval != cval:
                            o["skipped"] += 1          # the binding reports an error here
                            continue
                        rval = ev(rules[key], A, M, T)
                        vval = ev(V, A, M, T)
                    except (DomainError, OverflowError, ZeroDivisionError):
                        o["skipped"] += 1
                        continue
                    except Unsupported as e:
                        why["%s%s: %s" % (key[0], key[1], e)] = why.get("%s%s: %s" % (key[0], key[1], e), 0) + 1
                        o["skipped"] += 1
                        continue
                    if not finite(rval) or not finite(vval):
                        o["skipped"] += 1
                        continue
                    o["compared"] += 1
                    tol = 1e-7 * max(1.0, abs(rval), abs(cval))
                    if not finite(cval) or abs(cval - rval) > tol:
                        if len(o["mismatch"]) < 4:
                            o["mismatch"].append(dict(args=[A.get(i) for i in range(n)], stored=cval, expected=rval))
                        else:
                            o["mismatch"].append(None)
    res["why"] = why
    return res


def _args_of(e, acc):
    if e[0] == "a":
        acc.add(e[1])
    elif e[0] == "prim":
        for x in e[2]:
            _args_of(x, acc)
    else:
        for c in e[1:]:
            if isinstance(c, tuple):
                _args_of(c, acc)


def special_points(e, cont, acc):
    """(argument index, constant) pairs the expression singles out by an equality guard"""
    if e[0] == "cmp" and e[1] in ("==", "!="):
        for a, b in ((e[2], e[3]), (e[3], e[2])):
            if a[0] == "a" and a[1] in cont and b[0] == "c":
                acc.add((a[1], b[1]))
            if a[0] == "fn" and a[1] == "fabs" and a[2][0] == "a" and a[2][1] in cont and b[0] == "c" and b[1] > 0:
                acc.add((a[2][1], b[1]))
                acc.add((a[2][1], -b[1]))
    if e[0] == "prim":
        for x in e[2]:
            special_points(x, cont, acc)
    else:
        for c in e[1:]:
            if isinstance(c, tuple):
                special_points(c, cont, acc)
