"""Alpha-renaming to the reference naming.

Many rule tables mention local variables and parameters by the names they have in the pinned source.  A consistent
renaming of locals/parameters changes no behaviour, so before the rules look at a function its locals and parameters
are renamed back to the names the *reference* (pinned) tree uses, whenever the function can be aligned with its
reference version: same qualified name and parameter types, and a sequence of local declarations whose types match
position by position (or along the longest common subsequence of (type, shape of initialiser) keys when locals were
added or removed).  Variables that cannot be aligned keep their names.  The reference table mpsa/refnames.json is
generated from the pinned tree by tool/gen_refnames.py and never written at check time."""
import difflib, json, os, re

_PATH = os.path.join(os.path.dirname(os.path.abspath(__file__)), "refnames.json")
_REF = None
ENABLED = os.environ.get("MPSA_REFNAMES", "1") == "1"


def _load():
    global _REF
    if _REF is None:
        try:
            _REF = json.load(open(_PATH))
        except (OSError, ValueError):
            _REF = {}
    return _REF


def _walk(n):
    st = [n]
    while st:
        x = st.pop()
        if x is None:
            continue
        yield x
        for c in reversed(x.get("c") or []):
            st.append(c)


def _shape(n, depth=0):
    """name-free shape of an initialiser: node kinds, operators, callee names and literals"""
    if n is None or depth > 6:
        return ""
    k = n["k"]
    if k in ("ImplicitCastExpr", "ParenExpr", "ExprWithCleanups", "MaterializeTemporaryExpr", "CXXBindTemporaryExpr"):
        cs = n.get("c") or []
        return _shape(cs[0], depth) if cs else ""
    lab = k[:3]
    if k in ("BinaryOperator", "UnaryOperator", "CompoundAssignOperator", "CXXOperatorCallExpr"):
        lab += n.get("op", "")
    if k in ("CallExpr", "CXXMemberCallExpr", "CXXConstructExpr"):
        lab += (n.get("callee") or "").split("::")[-1]
    if k == "MemberExpr":
        lab += n.get("name", "")
    if k in ("IntegerLiteral", "FloatingLiteral", "CharacterLiteral", "StringLiteral"):
        lab += str(n.get("v"))[:12]
    if k == "DeclRefExpr" and n.get("dk") not in ("Var", "Parm"):
        lab += n.get("name", "")
    return lab + "(" + ",".join(_shape(c, depth + 1) for c in (n.get("c") or []) if c is not None) + ")"


def locals_of(fd):
    """ordered (declId, name, key) of the parameters and local variable declarations of an exported function dict"""
    out = []
    for i, p in enumerate(fd.get("params", [])):
        if p.get("declId") and p.get("name"):
            out.append((p["declId"], p["name"], "P%d:%s" % (i, p.get("t") or "")))
    roots = list(fd.get("inits", [])) + [b for b in fd.get("body", []) if b]
    for r in roots:
        for n in _walk(r):
            if n["k"] == "VarDecl" and n.get("declId") and n.get("name"):
                ini = (n.get("c") or [None])[0]
                out.append((n["declId"], n["name"], "V:%s:%s" % (n.get("t") or n.get("ct") or "", _shape(ini)[:120])))
    return out


def fkey(fd):
    return "%s|%s" % (fd.get("qn"), ",".join((p.get("t") or "") for p in fd.get("params", [])))


def reference_entry(fd):
    return [[nm, key] for _, nm, key in locals_of(fd)]


def canonicalise(fd):
    """renames parameters / locals of the exported function dict `fd` in place to the reference names; returns the
    number of variables renamed"""
    if not ENABLED:
        return 0
    ref = _load().get(fkey(fd))
    if not ref:
        return 0
    cur = locals_of(fd)
    if not cur:
        return 0
    cands = ref if ref and isinstance(ref[0][0], list) else [ref]
    best = None
    ckeys = [k for _, _, k in cur]
    for cand in cands:
        rkeys = [k for _, k in cand]
        if rkeys == ckeys:
            best = [(i, i) for i in range(len(cur))]
            refl = cand
            break
        sm = difflib.SequenceMatcher(a=rkeys, b=ckeys, autojunk=False)
        pairs = [(a + t, b + t) for a, b, size in sm.get_matching_blocks() for t in range(size)]
        if best is None or len(pairs) > len(best):
            best, refl = pairs, cand
    if not best:
        return 0
    mapping = {}
    taken = {nm for _, nm, _ in cur}
    for ri, ci in best:
        d, nm, _ = cur[ci]
        want = refl[ri][0]
        if nm != want and not nm.startswith("__") and not want.startswith("__"):      # never the compiler's own variables (__range1, ...)
            mapping[d] = want
    # a reference name must not collide with a variable that keeps its own (unaligned) name
    # the renaming must stay injective: a reference name already carried by a variable that keeps its name, or wanted
    # by two variables, is not handed out
    keep = {nm for (d, nm, _) in cur if d not in mapping}
    wanted = {}
    for d, w in mapping.items():
        wanted.setdefault(w, []).append(d)
    mapping = {d: w for d, w in mapping.items() if w not in keep and len(wanted[w]) == 1}
    if not mapping:
        return 0
    for p in fd.get("params", []):
        if p.get("declId") in mapping:
            p["name"] = mapping[p["declId"]]
    roots = list(fd.get("inits", [])) + [b for b in fd.get("body", []) if b]
    for r in roots:
        for n in _walk(r):
            if n["k"] in ("VarDecl", "DeclRefExpr") and n.get("declId") in mapping:
                n["name"] = mapping[n["declId"]]
                if n.get("qn") and "::" in n["qn"]:
                    n["qn"] = n["qn"].rsplit("::", 1)[0] + "::" + mapping[n["declId"]]
    return len(mapping)
