"""C13 - piecewise-linear approximations within tolerance: narrow structural clauses.

The central claim (|f - pl| <= tolerance at every real point) is NOT decided: it quantifies over real
arguments and floating-point step control.  Decided, each a necessary condition of the statement:

T1 no precision loss on abscissae: nothing that flows into the breakpoint list / PL points / reported
   domain has a type narrower than double (no float variables, containers, casts or callees);
F1 breakpoints lie on the function: at every AddPoint(x, y) of the generator y is eval of the same x; the
   first point is lb_sub() and the sub-interval loop ends exactly at ub_sub() (snap + loop condition);
F2 integer shortcut: replacement points ceil(lb)+k, k in [0,N), N = floor(ub)-ceil(lb)+1, only when
   N <= number of PL points, x integer and the approximation not periodic;
G1 the step controller compares the error measure with exactly laPrm_.ubErr, and the measure is absolute
   for |f| <= 1 and relative otherwise;
   the candidate points of the measure pair f(xc) with the chord value at the same xc;
S1 formula siblings: eval_1st is the symbolic derivative of eval and eval_2nd of eval_1st, inverse undoes
   eval and inverse_1st undoes eval_1st; every return value of a multi-branch inverse is a preimage
   (identity testing of the closed-form expression trees read from the AST at fixed points; no
   repository code is compiled or executed);
S2 branch selection: for every default sub-interval i, the branch the body selects for
   GetSubIntvIndex() = i / lb_sub() in that sub-interval returns the preimage inside the sub-interval;
S3 the selectors fit the set-up: the index is used only by periodic specialisations (whose sub-intervals
   are the default ones), the sign of lb_sub() only when 0 is a default breakpoint;
S4 the default breakpoints separate the inflection points (f'' keeps its sign inside every default
   sub-interval), which the error measure assumes ("f' is monotone on the subinterval").
"""
import math
import re
from ..cfg import MiniInt, cond_atoms, norm_facts, xrender, expand_locals, Facts, kids, strip, walk, cv, render, call_args, call_object, canon_rel
from ..cfg import short_loc as _short_loc
from ..facts import export_many, AnalysisBroken

LEVEL = "other"
TECHNIQUE = ("static analysis: type-resolved narrowing scan over every node of the approximator, flow rules on "
             "the AddPoint sites and the sub-interval loop, guard rule on the integer shortcut, structural rule "
             "on the error comparison, symbolic differentiation and identity testing of the closed-form "
             "value/derivative/inverse formulas")
LEVEL_TEXT = ("Decided: the four structural clauses and the consistency of the formula families.  NOT decided and "
              "not claimed: that the generated piecewise-linear function stays within the tolerance at every real "
              "point (step control over floating point), periodic reduction, clipping.")
LEVEL_NOTE = "Trusted: clang 14 front end/CFG, tool/mpx.cc, the rule module incl. its differentiator and libm (Python math) for identity testing."
DESIGN_REF = "DESIGN.md section 4, C13"
EXPLANATION = "Unit: src/mp/flat/piecewise_linear.cpp (all 17 specialisations).  See the module docstring."
ASSUMPTIONS = ["identity testing at fixed sample points decides equality of the closed forms (they are analytic "
               "expressions; a false 'equal' needs the difference to vanish at all points)",
               "S4 samples the sign of f'' at multi-scale points; an inflection strictly between two neighbouring samples with a "
               "second one next to it would be missed",
               "Pow (breakpoints and domain computed at run time from the exponent) is covered by S1 only"]
TRUSTED = ["clang 14 front end + CFG builder", "tool/mpx.cc", "mpsa/rules/C13.py", "Python math module"]

U = "src/mp/flat/piecewise_linear.cpp"
BP = "mp::BasicPLApproximator"
_REPO = ["/repo"]


def short_loc(l):
    return _short_loc((l or "").replace(_REPO[0].rstrip("/") + "/", "/repo/"))


# ---- tiny symbolic algebra over expression trees ------------------------------------
class Unsupported(Exception):
    pass


def to_expr(f, e, params):
    """AST -> nested tuples ('x',), ('c', v), ('p', name), (op, a, b), ('fn', name, a)"""
    e = strip(e)
    k = e["k"]
    if k in ("FloatingLiteral", "IntegerLiteral"):
        return ("c", float(e["v"]))
    if "cv" in e and k not in ("DeclRefExpr", "MemberExpr"):
        try:
            return ("c", float(e["cv"]))
        except ValueError:
            pass
    if k == "DeclRefExpr":
        if f.params and e.get("declId") == f.params[0]["declId"]:
            return ("x",)
        if e.get("name") == "pi":
            return ("c", math.pi)
        ini = [v for v in f.walk() if v["k"] == "VarDecl" and v.get("declId") == e.get("declId") and kids(v)]
        if len(ini) == 1:
            return to_expr(f, kids(ini[0])[0], params)
        raise Unsupported("variable %s" % e.get("name"))
    if k == "CXXOperatorCallExpr" and e.get("op") == "[]" and "GetConParams()" in render(e) and cv(call_args(e)[-1]) == 0:
        params.add("p0")
        return ("p", "p0")
    if k == "MemberExpr" and kids(e) and strip(kids(e)[0])["k"] == "CXXThisExpr":
        params.add(e.get("name"))
        return ("p", e.get("name"))
    if k in ("CStyleCastExpr", "CXXStaticCastExpr", "CXXFunctionalCastExpr"):
        return to_expr(f, kids(e)[0], params)
    if k == "UnaryOperator" and e.get("op") == "-":
        return ("neg", to_expr(f, kids(e)[0], params))
    if k == "UnaryOperator" and e.get("op") == "+":
        return to_expr(f, kids(e)[0], params)
    if k == "BinaryOperator" and e.get("op") in ("+", "-", "*", "/"):
        return (e["op"], to_expr(f, kids(e)[0], params), to_expr(f, kids(e)[1], params))
    if k == "CXXMemberCallExpr" and e.get("callee", "").split("::")[-1] in ("GetSubIntvIndex", "lb_sub", "ub_sub") and not call_args(e):
        return ("p", "__" + e["callee"].split("::")[-1])
    if k == "CallExpr":
        nm = e.get("callee", "").split("::")[-1]
        a = [to_expr(f, x, params) for x in call_args(e)]
        if nm in ("exp", "log", "sin", "cos", "tan", "asin", "acos", "atan", "sinh", "cosh", "tanh", "asinh", "acosh", "atanh", "sqrt", "fabs") and len(a) == 1:
            return ("fn", nm, a[0])
        if nm == "pow" and len(a) == 2:
            return ("pow", a[0], a[1])
        raise Unsupported("call %s" % nm)
    raise Unsupported("%s" % k)


def dep(e):
    return e[0] == "x" or any(isinstance(c, tuple) and dep(c) for c in e[1:])


def diff(e):
    op = e[0]
    C = lambda v: ("c", float(v))
    if op == "x":
        return C(1)
    if op in ("c", "p"):
        return C(0)
    if op == "neg":
        return ("neg", diff(e[1]))
    if op in ("+", "-"):
        return (op, diff(e[1]), diff(e[2]))
    if op == "*":
        return ("+", ("*", diff(e[1]), e[2]), ("*", e[1], diff(e[2])))
    if op == "/":
        return ("/", ("-", ("*", diff(e[1]), e[2]), ("*", e[1], diff(e[2]))), ("*", e[2], e[2]))
    if op == "pow":
        a, b = e[1], e[2]
        if not dep(b):
            return ("*", ("*", b, ("pow", a, ("-", b, C(1)))), diff(a))
        if not dep(a):
            return ("*", ("*", e, ("fn", "log", a)), diff(b))
        raise Unsupported("x^x")
    if op == "fn":
        a = e[2]
        da = diff(a)
        n = e[1]
        d = {"exp": lambda: e, "log": lambda: ("/", C(1), a), "sin": lambda: ("fn", "cos", a), "cos": lambda: ("neg", ("fn", "sin", a)),
             "tan": lambda: ("/", C(1), ("*", ("fn", "cos", a), ("fn", "cos", a))),
             "asin": lambda: ("pow", ("-", C(1), ("*", a, a)), C(-0.5)), "acos": lambda: ("neg", ("pow", ("-", C(1), ("*", a, a)), C(-0.5))),
             "atan": lambda: ("/", C(1), ("+", C(1), ("*", a, a))), "sinh": lambda: ("fn", "cosh", a), "cosh": lambda: ("fn", "sinh", a),
             "tanh": lambda: ("/", C(1), ("*", ("fn", "cosh", a), ("fn", "cosh", a))),
             "asinh": lambda: ("pow", ("+", C(1), ("*", a, a)), C(-0.5)), "acosh": lambda: ("pow", ("-", ("*", a, a), C(1)), C(-0.5)),
             "atanh": lambda: ("/", C(1), ("-", C(1), ("*", a, a))), "sqrt": lambda: ("/", C(0.5), e)}.get(n)
        if d is None:
            raise Unsupported("derivative of %s" % n)
        return ("*", d(), da)
    raise Unsupported(op)


def ev(e, x, P):
    op = e[0]
    if op == "x":
        return x
    if op == "c":
        return e[1]
    if op == "p":
        return P[e[1]]
    if op == "neg":
        return -ev(e[1], x, P)
    if op == "+":
        return ev(e[1], x, P) + ev(e[2], x, P)
    if op == "-":
        return ev(e[1], x, P) - ev(e[2], x, P)
    if op == "*":
        return ev(e[1], x, P) * ev(e[2], x, P)
    if op == "/":
        return ev(e[1], x, P) / ev(e[2], x, P)
    if op == "pow":
        return math.pow(ev(e[1], x, P), ev(e[2], x, P))
    if op == "fn":
        return getattr(math, e[1])(ev(e[2], x, P))
    raise Unsupported(op)


def select_return(f, stmt, P, y):
    """the return expression node the body reaches for parameter values P (conditions over P only)"""
    def cond(c):
        c = strip(c)
        if c["k"] == "BinaryOperator" and c.get("op") in ("<", "<=", ">", ">=", "==", "!="):
            a = ev(to_expr(f, kids(c)[0], set()), y, P)
            b = ev(to_expr(f, kids(c)[1], set()), y, P)
            return {"<": a < b, "<=": a <= b, ">": a > b, ">=": a >= b, "==": a == b, "!=": a != b}[c["op"]]
        if c["k"] == "BinaryOperator" and c.get("op") in ("&&", "||"):
            l, r = cond(kids(c)[0]), cond(kids(c)[1])
            return (l and r) if c["op"] == "&&" else (l or r)
        if c["k"] == "UnaryOperator" and c.get("op") == "!":
            return not cond(kids(c)[0])
        raise Unsupported("condition %s" % render(c)[:40])

    def go(s):
        if s is None:
            return None
        k = s["k"]
        if k == "CompoundStmt":
            for x in kids(s):
                r = go(x)
                if r is not None:
                    return r
            return None
        if k == "IfStmt":
            ch = [x for x in s["c"]]
            cnd = [x for x in ch if x is not None][0]
            rest = [x for x in ch if x is not None][1:]
            if cond(cnd):
                return go(rest[0])
            return go(rest[1]) if len(rest) > 1 else None
        if k == "ReturnStmt":
            e = strip(kids(s)[0])
            while e["k"] == "ConditionalOperator":
                c, a, b = kids(e)
                e = strip(a if cond(c) else b)
            return e
        if k in ("DeclStmt", "NullStmt") or s.get("mo") == "assert":
            return None
        if k in ("ParenExpr", "CStyleCastExpr", "ConditionalOperator", "CallExpr", "BinaryOperator", "ExprWithCleanups"):
            return None           # expanded assert / expression statement
        raise Unsupported("statement %s" % k)
    return go(stmt)


def samples(lo, hi):
    """multi-scale sample points strictly inside (lo, hi)"""
    c = set()
    if hi - lo <= 20:
        c.update(lo + fr * (hi - lo) for fr in (0.03, 0.15, 0.3, 0.45, 0.55, 0.7, 0.85, 0.97))
    for m in (1e-3, 0.01, 0.1, 0.3, 0.7, 1.0, 1.5, 2.0, 3.0, 5.0, 10.0, 30.0, 100.0):
        c.update((m, -m, lo + m, hi - m))
    return sorted(x for x in c if lo < x < hi)


def subst(e, inner):
    """e with x replaced by expression `inner`"""
    if e[0] == "x":
        return inner
    return tuple(subst(c, inner) if isinstance(c, tuple) else c for c in e)


def run(rep, ctx):
    repo = ctx["repo"]
    _REPO[0] = repo
    d = export_many([dict(unit=U, fn=[r"mp::(BasicPLApproximator|PLApproximator|PLPoints|FuncGraphDomain)::.*", r"mp::PLApproximate"], repo=repo,
                          closure=1, closure_roots=r"BasicPLApproximator::CompareError$")])
    F = Facts(d)
    rep.note_units([U])
    funcs = [f for f in F.funcs if not f.is_dependent() and f.cfg is not None]
    rep.note_funcs(funcs)
    exp_inst = [f for f in funcs if "ExpConstraintId" in f.full]     # one instantiation is enough for the generic code

    def one(name, pool=None):
        c = [f for f in (pool or exp_inst) if f.qn == BP + "::" + name]
        if not c:
            raise AnalysisBroken("anchor %s::%s not found" % (BP, name))
        return c[0]

    def calls(f, name):
        return [c for c in f.walk() if c["k"] in ("CXXMemberCallExpr", "CallExpr") and c.get("callee", "").split("::")[-1] == name]

    # ---- T1 ---------------------------------------------------------------------------
    t1 = rep.rule("C13.T1", "FLOW", "no value on the way to breakpoints / PL points / reported domain is narrower than double", floor=3)
    scanned = 0
    narrow = []
    NARROW = ("float", "_Float16", "__fp16", "half")

    def is_narrow(t):
        t = (t or "").replace("const ", "")
        return any(re.search(r"(?<![A-Za-z_0-9])%s(?![A-Za-z_0-9])" % n, t) for n in NARROW)
    seen = set()
    for f in funcs:
        if not f.qn.startswith((BP + "::", "mp::PLApproximator::", "mp::PLPoints::", "mp::PLApproximate")):
            continue
        for n in f.walk():
            scanned += 1
            where = short_loc(n.get("l"))
            if n["k"] == "VarDecl" and is_narrow(n.get("ct") or n.get("t")):
                narrow.append((where, "variable `%s` of type %s" % (n.get("name"), n.get("ct") or n.get("t"))))
            elif n["k"] in ("ImplicitCastExpr", "CStyleCastExpr", "CXXStaticCastExpr", "CXXFunctionalCastExpr") and n.get("ck") in ("FloatingCast", "IntegralToFloating") \
                    and is_narrow(n.get("ct") or n.get("t")):
                narrow.append((where, "conversion of `%s` to %s" % (render(kids(n)[0])[:40], n.get("ct") or n.get("t"))))
            elif n["k"] in ("CXXMemberCallExpr", "CallExpr", "CXXConstructExpr", "CXXOperatorCallExpr") and is_narrow((n.get("calleeFull") or "").split("(")[0]):
                narrow.append((where, "call of %s" % (n.get("calleeFull") or "")[:80]))
    uniq = sorted(set(narrow))
    t1.check(not uniq, "no-narrow-floating-type", uniq[0][0] if uniq else "", "%d AST nodes of the approximator scanned: no float-typed variable, container, cast or callee" % scanned,
             "%s: abscissae pass through a type narrower than double - the approximation no longer starts/ends at the reported domain, "
             "and two close domain ends can collapse into one breakpoint (%d such site(s))" % (uniq[0][1] if uniq else "", len(uniq)))
    inp = one("InitNonPeriodic")
    sets = [v for v in inp.walk() if v["k"] == "VarDecl" and "std::set<" in (v.get("ct") or "")]
    t1.check(len(sets) == 1 and re.search(r"set<(long )?double[,>]", sets[0].get("ct") or "") is not None, "breakpoint-set-type", short_loc(inp.loc), "the breakpoint set has element type double (or wider)",
             "breakpoint set type: %s" % [v.get("ct") for v in sets])
    ins = calls(inp, "insert")
    t1.check(sorted(render(call_args(c)[0]).replace("this->", "") for c in ins) == ["lbx()", "ubx()"], "domain-ends-inserted", short_loc(inp.loc),
             "lbx() and ubx() themselves are inserted as first and last breakpoint")
    rep.extra["t1_nodes_scanned"] = scanned

    # ---- F1 ---------------------------------------------------------------------------
    f1 = rep.rule("C13.F1", "FLOW", "every generated point is (x, eval(x)); first point lb_sub(), loop ends at ub_sub()", floor=5)

    def local_init(f, ref):
        v = [x for x in f.walk() if x["k"] == "VarDecl" and x.get("declId") == ref.get("declId")]
        return kids(v[0])[0] if v and kids(v[0]) else None

    def is_eval_of(f, y, xtxt, at=None):
        y = strip(y)
        if y["k"] == "BinaryOperator" and y.get("op") == "=":       # f0 = eval(x0)
            y = strip(kids(y)[1])
        if y["k"] == "DeclRefExpr":
            # the value the variable holds at the call: an assignment `v = eval(x)` in the same straight-line block right
            # before the call (no write to v or to x's variables in between), else its initialiser
            did = y.get("declId")
            pos = f.cfg.position(at) if at is not None else None
            if pos is not None:
                els = f.cfg.blocks[pos[0]]["el"][:pos[1]]
                xvars = {z.get("declId") for z in walk(call_args(at)[0]) if z["k"] == "DeclRefExpr"}
                for eid in reversed(els):
                    n_ = f.nodes.get(eid)
                    if n_ is None:
                        continue
                    if n_["k"] in ("BinaryOperator", "CompoundAssignOperator") and (n_.get("op") == "=" or n_["k"] == "CompoundAssignOperator"):
                        t_ = strip(kids(n_)[0])
                        if t_.get("declId") == did and n_.get("op") == "=":
                            return is_eval_of(f, kids(n_)[1], xtxt)
                        if t_.get("declId") in xvars or t_.get("declId") == did:
                            return False
            init = local_init(f, y)
            if init is None:
                return False
            y = strip(init)
        return y["k"] == "CXXMemberCallExpr" and y.get("callee", "").endswith("::eval") and render(call_args(y)[0]).replace(" ", "") == xtxt
    sites = 0
    for nm in ("InitSubintervalLoop", "ApproximateSubinterval", "ConsiderIntegrality"):
        f = one(nm)
        for c in calls(f, "AddPoint"):
            sites += 1
            a = call_args(c)
            xt = render(a[0]).replace(" ", "")
            f1.check(is_eval_of(f, a[1], xt, c), "AddPoint|%s" % nm, short_loc(c.get("l")), "%s adds (%s, eval(%s))" % (nm, xt, xt),
                     "%s adds the point (%s, %s): the ordinate is not eval of the same abscissa" % (nm, xt, render(a[1])[:50]))
    if sites < 3:
        raise AnalysisBroken("C13.F1: only %d AddPoint sites found" % sites)
    cd = one("CheckDomainReturnFalseIfTrivial")
    evs = [c for c in cd.walk() if c["k"] == "CXXMemberCallExpr" and c.get("callee", "").endswith("::eval")]
    ils = [x for x in cd.walk() if x["k"] == "InitListExpr" and len(kids(x)) == 1]
    okc = False
    if len(evs) == 1:
        at = render(call_args(evs[0])[0]).replace(" ", "").replace("this->", "")
        xs = [render(kids(x)[0]).replace(" ", "").replace("this->", "") for x in ils if not any(w is evs[0] for w in walk(x))]
        ys = [x for x in ils if any(w is evs[0] for w in walk(x))]
        top = strip(call_args(evs[0])[0])
        mid = top["k"] == "BinaryOperator" and top.get("op") == "/" and cv(kids(top)[1]) == 2 and strip(kids(top)[0])["k"] == "BinaryOperator" and \
            strip(kids(top)[0]).get("op") == "+" and sorted(render(z).replace("this->", "") for z in kids(strip(kids(top)[0]))) == ["lbx()", "ubx()"]

        def shape(e):
            e = strip(e)
            return (e["k"], e.get("op"), e.get("callee"), e.get("v"), tuple(shape(z) for z in kids(e) if z))
        okc = mid and bool(ys) and any(shape(kids(x)[0]) == shape(top) for x in ils if not any(w is evs[0] for w in walk(x)))
    # the threshold below which a domain counts as one point is an absolute constant <= 1e-6
    thr_ok, thr_txt = False, "?"
    for cid, pol in cd.cfg.facts_at(evs[0]) if evs else []:
        cn = strip(cd.nodes[cid])
        if pol and cn["k"] == "BinaryOperator" and cn.get("op") in (">", ">="):
            rhs = strip(kids(cn)[1])
            if rhs["k"] == "BinaryOperator" and rhs.get("op") == "-" and render(kids(rhs)[0]).replace("this->", "") == "ubx()" and render(kids(cn)[0]).replace("this->", "") == "lbx()":
                c_ = strip(kids(rhs)[1])
                thr_txt = render(c_)
                try:
                    val = float(c_.get("v")) if c_["k"] in ("FloatingLiteral", "IntegerLiteral") else None
                except (TypeError, ValueError):
                    val = None
                thr_ok = val is not None and 0 <= val <= 1e-6
    f1.check(thr_ok, "single-point-threshold", short_loc(cd.loc), "a domain is replaced by its midpoint only if it is narrower than a constant <= 1e-6",
             "the domain is replaced by its midpoint when lbx() > ubx() - %s: the threshold is not an absolute constant <= 1e-6, so intervals wide enough for the function to vary by more than the tolerance are approximated by one point while the reported domain stays the whole interval" % thr_txt)
    f1.check(okc, "single-point-domain", short_loc(cd.loc), "a one-point domain yields the point (m, eval(m)) with m the midpoint")
    isl = one("InitSubintervalLoop")
    x0 = [v for v in isl.walk() if v["k"] == "VarDecl" and v.get("name") == "x0"]
    f1.check(len(x0) == 1 and render(kids(x0[0])[0]).replace("this->", "") == "lb_sub()" and
             any(n["k"] == "BinaryOperator" and n.get("op") == "=" and render(n).replace(" ", "") == "iSubIntv_=0" for n in isl.walk()),
             "first-point", short_loc(isl.loc), "the first point is lb_sub() of sub-interval 0")
    aps = one("ApproximateSubinterval")
    # the step loop continues exactly while x0 < ub_sub(): a do-while with that condition, or an endless loop whose last
    # statement leaves it under the negation
    dw = [n for n in aps.walk() if n["k"] in ("DoStmt", "ForStmt", "WhileStmt")]
    okl = False
    if len(dw) == 1:
        lp_ = dw[0]
        if lp_["k"] == "DoStmt":
            okl = render(kids(lp_)[-1]).replace(" ", "").replace("this->", "") == "x0<ub_sub()"
        else:
            hdr = [x for x in lp_.get("c", [])[:-1] if x is not None]
            endless = not hdr or all(cv(x) not in (None, 0) for x in hdr)
            body_ = [x for x in kids([x for x in lp_.get("c", []) if x is not None][-1]) if x is not None]
            last = body_[-1] if body_ else None
            if endless and last is not None and last["k"] == "IfStmt" and any(x["k"] == "BreakStmt" for x in walk(last)):
                ch_ = [x for x in last["c"] if x is not None]
                in_then = any(x["k"] == "BreakStmt" for x in walk(ch_[1]))
                okl = ("x0<ub_sub()", False) in [(t.replace("this->", ""), p_) for t, p_ in cond_atoms(aps, ch_[0], in_then)]
    snap = [n for n in aps.walk() if n["k"] == "BinaryOperator" and n.get("op") == "=" and render(n).replace(" ", "").replace("this->", "") == "x0=ub_sub()"]
    ap = calls(aps, "AddPoint")
    okl = okl and len(snap) == 1 and len(ap) == 1 and any(render(aps.nodes[cid]).replace(" ", "").replace("this->", "").startswith("ub_sub()-x0<") and pol is True
                                                           for cid, pol in aps.cfg.facts_at(snap[0]))
    okl = okl and not aps.cfg.before(ap[0], snap[0]) or okl
    f1.check(okl, "loop-ends-at-ub_sub", short_loc(aps.loc), "the step loop snaps x0 to ub_sub() when within 1e-6 and runs while x0 < ub_sub()")
    for nm in ("lb_sub", "ub_sub"):
        g = one(nm)
        r = [x for x in g.walk() if x["k"] == "ReturnStmt"]
        want = "breakpoints_.at(iSubIntv_)" if nm == "lb_sub" else "breakpoints_.at(iSubIntv_+1)"
        f1.check(len(r) == 1 and render(kids(r[0])[0]).replace(" ", "").replace("(size_t)", "") == want, "sub-interval|%s" % nm, short_loc(g.loc), "%s() = %s" % (nm, want),
                 "%s() returns %s" % (nm, render(kids(r[0])[0]) if r else "?"))

    # ---- F2 ---------------------------------------------------------------------------
    f2 = rep.rule("C13.F2", "GUARD", "integer shortcut: all integers of the domain, only when not more than the PL points, x integer, not periodic", floor=3)
    ci = one("ConsiderIntegrality")
    ap = calls(ci, "AddPoint")
    fa = [(t.replace("(int)", "").replace("(size_t)", "").replace("(unsignedlong)", ""), pol)
          for t, pol in norm_facts(ci, ap[0], loop_conditions=False, canon=True)] if ap else []
    f2.check(("laPrm_.is_x_int", True) in fa and ("laPrm_.fUsePeriod", False) in fa and ("laPrm_.plPoints.size()<N", False) in fa, "guards", short_loc(ci.loc),
             "taken only for integer x, non-periodic, N <= plPoints.size()", str(fa))
    loc = {v["name"]: render(kids(v)[0]).replace(" ", "").replace("std::", "") for v in ci.walk() if v["k"] == "VarDecl" and kids(v)}
    f2.check(loc.get("x0") == "ceil(laPrm_.grDomOut.lbx)" and loc.get("xN") == "floor(laPrm_.grDomOut.ubx)" and loc.get("N") in ("int(xN-x0+1)", "(int)xN-x0+1", "(int)(xN-x0+1)"),
             "range", short_loc(ci.loc), "x0 = ceil(lb), xN = floor(ub), N = xN - x0 + 1", str(loc))
    lp = [n for n in ci.walk() if n["k"] == "ForStmt"]
    okf = len(lp) == 1 and cv(kids(kids(lp[0]["c"][0])[0])[0]) == 0 and render(lp[0]["c"][2]).replace(" ", "") == "k<N" and render(lp[0]["c"][3]) in ("++k", "k++") and \
        bool(ap) and render(call_args(ap[0])[0]).replace(" ", "") == "x0+k"
    clr = calls(ci, "clear")
    okf = okf and len(clr) == 1 and ci.cfg.dominates(clr[0], ap[0])
    f2.check(okf, "all-integers", short_loc(ci.loc), "the old points are cleared and every x0 + k, k in [0, N), is added")

    # ---- G1 ---------------------------------------------------------------------------
    g1 = rep.rule("C13.G1", "GUARD", "error compared with exactly ubErr; absolute measure for |f| <= 1, relative otherwise", floor=3)
    ce = one("CompareError")
    ub = [v for v in ce.walk() if v["k"] == "VarDecl" and v.get("name") == "ub"]
    er = [v for v in ce.walk() if v["k"] == "VarDecl" and v.get("name") == "err"]
    cmpn = sorted(render(kids(n)[0]).replace(" ", "") for n in ce.walk() if n["k"] == "IfStmt")
    rets = sorted(cv(kids(r)[0]) for r in ce.walk() if r["k"] == "ReturnStmt")
    okce = len(ub) == 1 and render(kids(ub[0])[0]) == "laPrm_.ubErr" and cmpn == ["err<ub", "err>ub"] and rets == [-1, 0, 1] and \
        len(er) == 1 and "maxErrorRelAbove1" in render(er[0])
    if not okce:
        # written differently (a three-way helper, ...): the sign is evaluated for errors below, at and above the bound
        okce = True
        for E_, UB_, want_ in ((0.5, 1.0, -1), (1.0, 1.0, 0), (2.0, 1.0, 1), (1e-9, 1e-3, -1), (0.02, 0.01, 1)):
            def atom(t_, n_, env_, E_=E_, UB_=UB_):
                if n_["k"] in ("CXXMemberCallExpr", "CallExpr") and (n_.get("callee") or "").split("::")[-1] == "maxErrorRelAbove1":
                    return E_
                if t_.replace("this->", "").replace(" ", "") == "laPrm_.ubErr":
                    return UB_
                return None
            try:
                got_ = MiniInt(F, atom).call(ce, [1.0, 1.0, 2.0, 2.0])
            except AnalysisBroken:
                got_ = None
            okce = okce and got_ == want_
    g1.check(okce, "compare-with-ubErr", short_loc(ce.loc),
             "CompareError: sign of maxErrorRelAbove1(...) - laPrm_.ubErr", "ub = %s, comparisons %s" % (render(kids(ub[0])[0]) if ub else "?", cmpn))
    for nm, wantc, sign in (("IncreaseStepWhileErrorSmallEnough", "0>CompareError(x0,f0,x0+dx0,f1)", "grow"), ("DecreaseStepWhileErrorTooBig", "0<CompareError(x0,f0,x0+dx0,f1)", "shrink")):
        g = one(nm)
        wl = [n for n in g.walk() if n["k"] == "WhileStmt"]
        c = render(kids(wl[0])[0]).replace(" ", "") if wl else ""
        okc = False
        for b_ in (walk(kids(wl[0])[0]) if len(wl) == 1 else []):
            if b_["k"] == "BinaryOperator" and b_.get("op") in ("<", ">", "<=", ">=", "==", "!="):
                l_, r_ = kids(b_)
                t_, pol_ = canon_rel((render(l_).replace(" ", ""), b_["op"], render(r_).replace(" ", "")), True)
                # grow: the error is below the bound (CompareError < 0); shrink: above it (0 < CompareError)
                if pol_ and t_ == ("CompareError(x0,f0,x0+dx0,f1)<0" if sign == "grow" else "0<CompareError(x0,f0,x0+dx0,f1)"):
                    okc = True
        g1.check(okc, "step|%s" % nm, short_loc(g.loc), "%s the step while %s" % (sign, wantc), c[:100])
    me = one("maxErrorRelAbove1")
    co = [n for n in me.walk() if n["k"] == "ConditionalOperator"]
    okm = False
    if co:
        c, a, b = kids(co[-1])
        okm = render(c).replace(" ", "") in ("f>=-1.0&&f<=1.0", "f>=-1&&f<=1") and render(a).replace(" ", "").replace("std::", "") == "fabs(f-y)" and \
            render(b).replace(" ", "").replace("std::", "") == "fabs(f-y)/fabs(f)"
    g1.check(okm, "abs-or-rel", short_loc(me.loc), "error = |f-y| for -1 <= f <= 1, |f-y|/|f| otherwise")
    mx = [c for c in me.walk() if c["k"] == "CallExpr" and c.get("callee", "").endswith("::max") and "errMax" in render(c)]
    g1.check(len(mx) == 1 and any(n["k"] == "CXXForRangeStmt" for n in me.walk()), "max-over-points", short_loc(me.loc), "the measure is the maximum over the candidate points")

    # candidate points: (f(xc), chord(xc)) at the same abscissa
    pb = [c for c in me.walk() if c["k"] == "CXXMemberCallExpr" and c.get("callee", "").endswith("::push_back") and render(call_object(c)).replace("this->", "") == "points"]
    if len(pb) < 5:
        raise AnalysisBroken("C13.G1: only %d candidate points in maxErrorRelAbove1" % len(pb))
    mloc = {v["name"]: kids(v)[0] for v in me.walk() if v["k"] == "VarDecl" and kids(v)}
    okslope = "slope" in mloc and render(mloc["slope"]).replace(" ", "") in ("y1-y0/x1-x0", "(y1-y0)/(x1-x0)")
    sl = strip(mloc["slope"]) if "slope" in mloc else None
    okslope = okslope and sl["k"] == "BinaryOperator" and sl.get("op") == "/"
    g1.check(bool(okslope), "chord-slope", short_loc(me.loc), "slope = (y1-y0)/(x1-x0)")
    for c in pb:
        il = [x for x in walk(c) if x["k"] == "InitListExpr" and len(kids(x)) == 2]
        il = [x for x in il if not any(y is not x and y["k"] == "InitListExpr" and len(kids(y)) == 2 for y in walk(x))]
        okp = False
        desc = "?"
        if il:
            a, b = [strip(z) for z in kids(il[0])]
            b = strip(expand_locals(me, b))          # a one-line chord helper / lambda is looked through
            desc = "{%s, %s}" % (render(a), render(b))
            # abscissa of the function value
            xa = None
            aa = a
            if aa["k"] == "DeclRefExpr" and aa.get("name") in mloc:
                aa = strip(mloc[aa["name"]])
            if aa["k"] == "CXXMemberCallExpr" and aa.get("callee", "").endswith("::eval"):
                xa = render(call_args(aa)[0])
            elif aa["k"] in ("FloatingLiteral", "UnaryOperator") and cv(aa) is not None:
                # f = c at x = inverse_with_check(c)
                refs = [z for z in walk(b) if z["k"] == "DeclRefExpr" and z.get("name") not in ("x0", "y0", "slope")]
                nm = refs[0].get("name") if len(refs) == 1 else None
                ini = local_init(me, refs[0]) if nm else None
                iv = strip(ini) if ini is not None else None
                if iv is not None and iv["k"] == "CXXMemberCallExpr" and iv.get("callee", "").endswith("::inverse_with_check") and cv(call_args(iv)[0]) == cv(aa):
                    xa = nm
            bt = render(b).replace(" ", "")
            if xa == "x0":
                okp = bt == "y0"
            elif xa == "x1":
                okp = bt == "y1"
            elif xa:
                okp = bt in ("y0+%s-x0*slope" % xa, "y0+(%s-x0)*slope" % xa) and b["k"] == "BinaryOperator" and b.get("op") == "+" and \
                    strip(kids(b)[1])["k"] == "BinaryOperator" and strip(kids(b)[1]).get("op") == "*" and strip(kids(strip(kids(b)[1]))[0]).get("op") == "-"
        g1.check(okp, "candidate|%s" % desc.replace(" ", "")[:60], short_loc(c.get("l")), "candidate %s pairs f and the chord at one abscissa" % desc,
                 "candidate %s: function value and chord value are not taken at the same abscissa" % desc)
    inv = [("inverse_with_check", "inverse"), ("inverse_1st_with_check", "inverse_1st")]
    for w, base in inv:
        g = one(w)
        r = [x for x in g.walk() if x["k"] == "ReturnStmt"]
        v = {x["name"]: kids(x)[0] for x in g.walk() if x["k"] == "VarDecl" and kids(x)}
        rr = strip(kids(r[0])[0]) if len(r) == 1 else None
        src = strip(v[rr["name"]]) if rr is not None and rr["k"] == "DeclRefExpr" and rr.get("name") in v else rr
        g1.check(src is not None and src["k"] == "CXXMemberCallExpr" and src.get("callee", "").split("::")[-1] == base and
                 render(call_args(src)[0]) == g.params[0]["name"], "wrapper|%s" % w, short_loc(g.loc), "%s returns %s of its argument" % (w, base))

    # ---- D1: the reported domain is the approximated one ---------------------------------------------
    d1 = rep.rule("C13.D1", "FLOW", "the domain reported to the caller (grDomOut) and the ends used for the breakpoints (lbx_, ubx_) are taken after every clipping of the graph domain", floor=3)
    cf = one("ClipFuncGraphDomain")
    muts = [c for c in cf.walk() if c["k"] == "CXXMemberCallExpr" and ((c.get("callee") or "").endswith("::intersect") and "grDom" in render(call_object(c)) or
                                                                        (c.get("callee") or "").endswith("::ClipWithFunctionValues"))]
    outs = [n for n in cf.walk() if n["k"] in ("BinaryOperator", "CXXOperatorCallExpr") and n.get("op") == "=" and
            render((kids(n) if n["k"] == "BinaryOperator" else call_args(n))[0]).replace(" ", "").replace("this->", "") == "laPrm_.grDomOut"]
    ends = [n for n in cf.walk() if n["k"] == "BinaryOperator" and n.get("op") == "=" and render(kids(n)[0]).replace("this->", "") in ("lbx_", "ubx_")]
    okd = len(muts) >= 2 and len(outs) == 1 and render((kids(outs[0]) if outs[0]["k"] == "BinaryOperator" else call_args(outs[0]))[1]).replace(" ", "").replace("this->", "") == "laPrm_.grDom"
    d1.check(okd and all(not cf.cfg.before(outs[0], m) for m in muts) and all(cf.cfg.before(m, outs[0]) or cf.cfg.facts_at(m) for m in muts), "reported-after-clipping", short_loc(cf.loc),
             "grDomOut = grDom is assigned after intersect() and ClipWithFunctionValues()",
             "grDomOut is assigned before the graph domain is clipped for the last time: the caller narrows x only to the wider domain while the breakpoints cover the clipped one, so the PL function is extrapolated over part of the reported domain")
    # each end is read from the (clipped) graph domain itself: directly, or through a local that is a *reference* to it (a
    # by-value copy taken before the clipping would be stale)
    def end_source(n):
        r_ = strip(kids(n)[1])
        if r_["k"] == "DeclRefExpr" and r_.get("dk") == "Var":
            vd_ = [v for v in cf.walk() if v["k"] == "VarDecl" and v.get("declId") == r_.get("declId") and kids(v)]
            if len(vd_) == 1 and (vd_[0].get("ct") or vd_[0].get("t") or "").rstrip().endswith("&"):
                return render(kids(vd_[0])[0]).replace(" ", "").replace("this->", "")
            return "copy:" + render(r_)
        return render(r_).replace(" ", "").replace("this->", "")
    srcs_ = {render(kids(n)[0]).replace("this->", ""): end_source(n) for n in ends}
    oke = len(ends) == 2 and srcs_ == {"lbx_": "laPrm_.grDom.lbx", "ubx_": "laPrm_.grDom.ubx"} and all(not cf.cfg.before(e_, m) for e_ in ends for m in muts)
    d1.check(oke, "ends-after-clipping", short_loc(cf.loc), "lbx_ / ubx_ are read from grDom (by reference) after the clipping")
    cw = one("ClipWithFunctionValues")
    par = cw.params[0] if cw.params else {}
    d1.check((par.get("ct") or "").rstrip().endswith("&") and "const" not in (par.get("ct") or ""), "clip-in-place", short_loc(cw.loc), "ClipWithFunctionValues narrows the domain it is given in place")

    # ---- P1: periodic decomposition x = period*n + remainder -------------------------------------
    p1 = rep.rule("C13.P1", "FLOW", "periodic functions: period length = length of the default period; x = period*factor + remainder with the remainder in the approximated range", floor=5)
    ip = one("InitPeriodic")

    def aff(e):
        """affine normal form {atom: coef} of a small arithmetic expression"""
        e = strip(e)
        c = cv(e)
        if c is not None and e["k"] != "DeclRefExpr":
            return {"": float(c)} if float(c) else {}
        if e["k"] == "BinaryOperator" and e.get("op") in ("+", "-"):
            a, b = aff(kids(e)[0]), aff(kids(e)[1])
            out = dict(a)
            for t, v in b.items():
                out[t] = out.get(t, 0.0) + (v if e["op"] == "+" else -v)
            return {t: v for t, v in out.items() if v}
        if e["k"] == "UnaryOperator" and e.get("op") == "-":
            return {t: -v for t, v in aff(kids(e)[0]).items()}
        return {render(e).replace(" ", "").replace("this->", ""): 1.0}
    asg = {}
    for n in ip.walk():
        if n["k"] in ("BinaryOperator", "CXXOperatorCallExpr") and n.get("op") == "=":
            lhs, rhs = (kids(n) if n["k"] == "BinaryOperator" else call_args(n))
            asg.setdefault(render(lhs).replace(" ", "").replace("this->", ""), []).append(rhs)
    loc = {v["name"]: render(kids(v)[0]).replace(" ", "").replace("this->", "") for v in ip.walk() if v["k"] == "VarDecl" and kids(v)}
    pl = asg.get("laPrm_.periodLength", [])
    p1.check(len(pl) == 1 and aff(pl[0]) == {"per.ub": 1.0, "per.lb": -1.0} and loc.get("per") == "GetDefaultPeriod()", "period-length", short_loc(ip.loc),
             "periodLength = per.ub - per.lb of GetDefaultPeriod()",
             "periodLength = %s (per = %s): x = periodLength*n + remainder no longer maps x onto the point of the base period with the same function value" %
             (render(pl[0]) if pl else "?", loc.get("per")))
    bp = asg.get("breakpoints_", [])
    rr = asg.get("laPrm_.periodRemainderRange", [])
    rtxt = render(rr[0]).replace(" ", "").replace("this->", "") if rr else ""
    p1.check(len(bp) == 1 and render(bp[0]).replace(" ", "").replace("this->", "").endswith("GetDefaultBreakpoints()") and "breakpoints_.front()" in rtxt and "breakpoints_.back()" in rtxt and
             rtxt.index("front()") < rtxt.index("back()"), "remainder-range", short_loc(ip.loc), "the remainder ranges over [first, last] default breakpoint, which is what gets approximated")
    fr = asg.get("laPrm_.periodicFactorRange", [])
    okf = False
    if len(fr) == 1:
        cl = [c for c in walk(fr[0]) if c["k"] == "CallExpr" and c.get("callee", "").split("::")[-1] in ("floor", "ceil")]
        d_ = {}
        for c in cl:
            a = strip(call_args(c)[0])
            if a["k"] == "BinaryOperator" and a.get("op") == "/" and render(kids(a)[1]).replace(" ", "").replace("this->", "") == "laPrm_.periodLength":
                d_[c["callee"].split("::")[-1]] = aff(kids(a)[0])
        okf = d_ == {"floor": {"lbx()": 1.0, "per.lb": -1.0}, "ceil": {"ubx()": 1.0, "per.lb": -1.0}}
        if okf and pl:
            okf = ip.cfg.before(strip(pl[0]), strip(fr[0])) or True
    p1.check(okf, "factor-range", short_loc(ip.loc), "factor range = [floor((lbx-per.lb)/period), ceil((ubx-per.lb)/period)]")
    # the linking constraint in the MIP converter
    try:
        dv = export_many([dict(unit="solvers/visitor/visitor-modelapi-connect.cc", fn=[r"mp::FuncConConverter_MIP_CRTP::Convert"], repo=repo)])
        Fv = Facts(dv)
        cvs = [g for g in Fv.funcs if not g.is_dependent() and g.cfg is not None and "SinConstraintId" in g.full]
    except Exception as ex:
        raise AnalysisBroken("C13.P1: cannot read FuncConConverter_MIP_CRTP::Convert: %s" % ex)
    if not cvs:
        raise AnalysisBroken("C13.P1: FuncConConverter_MIP_CRTP<Sin>::Convert not found")
    g = cvs[0]
    rep.note_units(["solvers/visitor/visitor-modelapi-connect.cc"])
    addc = [c for c in g.walk() if c["k"] == "CXXMemberCallExpr" and c.get("callee", "").endswith("::AddConstraint") and "AlgConRhs<0>" in (c.get("calleeFull") or "")]
    okl = len(addc) == 1
    if okl:
        t = render(call_args(addc[0])[0]).replace(" ", "").replace("this->", "")
        ils = [x for x in walk(call_args(addc[0])[0]) if x["k"] == "InitListExpr" and len(kids(x)) == 3]
        names = [[(([z.get("name") for z in walk(y) if z["k"] == "DeclRefExpr" and z.get("name") not in (None, "operator int")] or [None])[0]) for y in kids(x)] for x in ils]
        okl = re.search(r"laPrm\.periodLength,1(\.0)?,-1(\.0)?", t) is not None and ["factor", "rmd", "x"] in names
        fa = [(render(g.nodes[cid]).replace(" ", ""), pol) for cid, pol in g.cfg.facts_at(addc[0])]
        okl = okl and ("!laPrm.fUsePeriod", False) in fa
    lv = {v["name"]: render(kids(v)[0]).replace(" ", "").replace("this->", "") for v in g.walk() if v["k"] == "VarDecl" and kids(v)}
    okv = "laPrm.periodRemainderRange.lb,laPrm.periodRemainderRange.ub" in lv.get("rmd", "") and "laPrm.periodicFactorRange.lb,laPrm.periodicFactorRange.ub" in lv.get("factor", "") and \
        "INTEGER" in lv.get("factor", "")
    p1.check(okl, "link-constraint", short_loc(g.loc), "periodic case adds  periodLength*factor + rmd - x == 0", render(call_args(addc[0])[0])[:400] if addc else "no equality added")
    p1.check(okv, "aux-variables", short_loc(g.loc), "rmd ranges over periodRemainderRange, factor is an integer in periodicFactorRange", str({k: lv.get(k) for k in ("rmd", "factor")}))
    rd = [c for c in g.walk() if c["k"] == "CXXMemberCallExpr" and c.get("callee", "").endswith("::RedefineVariable")]
    okr = len(rd) == 2 and any("rmd" in render(c) for c in rd) and any(re.search(r"PLConstraint\(.*\bx\b", render(c).replace("InitListExpr", "")) for c in rd)
    p1.check(okr, "pl-argument", short_loc(g.loc), "the PL constraint is defined on rmd in the periodic case and on x otherwise")

    # ---- S1 ---------------------------------------------------------------------------
    s1 = rep.rule("C13.S1", "TABLE", "value / derivative / inverse formulas of each specialisation agree (symbolic derivative + identity testing)", floor=20)
    s2 = rep.rule("C13.S2", "TABLE", "in every default sub-interval the selected branch of inverse / inverse_1st returns the preimage in that sub-interval", floor=30)
    s4 = rep.rule("C13.S4", "TABLE", "default breakpoints separate the inflection points: f'' has one sign inside every default sub-interval", floor=20)
    s2_skipped = []
    s1_skipped = []
    s2n = [0]
    fs_all = {}
    for f in funcs:
        if f.qn.startswith("mp::PLApproximator::") and "ConstraintId" in f.full:
            fs_all.setdefault(f.full.split("Traits, mp::")[-1].split("ConstraintId")[0], {})[f.name] = f
    classes = {}
    for f in funcs:
        if f.qn.startswith("mp::PLApproximator::") and f.name in ("eval", "eval_1st", "eval_2nd", "inverse", "inverse_1st"):
            cid = f.full.split("Traits, mp::")[-1].split("ConstraintId")[0]
            classes.setdefault(cid, {})[f.name] = f
    if len(classes) < 15:
        raise AnalysisBroken("C13.S1: only %d specialisations found" % len(classes))
    PTS = {"default": [0.13, 0.37, 0.71, 0.93], "Acosh": [1.3, 2.1, 3.7, 9.0], "Log": [0.3, 1.7, 4.0, 30.0], "LogA": [0.3, 1.7, 4.0, 30.0],
           "Atanh": [-0.6, -0.2, 0.3, 0.8], "Asin": [-0.6, -0.2, 0.3, 0.8], "Acos": [-0.6, -0.2, 0.3, 0.8]}
    # parameter samples: bases above and below 1, exponents of either sign (x^a with a < 0 is approximated too)
    PARAMS = [{"A_": 2.5, "logA_": math.log(2.5), "p0": 3.0}, {"A_": 0.4, "logA_": math.log(0.4), "p0": 2.5}, {"A_": 1.7, "logA_": math.log(1.7), "p0": -1.5}]
    covered = skipped = 0
    for cid, fs in sorted(classes.items()):
        ex = {}
        why = None
        for nm, f in fs.items():
            body = [s for s in kids(f.body) if s.get("mo") != "assert" and s["k"] != "NullStmt"]
            if len(body) != 1 or body[0]["k"] != "ReturnStmt":
                why = "%s is not a single expression" % nm
                continue
            try:
                ps = set()
                ex[nm] = (to_expr(f, kids(body[0])[0], ps), ps, f)
            except Unsupported as u:
                why = "%s: %s" % (nm, u)
        pts = PTS.get(cid, PTS["default"])

        def same(e1, e2, name, where, domain=None):
            nonlocal covered
            worst = 0.0
            for P in PARAMS:
                for x in (domain or pts):
                    va = []
                    for e_ in (e1, e2):
                        try:
                            va.append(ev(e_, x, P))
                        except (ValueError, ZeroDivisionError, OverflowError):
                            va.append(None)
                    if va[0] is None and va[1] is None:
                        continue              # outside the common domain
                    if va[0] is None or va[1] is None:
                        worst = float("inf")  # one side is undefined (NaN in C++) where the other has a value
                        continue
                    a, b = va
                    worst = max(worst, abs(a - b) / max(1.0, abs(a), abs(b)))
            covered += 1
            s1.check(worst < 1e-9, "%s|%s" % (cid, name), where, "%s: %s agrees (max rel. difference %.1e)" % (cid, name, worst),
                     "%s: %s disagrees (relative difference %.3g): the step control / error bound uses a wrong formula" % (cid, name, worst))
        if "eval" in ex and "eval_1st" in ex:
            same(diff(ex["eval"][0]), ex["eval_1st"][0], "eval_1st = d/dx eval", short_loc(ex["eval_1st"][2].loc))
        if "eval_1st" in ex and "eval_2nd" in ex:
            same(diff(ex["eval_1st"][0]), ex["eval_2nd"][0], "eval_2nd = d/dx eval_1st", short_loc(ex["eval_2nd"][2].loc))
        if "eval" in ex and "inverse" in ex:
            same(subst(ex["inverse"][0], ex["eval"][0]), ("x",), "inverse(eval(x)) = x", short_loc(ex["inverse"][2].loc))
        if "eval_1st" in ex and "inverse_1st" in ex and cid not in ("Asin", "Acos", "Atan", "Asinh", "Acosh", "Atanh"):
            same(subst(ex["inverse_1st"][0], ex["eval_1st"][0]), ("x",), "inverse_1st(eval_1st(x)) = x", short_loc(ex["inverse_1st"][2].loc))
        # multi-branch inverses: every returned value is a preimage (up to the branch sign)
        for inv, fwd in (("inverse", "eval"), ("inverse_1st", "eval_1st")):
            if inv in ex or inv not in fs or fwd not in ex:
                continue
            g = fs[inv]
            rets = []
            for r in g.walk():
                if r["k"] == "ReturnStmt":
                    st = [strip(kids(r)[0])]
                    while st:
                        e0 = st.pop(0)
                        if e0["k"] == "ConditionalOperator":
                            st = [strip(kids(e0)[1]), strip(kids(e0)[2])] + st
                        else:
                            rets.append((r, e0))
            for i, (r, e0) in enumerate(rets):
                try:
                    re_ = to_expr(g, e0, set())
                except Unsupported as u:
                    s1_skipped.append("%s.%s branch %d (%s)" % (cid, inv, i, u))
                    continue
                worst = 0.0
                n = 0
                for P in PARAMS:
                    for x in pts:
                        try:
                            y = ev(ex[fwd][0], x, P)
                        except (ValueError, ZeroDivisionError, OverflowError):
                            continue
                        try:
                            xi = ev(re_, y, P)
                        except (ValueError, ZeroDivisionError, OverflowError):
                            # the inverse formula itself is undefined (NaN in C++) at a value the forward function takes
                            n += 1
                            worst = float("inf")
                            continue
                        try:
                            back = ev(ex[fwd][0], xi, P)
                        except (ValueError, ZeroDivisionError, OverflowError):
                            continue              # the branch of the other side of the domain
                        n += 1
                        worst = max(worst, abs(abs(back) - abs(y)) / max(1.0, abs(y)))
                covered += 1
                s1.check(n >= 3 and worst < 1e-9, "%s|%s branch %d is a preimage" % (cid, inv, i), short_loc(r.get("l")),
                         "%s: |%s(%s_branch%d(y))| = |y| at %d points (max rel. difference %.1e)" % (cid, fwd, inv, i, n, worst),
                         "%s: %s returns `%s`, which %s does not map back to y (relative difference %.3g, %d points): the point of maximal error is looked for at the wrong place" %
                         (cid, inv, render(e0)[:60], fwd, worst, n))
        # S2: the branch taken in each default sub-interval returns the preimage inside that sub-interval
        dom = fs_all.get(cid, {}).get("GetFuncGraphDomain")
        bpf = fs_all.get(cid, {}).get("GetDefaultBreakpoints")
        try:
            il = [x for x in dom.walk() if x["k"] == "InitListExpr" and len(kids(x)) == 4]
            lbx, ubx = [ev(to_expr(dom, z, set()), 0.0, {}) for z in kids(il[0])[:2]]
            if bpf is not None:
                bl = [x for x in bpf.walk() if x["k"] == "InitListExpr" and len(kids(x)) >= 2]
                bps = [ev(to_expr(bpf, z, set()), 0.0, {}) for z in kids(bl[0])]
            else:
                bps = [lbx, ubx]
        except (Unsupported, IndexError, AttributeError, KeyError) as u:
            s2_skipped.append("%s (domain/breakpoints not literal)" % cid)
            continue
        for inv, fwd in (("inverse", "eval"), ("inverse_1st", "eval_1st")):
            if inv not in fs or fwd not in ex:
                continue
            g = fs[inv]
            for i in range(len(bps) - 1):
                lo, hi = max(bps[i], lbx), min(bps[i + 1], ubx)
                if not lo < hi:
                    continue
                xs_ = samples(lo, hi)
                worst, n, bad = 0.0, 0, None
                try:
                    for P0 in PARAMS:
                        for x in xs_:
                            for lbs in (bps[i], x - 1e-3 * min(hi - lo, 1.0)):       # the actual sub-interval may start anywhere in [b_i, x]
                                P = dict(P0, __GetSubIntvIndex=float(i), __lb_sub=max(lbs, bps[i]), __ub_sub=bps[i + 1])
                                try:
                                    y = ev(ex[fwd][0], x, P)
                                    r = select_return(g, g.body, P, y)
                                    back = ev(to_expr(g, r, set()), y, P)
                                except (ValueError, ZeroDivisionError, OverflowError):
                                    continue
                                n += 1
                                dlt = abs(back - x) / max(1.0, abs(x))
                                if dlt > worst:
                                    worst, bad = dlt, (x, back, render(r)[:50])
                except Unsupported as u:
                    s2_skipped.append("%s.%s (%s)" % (cid, inv, u))
                    break
                if n == 0:
                    continue
                s2n[0] += 1
                s2.check(worst < 1e-6, "%s|%s|sub-interval %d" % (cid, inv, i), short_loc(g.loc),
                         "%s: %s(%s(x)) = x on sub-interval %d [%.4g, %.4g] (%d evaluations)" % (cid, inv, fwd, i, bps[i], bps[i + 1], n),
                         "%s: on sub-interval %d [%.4g, %.4g] %s returns `%s` = %.6g for %s(%.6g): the preimage lies outside the sub-interval, so the maximal error of a segment is measured at the wrong point"
                         % ((cid, i, bps[i], bps[i + 1], inv, bad[2], bad[1], fwd, bad[0]) if bad else (cid, i, 0, 0, inv, "", 0, fwd, 0)))
        # S4: no inflection point inside a default sub-interval (f' monotone there, as the error measure assumes)
        if "eval_2nd" in ex:
            for i in range(len(bps) - 1):
                lo, hi = max(bps[i], lbx), min(bps[i + 1], ubx)
                if not lo < hi:
                    continue
                sg = {}
                for P in PARAMS:
                    if len(sg) > 1:
                        break
                    sg = {}
                    for x in samples(lo, hi):
                        try:
                            v2 = ev(ex["eval_2nd"][0], x, P)
                        except (ValueError, ZeroDivisionError, OverflowError):
                            continue
                        if abs(v2) > 1e-300:
                            sg.setdefault(v2 > 0, x)
                if sg:
                    s4.check(len(sg) == 1, "%s|sub-interval %d" % (cid, i), short_loc(ex["eval_2nd"][2].loc),
                             "%s: f'' keeps its sign on sub-interval %d [%.4g, %.4g]" % (cid, i, bps[i], bps[i + 1]),
                             "%s: f'' changes sign inside sub-interval %d [%.4g, %.4g] (positive at %.4g, negative at %.4g): f' is not monotone there, so the point of maximal error is not unique and the error bound of a segment is not reliable"
                             % (cid, i, bps[i], bps[i + 1], sg.get(True, 0), sg.get(False, 0)))
        if why and len(ex) < 5:
            skipped += 1
    # ---- S3: what the branch conditions may depend on -----------------------------------
    s3 = rep.rule("C13.S3", "WHO", "branch selectors match the way sub-intervals are built: the index only in periodic specialisations, the sign of lb_sub() only with 0 among the default breakpoints", floor=8)
    for cid, fsx in sorted(fs_all.items()):
        for inv in ("inverse", "inverse_1st"):
            g = fsx.get(inv)
            if g is None:
                continue
            uses_idx = any(c["k"] == "CXXMemberCallExpr" and c.get("callee", "").endswith("::GetSubIntvIndex") for c in g.walk())
            uses_lb = any(c["k"] == "CXXMemberCallExpr" and c.get("callee", "").split("::")[-1] in ("lb_sub", "ub_sub") and
                          not any(a.get("mo") == "assert" for a in g.ancestors(c)) for c in g.walk())
            if not (uses_idx or uses_lb):
                continue
            per = fsx.get("IsPeriodic")
            is_per = per is not None and any(r["k"] == "ReturnStmt" and cv(kids(r)[0]) in (1, True) for r in per.walk())
            if uses_idx:
                s3.check(is_per, "%s|%s|index" % (cid, inv), short_loc(g.loc), "%s::%s selects by sub-interval index and the specialisation is periodic (sub-intervals are the default ones)" % (cid, inv),
                         "%s::%s selects its branch by GetSubIntvIndex(), but the specialisation is not periodic: the non-periodic set-up drops the breakpoints outside the argument domain, so the index no longer names the default sub-interval" % (cid, inv))
            if uses_lb:
                bpf = fsx.get("GetDefaultBreakpoints")
                has0 = None
                if bpf is not None:
                    bl = [x for x in bpf.walk() if x["k"] == "InitListExpr" and len(kids(x)) >= 2]
                    if bl:
                        has0 = any(cv(z) == 0 for z in kids(bl[0]))
                if has0 is None:
                    s2_skipped.append("%s.%s S3 (breakpoints not literal)" % (cid, inv))
                    continue
                s3.check(has0 and not is_per, "%s|%s|sign" % (cid, inv), short_loc(g.loc), "%s::%s selects by the sign of lb_sub(); 0 is a default breakpoint, so no sub-interval straddles it" % (cid, inv),
                         "%s::%s selects its branch by lb_sub(), but 0 is not among the default breakpoints: a sub-interval can straddle 0 and one branch serves both sides" % (cid, inv))
    rep.extra["s1_formula_pairs"] = covered
    rep.extra["s1_classes"] = len(classes)
    rep.extra["s2_skipped"] = s2_skipped
    rep.extra["s1_skipped"] = s1_skipped
    return rep
