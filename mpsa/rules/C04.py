"""C04 - solutions and suffixes return to the original model's items intact (link structure).

P1 independence of transfers: every Presolve*/Postsolve* entry cleans the value nodes first, presolve walks
   the link chain forward and postsolve backward;
G1 every delivered item is linked: variables, objectives and every constraint handed to the model API get
   a copy link of the right source and target;
W1 creation funnel: raw model mutators are reached only through converter functions that return through
   AutoLink; conversion entry points open an AutoLinkScope before dispatching;
W2 no auto-link scope is opened while another one is active (call graph reachability from scope bodies);
T1 sibling agreement of links: every link class defines all value kinds in both directions; typed links
   look their constraint up in the keeper of the link's own source type; basis reversal both ways;
T2 node sizing: assignment of a (longer or shorter) vector resizes to the declared size; setters resize
   before indexing; cleaning resizes to the declared size.
"""
import re
from ..cfg import MiniInt, CaseThrow, xrender, norm_facts, expand_locals, Facts, kids, strip, walk, cv, render, call_args, call_object, switch_sections
from ..cfg import short_loc as _short_loc
from ..facts import export, export_many, AnalysisBroken

LEVEL = "other"
TECHNIQUE = ("static analysis: path rules (dominance) on the presolver entry points, guard/flow rules on "
             "the link registration sites, who-may-call and reachability rules over the call graph (ids, "
             "override links), sibling tables over all link classes and instantiations, type agreement "
             "between a link's source node and the constraint type it looks up")
LEVEL_TEXT = ("Decided: the structural conditions without which values cannot return to the right items - "
              "nodes are cleaned before each transfer, chains run in opposite directions, each item that "
              "reaches the solver has a link from its origin, new items are registered with the active "
              "auto-link scope and scopes do not nest, link classes are complete and type-consistent, nodes "
              "are sized before they are indexed, the merge rule of a node element (an empty slot takes any value, a "
              "filled one only a larger non-zero value) holds on sampled value pairs.  Not decided: that for a particular run-time link graph "
              "every value lands on the right item (needs the graph), numeric slack values."
              "  Also decided (added after the seeded rounds): the postsolved primal and dual vectors are reported exactly when the solver returned them.")
LEVEL_NOTE = "Trusted: clang 14 front end/CFG, tool/mpx.cc, the rule module."
DESIGN_REF = "DESIGN.md section 4, C04"
EXPLANATION = (
    "Unit: the visitor flat-converter unit (all keepers, converters and links instantiated).  See the module "
    "docstring; instances are enumerated per entry point, per keeper instantiation, per link class and value "
    "kind.  T1 includes the rule that found the quadratic-range defect: the constraint type a typed link "
    "passes to GetConstraint<> must be the item type of the converter that owns the link (its source node).")
ASSUMPTIONS = ["solver answers are passed to the presolver through its Postsolve*/Presolve* entry points",
               "virtual calls other than overrides of analysed bases are not followed in W2"]
TRUSTED = ["clang 14 front end + CFG builder", "tool/mpx.cc", "mpsa/rules/C04.py"]

U = "solvers/visitor/visitor-modelapi-connect.cc"
_REPO = ["/repo"]
KINDS = ["GenericDbl", "GenericInt", "Solution", "Basis", "IIS", "LazyUserCutFlags", "Names"]


def short_loc(l):
    return _short_loc((l or "").replace(_REPO[0].rstrip("/") + "/", "/repo/"))


def rx(q):
    return re.sub(r"([\[\]().+*?^$|\\])", r"\\\1", q)


def run(rep, ctx):
    repo = ctx["repo"]
    _REPO[0] = repo
    fn = [r"mp::pre::ValuePresolverImpl::.*", r"mp::pre::ValuePresolver::.*", r"mp::RangeConstraintConverter::.*",
          r"mp::pre::RangeCon2Slack::.*", r"mp::pre::AutoLinkScope::.*", r"mp::pre::ValueNode::.*",
          r"mp::pre::(CopyLink|Many2ManyLink|One2ManyLink|BasicLink|BasicStaticIndivEntryLink)::.*", r"mp::pre::NodeRange::(ExtendBy|TryExtendBy|ExtendableBy)",
          r"mp::ConstraintKeeper::AddAllUnbridged",
          r"mp::ProblemFlattener::(ConvertVars|Convert|ConvertAlgCon|ConvertLogicalCon)",
          r"mp::FlatConverter::(DoAddVar|AddVar|AddVars|MakeFixedVar|AddConstraint|AddConstraint_AS_ROOT|"
          r"AddConstraintAndTryNoteResultVariable|AutoLink|RunConversion|AddObjective|TurnOffAutoLinking|DoingAutoLinking|SetAutoLinkSource)"]
    d = export(U, fn=fn, enum=[r"mp::IISStatus"], repo=repo)
    cgd = export(U, callgraph=True, repo=repo)
    F = Facts([d])
    rep.note_units([U])
    funcs = [f for f in F.funcs if not f.is_dependent() and f.cfg is not None]
    rep.note_funcs(funcs)
    by_qn = {}
    for f in funcs:
        by_qn.setdefault(f.qn, []).append(f)

    def all_of(qn):
        if qn not in by_qn:
            raise AnalysisBroken("anchor %s not found" % qn)
        return by_qn[qn]

    def one(qn):
        return all_of(qn)[0]
    cg = cgd["callgraph"]
    callers_id, callers_qn, callees_of, qn_of = {}, {}, {}, {}
    for f_ in cg:
        qn_of[f_["id"]] = f_["qn"]
        for c in f_["callees"]:
            p = c.split("\t")
            if p[0].startswith("throw:"):
                continue
            callers_id.setdefault(p[0], set()).add(f_["id"])
            callers_qn.setdefault(p[1], set()).add(f_["qn"])
            callees_of.setdefault(f_["id"], set()).add((p[0], p[1]))

    def branch_facts(f, n):
        """branch facts at n that do not come from a loop's own condition"""
        out = []
        for cid, pol in f.cfg.facts_at(n):
            par = f.parent.get(cid)
            top = f.nodes[cid]
            while par is not None and par["k"] in ("ImplicitCastExpr", "ParenExpr", "ExprWithCleanups"):
                top, par = par, f.parent.get(par["i"])
            if par is not None and par["k"] in ("ForStmt", "WhileStmt", "DoStmt", "CXXForRangeStmt"):
                continue
            out.append((cid, pol))
        return out

    def calls(f, qn=None, name=None):
        return [c for c in f.walk() if c["k"] in ("CXXMemberCallExpr", "CallExpr") and
                (qn is None or c.get("callee") == qn) and (name is None or c.get("callee", "").split("::")[-1] == name)]

    # ---- P1 ---------------------------------------------------------------------------
    p1 = rep.rule("C04.P1", "PATH", "every transfer starts from clean nodes; presolve runs the chain forward, postsolve backward", floor=14)
    VP = "mp::pre::ValuePresolverImpl"
    for dirn in ("Presolve", "Postsolve"):
        for f in all_of("%s::Run%s" % (VP, dirn)):
            key = "Run%s|%s" % (dirn, f.full.split("<")[-1][:50])
            cl = calls(f, qn=VP + "::CleanUpValueNodes")
            asg = [n for n in f.walk() if n["k"] == "CXXOperatorCallExpr" and n.get("op") == "=" and
                   render(call_args(n)[0]) in ("src_", "dest_")]
            # the traversal of the link chain: a loop over brl_ (range-for, iterator or index form) or std::for_each over
            # brl_.begin()/end() resp. rbegin()/rend(); its body (or the lambda) applies the link function `fn`
            def applies_fn(nodes):
                return any(x["k"] == "BinaryOperator" and x.get("op") in (".*", "->*") for x in nodes) or \
                    any(x["k"] in ("CXXMemberCallExpr", "CallExpr") and x.get("indirect") for x in nodes)
            trav = []          # (anchor node, direction, applies fn)
            for n in f.walk():
                if n["k"] in ("ForStmt", "CXXForRangeStmt", "WhileStmt"):
                    body_nodes = list(walk([x for x in n.get("c", []) if x is not None][-1]))
                    head = " ".join(render(x) for x in n.get("c", [])[:-1] if x is not None)
                    if "brl_" not in " ".join(x.get("name", "") for x in walk(n) if x["k"] == "MemberExpr"):
                        continue
                    direction = "reverse" if ("rbegin" in head or "rend" in head or "--" in head) else "forward"
                    trav.append((n, direction, applies_fn(body_nodes) or bool([x for x in body_nodes if x["k"] in ("CXXMemberCallExpr", "CallExpr")])))
                elif n["k"] == "CallExpr" and (n.get("callee") or "").split("::")[-1] == "for_each" and len(call_args(n)) == 3:
                    a0, a1 = render(call_args(n)[0]).replace(" ", ""), render(call_args(n)[1]).replace(" ", "")
                    if "brl_" not in a0:
                        continue
                    direction = "reverse" if ("rbegin()" in a0 and "rend()" in a1) else "forward" if (a0.endswith(".begin()") and a1.endswith(".end()")) else "?"
                    lam = [g for g in F.funcs if g.qn == f.qn + "::(lambda)::operator()" and not g.is_dependent()]
                    trav.append((n, direction, any(applies_fn(list(g.walk())) or bool([x for x in g.walk() if x["k"] in ("CXXMemberCallExpr", "CallExpr", "CXXOperatorCallExpr")]) for g in lam)))
            want_target = "src_" if dirn == "Presolve" else "dest_"
            ok = len(cl) == 1 and len(asg) == 1 and len(trav) == 1 and render(call_args(asg[0])[0]) == want_target and \
                render(call_args(asg[0])[1]) == f.params[1]["name"] and f.cfg.dominates(cl[0], asg[0]) and trav[0][2] and \
                (f.cfg.dominates(asg[0], trav[0][0]) if trav[0][0]["k"] == "CallExpr" else
                 all(f.cfg.dominates(asg[0], x) for x in walk(trav[0][0].get("c", [None])[-1]) if x["k"] in ("CXXMemberCallExpr", "CallExpr")))
            p1.check(ok, key + "|clean-assign-loop", short_loc(f.loc), "CleanUpValueNodes(), then %s = values, then the link loop" % want_target,
                     "the nodes are not cleaned before `%s` is assigned and the links are run: values of an earlier transfer leak into this one" % want_target)
            rets = [r for r in f.walk() if r["k"] == "ReturnStmt"]
            want_ret = "dest_" if dirn == "Presolve" else "src_"
            p1.check(len(rets) == 1 and any(x.get("name") == want_ret for x in walk(rets[0])), key + "|returns", short_loc(f.loc),
                     "returns %s" % want_ret)
            if trav:
                okd = trav[0][1] == ("forward" if dirn == "Presolve" else "reverse")
                p1.check(okd, key + "|direction", short_loc(trav[0][0].get("l")), "%s order over brl_" % ("forward" if dirn == "Presolve" else "reverse"),
                         "the link chain is not traversed %s" % ("forward" if dirn == "Presolve" else "in reverse"))
    for k_ in KINDS:
        for dirn in ("Presolve", "Postsolve"):
            f = one("%s::%s%s" % (VP, dirn, k_))
            c = calls(f, name="Run" + dirn)
            ok = len(c) == 1 and any(x["k"] == "DeclRefExpr" and x.get("qn") == "mp::pre::BasicLink::%s%s" % (dirn, k_) for x in walk(call_args(c[0])[0]))
            p1.check(ok, "entry|%s%s" % (dirn, k_), short_loc(f.loc), "%s%s runs Run%s with BasicLink::%s%s" % (dirn, k_, dirn, dirn, k_),
                     "%s%s calls %s" % (dirn, k_, [render(x)[:60] for x in c]))
    ps = one("mp::pre::ValuePresolver::PostsolveSolution")
    base = calls(ps, qn=VP + "::PostsolveSolution")
    rets = [r for r in ps.walk() if r["k"] == "ReturnStmt"]
    p1.check(len(base) == 1 and len(rets) == 1 and any(x["i"] == base[0]["i"] for x in walk(rets[0])) and not ps.cfg.facts_at(rets[0]),
             "checker-then-base", short_loc(ps.loc), "PostsolveSolution always returns the base postsolve (the checker runs before, not instead)")

    # ---- G1 ---------------------------------------------------------------------------
    g1 = rep.rule("C04.G1", "GUARD", "every delivered item is linked from its origin", floor=20)
    for f in all_of("mp::ConstraintKeeper::AddAllUnbridged"):
        key = f.full.split("ConstraintKeeper<")[-1].split(">::AddAllUnbridged")[0].split(", ", 2)[-1][:90]
        ae = calls(f, name="AddEntry")
        ac = [c for c in calls(f, name="AddConstraint") if "ModelAPI" in c.get("callee", "") or "Backend" in render(kids(c)[0])]
        probs = []
        if len(ae) != 1 or len(ac) != 1:
            probs.append("%d AddEntry / %d AddConstraint" % (len(ae), len(ac)))
        else:
            fa, fb = f.cfg.facts_at(ae[0]), f.cfg.facts_at(ac[0])
            if fa != fb:
                probs.append("the copy link is registered under a different condition than the delivery")
            if not ae[0].get("callee", "").endswith("CopyLink::AddEntry"):
                probs.append("link type %s" % ae[0].get("callee"))
            sel = [c for c in walk(ae[0]) if c["k"] == "CXXMemberCallExpr" and c.get("callee", "").endswith("ValueNode::Select")]
            add = [c for c in walk(ae[0]) if c["k"] == "CXXMemberCallExpr" and c.get("callee", "").endswith("ValueNode::Add")]
            ecs_ = calls(f, name="ExportConStatus")
            posd_ = strip(call_args(ecs_[0])[0]).get("declId") if len(ecs_) == 1 and call_args(ecs_[0]) else None
            # the source position is the container's position: the variable that is also exported as the status record's index
            if len(sel) != 1 or "GetValueNode()" not in render(sel[0]) or not (render(call_args(sel[0])[0]) == "con_index" or
                                                                              (posd_ is not None and strip(call_args(sel[0])[0]).get("declId") == posd_)):
                probs.append("source is `%s`, expected this keeper's node Select(con_index)" % (render(sel[0])[:60] if sel else "?"))
            if len(add) != 1 or "GetTargetNodes().GetConValues()" not in render(add[0]).replace("GetConverter().GetValuePresolver().", "") or \
                    not ("con_group" in render(add[0]) or "GetConstraintGroup(" in render(add[0])):
                probs.append("target is `%s`, expected the target constraint node of the keeper's group .Add()" % (render(add[0])[:80] if add else "?"))
            # the position counts every container: the loop's own index, or a side counter stepped once on every way through the body
            if len(sel) == 1:
                pv_ = strip(call_args(sel[0])[0])
                lp_ = f.enclosing(ae[0], ("ForStmt", "WhileStmt", "DoStmt", "CXXForRangeStmt"))
                body_ = [x for x in lp_.get("c", []) if x is not None][-1] if lp_ is not None else None
                from ..cfg import loop_shape as _ls
                sh_ = _ls(f, lp_) if lp_ is not None and lp_["k"] in ("ForStmt", "WhileStmt") else None
                if sh_ is not None and sh_["var"] == pv_.get("declId") and sh_["stepped"]:
                    pass
                elif body_ is not None:
                    inner_ = {x["i"] for x in walk(body_)}
                    incs_ = [n for n in walk(body_) if n["k"] == "UnaryOperator" and n.get("op") == "++" and strip(kids(n)[0]).get("declId") == pv_.get("declId")]
                    conts_ = [n for n in walk(body_) if n["k"] == "ContinueStmt"]
                    if len(incs_) != 1 or [c_ for c_ in f.cfg.facts_at(incs_[0]) if c_[0] in inner_] or any(not f.cfg.dominates(incs_[0], c_) for c_ in conts_):
                        probs.append("the position `%s` is not advanced on every way through the loop body: constraints after a skipped one are linked from the wrong slot" % render(pv_))
            if sel and add:
                pair = [x for x in walk(ae[0]) if x["k"] in ("CXXConstructExpr",) and x.get("callee", "").startswith("std::pair")]
                if pair:
                    order = [("Select" if "Select(" in render(a) else "Add") for a in kids(pair[0])[:2]]
                    if order != ["Select", "Add"]:
                        probs.append("link entry is {target, source}")
        g1.check(not probs, "constraint|" + key, short_loc(f.loc), "delivered constraints are linked keeper node -> target group node", "; ".join(probs))
    cvv = one("mp::ProblemFlattener::ConvertVars")
    ae = calls(cvv, name="AddEntry")
    av = calls(cvv, name="AddVars")
    ok = len(ae) == 1 and len(av) == 1 and ae[0].get("callee", "").endswith("CopyLink::AddEntry") and cvv.cfg.dominates(av[0], ae[0]) and not branch_facts(cvv, ae[0])
    if ok:
        t = render(ae[0]).replace(" ", "")
        ok = "GetSourceNodes().GetVarValues().MakeSingleKey().Add(lbs.size())" in t and t.rstrip(")").rstrip("}").endswith("vnr") or "vnr" in t
        lb = [v for v in cvv.walk() if v["k"] == "VarDecl" and v.get("name") == "lbs"]
        ok = ok and lb and "num_vars()" in render(lb[0])
    g1.check(ok, "variables", short_loc(cvv.loc), "all NL variables: source node Add(n) -> the converter's node range returned by AddVars")
    cobj = [f for f in all_of("mp::ProblemFlattener::Convert") if f.params and "MutObjective" in (f.params[0].get("t") or "") + (f.params[0].get("ct") or "")]
    if not cobj:
        cobj = [f for f in all_of("mp::ProblemFlattener::Convert") if calls(f, name="AddObjective")]
    if not cobj:
        raise AnalysisBroken("ProblemFlattener::Convert(MutObjective) not found")
    co = cobj[0]
    ae = calls(co, name="AddEntry")
    sc = [v for v in co.walk() if v["k"] == "VarDecl" and "AutoLinkScope" in (v.get("ct") or "")]
    ao = calls(co, name="AddObjective")
    ok = len(ae) == 1 and len(sc) == 1 and len(ao) == 1 and co.cfg.dominates(ae[0], sc[0]) and co.cfg.dominates(sc[0], ao[0]) and not branch_facts(co, ae[0])
    t = render(ae[0]).replace(" ", "").replace("<default>", "") if ae else ""
    ok = ok and "obj_src" in t and "GetTargetNodes().GetObjValues()().Add()" in t
    src = [v for v in co.walk() if v["k"] == "VarDecl" and v.get("name") == "obj_src"]
    ok = ok and src and "GetSourceNodes().GetObjValues()().Add()" in render(src[0]).replace(" ", "").replace("<default>", "")
    g1.check(ok, "objective", short_loc(co.loc), "each objective: copy link source node -> target node, registered before the auto-link scope opens")

    # ---- W1 ---------------------------------------------------------------------------
    w1 = rep.rule("C04.W1", "WHO", "creation funnel: raw mutators only through AutoLink-returning converter functions; conversions open a scope", floor=8)
    FUNNEL = {"mp::FlatModel::AddVar__basic": {"mp::FlatConverter::DoAddVar"},
              "mp::FlatModel::AddVars__basic": {"mp::FlatConverter::AddVars"},
              "mp::ConstraintKeeper::AddConstraint": {"mp::FlatConverter::AddConstraintAndTryNoteResultVariable"},
              "mp::FlatConverter::AddConstraintAndTryNoteResultVariable": {"mp::FlatConverter::AddConstraint", "mp::FlatConverter::AssignResultVar2Args",
                                                                          "mp::FlatConverter::AssignResult2Args"},
              "mp::FlatModel::AddObjective": {"mp::FlatConverter::AddObjective"}}
    for callee, allowed in FUNNEL.items():
        got = callers_qn.get(callee, set()) - {callee}
        w1.check(bool(got) and got <= allowed, "callers|%s" % callee.replace("mp::", ""), "", "%s is called only from %s" % (callee, sorted(got)),
                 "%s is also called from %s: items created there are not registered with the active auto-link scope"
                 % (callee, sorted(got - allowed)) if got else "%s has no callers in the unit" % callee)
    for qn in ("mp::FlatConverter::DoAddVar", "mp::FlatConverter::AddVars", "mp::FlatConverter::AddConstraint"):
        for f in all_of(qn)[:3]:
            rets = [r for r in f.walk() if r["k"] == "ReturnStmt"]
            ok = bool(rets) and all(strip(kids(r)[0]).get("callee", "").endswith("::AutoLink") for r in rets)
            w1.check(ok, "returns-through-AutoLink|%s|%s" % (qn.split("::")[-1], f.full.split("AddConstraint<")[-1][:40] if "AddConstraint<" in f.full else ""),
                     short_loc(f.loc), "%s returns AutoLink(node range)" % qn.split("::")[-1],
                     "%s returns `%s` without registering the new item with the auto-link scope" % (qn.split("::")[-1], render(kids(rets[0])[0])[:60] if rets else "?"))
    mf = one("mp::FlatConverter::MakeFixedVar")
    rets = [r for r in mf.walk() if r["k"] == "ReturnStmt"]
    okm = len(rets) == 2 and sum(1 for r in rets if strip(kids(r)[0]).get("callee", "").endswith("::AutoLink")) == 1 and len(calls(mf, name="DoAddVar")) == 1
    w1.check(okm, "MakeFixedVar", short_loc(mf.loc), "an existing fixed variable is auto-linked; a new one is created through DoAddVar (which auto-links)")
    al = one("mp::FlatConverter::AutoLink")
    pb = calls(al, name="push_back") + calls(al, name="TryExtendBy")
    w1.check(len(pb) == 2 and all(any(render(al.nodes[cid]) == "DoingAutoLinking()" and pol is True for cid, pol in al.cfg.facts_at(c)) for c in pb),
             "AutoLink-records", short_loc(al.loc), "AutoLink records the node range in auto_link_targ_items_ whenever a scope is active")
    for qn in ("mp::FlatConverter::RunConversion", "mp::ProblemFlattener::ConvertAlgCon", "mp::ProblemFlattener::ConvertLogicalCon"):
        n = 0
        for f in all_of(qn):
            sc = [v for v in f.walk() if v["k"] == "VarDecl" and "AutoLinkScope" in (v.get("ct") or "")]
            disp = [c for c in f.walk() if c["k"] in ("CXXMemberCallExpr", "CallExpr") and c.get("callee", "").split("::")[-1] in
                    ("Convert", "Visit", "AddConstraint", "AddConstraint_AS_ROOT", "PropagateResult", "FixAsTrue", "PrepareAlgConstraint")]
            ok = len(sc) == 1 and bool(disp) and all(f.cfg.dominates(sc[0], c) for c in disp)
            n += 1
            if not ok or n == 1:
                w1.check(ok, "scope|%s|%s" % (qn.split("::")[-1], f.full[-40:] if n > 1 else ""), short_loc(f.loc),
                         "%s opens an AutoLinkScope before it creates or converts items (%d instantiation(s))" % (qn.split("::")[-1], len(all_of(qn))))
    als = one("mp::pre::AutoLinkScope::~AutoLinkScope")
    off = calls(als, name="TurnOffAutoLinking")
    adds = calls(als, name="AddEntry")
    okd = len(off) == 1 and als.cfg.path_avoiding(None, "exit", [off[0]["i"]], from_entry=True) is None and len(adds) == 2 and \
        all(als.cfg.dominates(a, off[0]) or not als.cfg.before(off[0], a) for a in adds)
    w1.check(okd, "scope-dtor", short_loc(als.loc), "the scope's destructor registers the links (copy link for 1:1, one-to-many otherwise) and always switches auto-linking off")
    # range conversion: switches auto-linking off and adds its own typed link
    for f in all_of("mp::RangeConstraintConverter::ConvertRange"):
        off = calls(f, name="TurnOffAutoLinking")
        ae = calls(f, name="AddEntry")
        av = calls(f, name="AddVar")
        acn = calls(f, name="AddConstraint")
        ok = len(off) == 1 and len(ae) == 1 and len(av) == 1 and len(acn) == 1 and f.cfg.dominates(off[0], av[0]) and \
            f.cfg.path_avoiding(None, "exit", [ae[0]["i"]], from_entry=True) is None
        if ok:
            il = [x for x in walk(ae[0]) if x["k"] == "InitListExpr" and len(kids(x)) == 3]
            names = [render(x) for x in kids(il[0])] if il else []
            ok = len(names) == 3 and names[0] == f.params[1]["name"] and names[1] == "i1" and names[2] == "slk"
            v1 = [v for v in f.walk() if v["k"] == "VarDecl" and v.get("name") == "i1"]
            vs = [v for v in f.walk() if v["k"] == "VarDecl" and v.get("name") == "slk"]
            ok = ok and v1 and vs and "AddConstraint" in render(v1[0]) and "AddVar" in render(vs[0])
        w1.check(ok, "range|%s" % f.full.split("RangeConstraintConverter<")[-1].split(">::")[0][-40:], short_loc(f.loc),
                 "ConvertRange links (source i, new equality, slack) on every path after turning auto-linking off")

    # ---- W2 ---------------------------------------------------------------------------
    w2 = rep.rule("C04.W2", "WHO", "auto-link scopes do not nest: no scope constructor is reachable from the body of a scope", floor=2)
    ctor_ids = {i for i, q in qn_of.items() if q == "mp::pre::AutoLinkScope::AutoLinkScope"}
    ctor_callee_ids = {cid for f_ in cg for (cid, q) in callees_of.get(f_["id"], set()) if q == "mp::pre::AutoLinkScope::AutoLinkScope"}
    openers = {i for i in qn_of if any(q == "mp::pre::AutoLinkScope::AutoLinkScope" for (_, q) in callees_of.get(i, set()))}
    if not openers:
        raise AnalysisBroken("C04.W2: no function opens an AutoLinkScope")
    # reachability (ids; a virtual call reaches the overriders of the named base method that are exported)
    over = {}
    for f in F.funcs:
        for b in f.d.get("overrides", []) or []:
            over.setdefault(b, set()).add(f.id)
    memo = {}

    def reach(start):
        seen, st = set(), [start]
        while st:
            x = st.pop()
            for (cid, q) in callees_of.get(x, set()):
                tgt = [cid] + list(over.get(q, ()))
                for t in tgt:
                    if t not in seen:
                        seen.add(t)
                        st.append(t)
        return seen
    nested = []
    for o in sorted(openers):
        r = reach(o)
        hit = sorted({qn_of[x] for x in r if x in openers})
        if hit:
            nested.append((qn_of[o], hit))
    seen_q = set()
    for o in sorted(openers):
        q = qn_of[o]
        if q in seen_q:
            continue
        seen_q.add(q)
        bad = [h for (oq, h) in nested if oq == q]
        w2.check(not bad, "opener|%s" % q.replace("mp::", ""), "", "%s: no other scope opener is reachable from it" % q,
                 "%s can reach %s while its own scope is active: the inner scope re-targets and then switches off the outer scope's "
                 "auto-linking" % (q, bad[0][:3] if bad else ""))
    rep.extra["scope_openers"] = len(openers)

    # ---- T1 ---------------------------------------------------------------------------
    t1 = rep.rule("C04.T1", "TABLE", "link classes: all value kinds in both directions, type-consistent lookups, basis reversal both ways", floor=30)
    for cls in ("mp::pre::CopyLink", "mp::pre::Many2ManyLink"):
        for k_ in KINDS:
            pre, post = by_qn.get("%s::Presolve%s" % (cls, k_)), by_qn.get("%s::Postsolve%s" % (cls, k_))
            ok = bool(pre) and bool(post)
            det = ""
            if ok:
                cp, cq = [c for c in calls(pre[0])], [c for c in calls(post[0])]
                fwd = {"mp::pre::CopyLink": ("CopySrcDest", "CopyDestSrc"), "mp::pre::Many2ManyLink": ("DistributeFromSrc2Dest", "CollectFromDest2Src")}[cls]
                ok = len(cp) == 1 and len(cq) == 1 and cp[0].get("callee", "").endswith("::" + fwd[0]) and cq[0].get("callee", "").endswith("::" + fwd[1])
                # same value type in both directions
                tp = (cp[0].get("calleeFull") or "").split("<")[-1] if ok else ""
                tq = (cq[0].get("calleeFull") or "").split("<")[-1] if ok else ""
                ok = ok and tp == tq
                det = "%s / %s <%s" % (fwd[0], fwd[1], tp)
            t1.check(ok, "%s|%s" % (cls.split("::")[-1], k_), short_loc(pre[0].loc) if pre else "", "Presolve%s/Postsolve%s: %s" % (k_, k_, det),
                     "%s lacks a consistent Presolve%s/Postsolve%s pair" % (cls, k_, k_))
    for g in all_of("mp::pre::CopyLink::CopySrcDest")[:1] + all_of("mp::pre::CopyLink::CopyDestSrc")[:1]:
        cp = calls(g, name="Copy")
        want = ["br.first", "br.second"] if g.name == "CopySrcDest" else ["br.second", "br.first"]
        # which member of the entry is the source and which the target - however the entry is reached (reference, iterator, index)
        gotm = [next((x.get("name") for x in walk(a) if x["k"] == "MemberExpr" and x.get("name") in ("first", "second")), render(a))
                for a in call_args(cp[0])] if len(cp) == 1 else []
        t1.check(len(cp) == 1 and gotm == [w.split(".")[1] for w in want], "CopyLink|%s|direction" % g.name, short_loc(g.loc),
                 "%s copies %s -> %s" % (g.name, want[0], want[1]))
    # typed range link
    for f in all_of("mp::RangeConstraintConverter::GetSlackLink"):
        body = f.full.split("RangeConstraintConverter<")[-1]
        body_t = "mp::QuadAndLinTerms" if "QuadAndLinTerms" in body.split(">::")[0] else "mp::LinTerms"
        me = [x for x in f.walk() if x["k"] == "MemberExpr" and x.get("name") == "link_rng2slk_"]
        rec = (me[0].get("ct") or "") if me else ""
        want = "mp::AlgebraicConstraint<%s, mp::AlgConRange>" % body_t
        t1.check(want in rec, "range-link-type|%s" % body_t.split("::")[-1], short_loc(f.loc),
                 "the converter of %s ranges owns a RangeCon2Slack typed on %s" % (body_t.split("::")[-1], want),
                 "the converter of %s ranges owns `%s`: GetConstraint<> in the link looks the source constraint up in another keeper" % (body_t.split("::")[-1], rec[-120:]))
    for f in all_of("mp::pre::RangeCon2Slack::PresolveSolutionEntry"):
        gc = [c for c in f.walk() if c["k"] == "CXXMemberCallExpr" and c.get("callee", "").endswith("::GetConstraint")]
        inst = f.full.split("RangeCon2Slack<")[-1]
        link_t = "QuadAndLinTerms" if "QuadAndLinTerms, mp::AlgConRange>>::" in inst or "QuadAndLinTerms, mp::AlgConRange> >::" in inst else "LinTerms"
        full = (gc[0].get("calleeFull") or "") if gc else ""
        got_t = "QuadAndLinTerms" if "QuadAndLinTerms" in full.split("GetConstraint<")[-1] else "LinTerms"
        t1.check(len(gc) == 1 and got_t == link_t and "CON_SRC" in render(gc[0]), "range-link-lookup|%s" % link_t, short_loc(f.loc),
                 "the start-solution presolve reads the source constraint be[CON_SRC] from the %s range keeper" % link_t)
    for f in all_of("mp::pre::RangeCon2Slack::PresolveBasisEntry")[:1] + all_of("mp::pre::RangeCon2Slack::PostsolveBasisEntry")[:1]:
        rv = calls(f, name="ReverseBasisLowUpp")
        t1.check(len(rv) == 1, "range-basis-reversal|%s" % f.name, short_loc(f.loc), "%s reverses low/upp between the row and its slack" % f.name)
    rb = one("mp::pre::RangeCon2Slack::ReverseBasisLowUpp")
    rr = [render(kids(r)[0]) for r in rb.walk() if r["k"] == "ReturnStmt"]
    t1.check(len(rr) == 3 and "upp" in rr[0] and "low" in rr[1] and rr[2] == rb.params[0]["name"], "range-basis-reversal|map", short_loc(rb.loc),
             "low -> upp, upp -> low, everything else unchanged", str(rr))
    for k_ in KINDS:
        for dirn in ("Presolve", "Postsolve"):
            t1.check(bool(by_qn.get("mp::pre::RangeCon2Slack::%s%sEntry" % (dirn, k_))), "RangeCon2Slack|%s%s" % (dirn, k_), "",
                     "RangeCon2Slack defines %s%sEntry" % (dirn, k_))

    # ---- T2 ---------------------------------------------------------------------------
    # ---- E1: a link entry's source and target ranges stay in step ---------------------------------
    e1 = rep.rule("C04.E1", "PATH", "when an entry is merged into the previous one, source and target ranges are extended together (copy link) or exactly one side under equality of the other (many-to-many)", floor=3)
    MUT = ("ExtendBy", "TryExtendBy")

    def side_of(c, f=None):
        o = (xrender(f, call_object(c)) if f is not None else render(call_object(c))).replace(" ", "")
        return "first" if o.endswith(".first") else "second" if o.endswith(".second") else None
    for f in all_of("mp::pre::CopyLink::AddEntry"):
        side_of_ = side_of
        side_of = lambda c, f_=f: side_of_(c, f_)
        mut = {"first": [], "second": []}
        for c in f.walk():
            if c["k"] == "CXXMemberCallExpr" and (c.get("callee") or "").split("::")[-1] in MUT and side_of(c):
                mut[side_of(c)].append(c)
        ok = bool(mut["first"]) and bool(mut["second"])
        why = "no range extension found"
        for a, b in (("first", "second"), ("second", "first")):
            for m in mut[a]:
                pos = f.cfg.position(m)
                if pos is None:
                    continue
                w = f.cfg.path_avoiding(pos, "exit", [x["i"] for x in mut[b]])
                dominated = any(f.cfg.dominates(x, m) and not f.cfg.path_avoiding(f.cfg.position(x), [m["i"]], []) is None for x in mut[b]) and \
                    all((x.get("callee") or "").endswith("::ExtendBy") for x in mut[b] if f.cfg.dominates(x, m))
                if w is not None and not dominated:
                    if ok:
                        why = "the %s range of the last entry can be extended on a path that leaves its %s range unchanged" % (a, b)
                    ok = False
        # both extensions only when both sides are extendable
        for m in mut["first"] + mut["second"]:
            if (m.get("callee") or "").endswith("::ExtendBy"):
                fa = norm_facts(f, m, loop_conditions=False)
                g1_ = any(t.endswith("first.ExtendableBy(be.first)") and p_ for t, p_ in fa)
                g2_ = any(t.endswith("second.ExtendableBy(be.second)") and p_ for t, p_ in fa)
                if not (g1_ and g2_):
                    ok = False
                    why = "ExtendBy is not guarded by the extendability of both ranges"
        side_of = side_of_
        e1.check(ok, "copy-link|AddEntry", short_loc(f.loc), "CopyLink::AddEntry extends both ranges of the last entry or neither",
                 "CopyLink::AddEntry: %s: the entry then maps k+1 source items onto k targets and every later value of that entry lands one item off" % why)
    for f in all_of("mp::pre::Many2ManyLink::AddEntry"):
        muts = [c for c in f.walk() if c["k"] == "CXXMemberCallExpr" and (c.get("callee") or "").split("::")[-1] in MUT and side_of(c)]
        ok = len(muts) == 2
        why = "%d extension calls" % len(muts)
        for m in muts:
            sd = side_of(m)
            other = "second" if sd == "first" else "first"
            fa = [(render(f.nodes[cid]).replace(" ", ""), pol) for cid, pol in f.cfg.facts_at(m)]
            if not any(("back()." + other + "==be." + other) in t and pol for t, pol in fa):
                ok = False
                why = "the %s range is extended without the %s ranges being equal" % (sd, other)
            if render(call_args(m)[0]).replace(" ", "") != "be." + sd:
                ok = False
                why = "the %s range is extended by %s" % (sd, render(call_args(m)[0]))
        e1.check(ok, "many2many|AddEntry", short_loc(f.loc), "Many2ManyLink::AddEntry extends one side only when the other sides are equal", why)
    for f in all_of("mp::pre::NodeRange::TryExtendBy")[:1]:
        ex = calls(f, name="ExtendBy")
        okt = len(ex) == 1 and any("ExtendableBy(nr)" in render(f.nodes[cid]) and pol is True for cid, pol in f.cfg.facts_at(ex[0])) or \
            (len(ex) == 1 and any("ExtendableBy(nr)" in render(f.nodes[cid]) for cid, pol in f.cfg.facts_at(ex[0])))
        e1.check(okt, "try-extend", short_loc(f.loc), "TryExtendBy extends only when ExtendableBy holds")
    for f in all_of("mp::pre::NodeRange::ExtendableBy")[:1]:
        r = [x for x in f.walk() if x["k"] == "ReturnStmt"]
        t = render(kids(r[0])[0]).replace(" ", "") if len(r) == 1 else ""
        e1.check("pvn_==nr.pvn_" in t and "ir_.end_==nr.ir_.beg_" in t and "&&" in t, "extendable", short_loc(f.loc), "extendable = same node and contiguous (end == next begin)")

    # ---- T3: IIS status of a range constraint converted to equality + slack ---------------------------
    t3 = rep.rule("C04.T3", "TABLE", "IIS postsolve of range -> equality+slack: exactly one status reaches the range (the slack's, reversed low<->upp, if the slack is flagged; else the row's)", floor=2)
    for f in all_of("mp::pre::RangeCon2Slack::PostsolveIISEntry")[:2]:
        tag = "Quad" if "QuadAndLinTerms" in f.full else "Lin"
        # case evaluation (the reversal may live in the function or in a helper): the status written to the range as a
        # function of the slack status s and the row status r
        ev = F.enum_values("mp::IISStatus") or {}
        low, upp, fix = ev.get("low"), ev.get("upp"), ev.get("fix")
        if None in (low, upp, fix):
            raise AnalysisBroken("C04.T3: enum mp::IISStatus not found")
        ROW = 7777
        table, writes_per_case = {}, {}
        other = max(ev.values()) + 11
        for s_ in (0, low, upp, fix, other):
            written = []

            def atom(t, n, env, s_=s_, written=written):
                if n["k"] in ("CallExpr", "CXXMemberCallExpr"):
                    nm_ = (n.get("callee") or "").split("::")[-1]
                    a_ = [render(x).replace(" ", "") for x in call_args(n)]
                    if nm_ == "GetInt" and len(a_) == 2:
                        return s_ if a_[1].endswith("VAR_SLK") else ROW if a_[1].endswith("CON_TARGET") else None
                    if nm_ == "SetInt" and len(a_) == 3:
                        written.append((a_[1].split("::")[-1], mi.expr(call_args(n)[2], env)))
                        return 0
                return None
            mi = MiniInt(F, atom)
            try:
                mi.run(kids(f.body), {})
                res = "none"
            except CaseThrow:
                res = "throw"
            except Exception as e:
                if e.__class__.__name__ == "_CaseReturn":
                    res = "none"
                else:
                    raise
            w_ = [v for k_, v in written if k_ == "CON_SRC"]
            writes_per_case[s_] = len(w_)
            table[s_] = "throw" if res == "throw" and not w_ else (w_[-1] if w_ else "nothing")
        want_tab = {0: ROW, low: upp, upp: low, fix: fix, other: "throw"}
        ok = table == want_tab and all(writes_per_case[k_] == (0 if want_tab[k_] == "throw" else 1) for k_ in want_tab)
        names_ = {v: k for k, v in ev.items()}
        show = {names_.get(k_, "row-only" if k_ == 0 else "other"): ("row status" if v == ROW else names_.get(v, v)) for k_, v in table.items()}
        t3.check(ok, "one-status|" + tag, short_loc(f.loc), "exactly one of {reversed slack status, row status} is written, on every path",
                 "status written to the range by slack status: %s (writes per case %s)" % (show, writes_per_case))
        t3.check(table.get(low) == upp and table.get(upp) == low and table.get(fix) == fix and table.get(other) == "throw", "reversal|" + tag, short_loc(f.loc),
                 "slack low -> range upp, upp -> low, fix -> fix, anything else is refused", str(show))

    t2 = rep.rule("C04.T2", "GUARD", "node sizing: vectors are brought to the declared size before they are indexed", floor=6)
    for f in all_of("mp::pre::ValueNode::operator="):
        rs = calls(f, name="resize")
        mv = [n for n in f.walk() if n["k"] == "CXXOperatorCallExpr" and n.get("op") == "=" and render(call_args(n)[0]) in ("vi_", "vd_", "vStr_")]
        ok = len(rs) == 1 and len(mv) == 1 and render(call_args(rs[0])[0]) == "Size()" and render(call_object(rs[0])) == render(call_args(mv[0])[0]) and \
            f.cfg.dominates(mv[0], rs[0]) and not f.cfg.facts_at(rs[0])
        t2.check(ok, "assign-resizes|%s" % (f.params[0].get("t") or "")[:30], short_loc(f.loc), "operator= takes the vector and resizes it to Size()",
                 "operator= does not bring the received vector to the node's declared size: a shorter solver answer leaves items without a slot")
    for f in all_of("mp::pre::ValueNode::SetNum") + all_of("mp::pre::ValueNode::SetStr"):
        idx = [n for n in f.walk() if n["k"] == "CXXOperatorCallExpr" and n.get("op") == "[]"]
        rs = calls(f, name="resize")
        ok = len(rs) == 1 and render(call_args(rs[0])[0]) == "Size()" and bool(idx)
        if ok:
            g = [(render(f.nodes[cid]).replace(" ", ""), pol) for cid, pol in f.cfg.facts_at(rs[0])]
            ok = any(t.endswith(".size()<=i") and pol is True for t, pol in g) and all(not f.cfg.before(i_, rs[0]) for i_ in idx)
        t2.check(ok, "setter-resizes|%s|%s" % (f.name, f.full.split("<")[-1][:30]), short_loc(f.loc), "%s grows the vector to Size() before writing element i" % f.name)
    # the merge rule of SetNum, evaluated on (stored, incoming) pairs: an empty slot (0) takes any incoming value; a filled one
    # only a larger non-zero value - so negative values (duals, flags) arrive and the order of propagations does not matter
    for f in all_of("mp::pre::ValueNode::SetNum")[:2]:
        bad = []
        for old_ in (-2.0, -1.0, 0.0, 1.0, 3.0):
            for v_ in (-3.0, -1.0, 0.0, 1.0, 2.0, 5.0):
                cell = {"v": old_}

                def atom(t_, n_, env_):
                    if n_["k"] == "CXXOperatorCallExpr" and n_.get("op") == "[]":
                        return cell["v"]
                    if n_["k"] == "CXXMemberCallExpr" and (n_.get("callee") or "").split("::")[-1] == "size":
                        return 10
                    if n_["k"] == "CXXMemberCallExpr" and (n_.get("callee") or "").split("::")[-1] in ("Size", "resize"):
                        return 10
                    return None

                def store(t_, n_, val, env_):
                    if n_["k"] == "CXXOperatorCallExpr" and n_.get("op") == "[]":
                        cell["v"] = val
                        return True
                    return False
                mi = MiniInt(F, atom)
                mi.store = store
                try:
                    mi.call(f, [("obj", None, None), 3, v_])
                except AnalysisBroken as e_:
                    if "without a return" not in str(e_):
                        raise AnalysisBroken("C04.T2: SetNum: %s" % e_)
                want = v_ if old_ == 0.0 else (v_ if (v_ > old_ and v_ != 0.0) else old_)
                if cell["v"] != want:
                    bad.append((old_, v_, cell["v"], want))
        t2.check(not bad, "setnum-merge|%s" % f.full.split("<")[-1][:30], short_loc(f.loc), "30 (stored, incoming) pairs: 0 is overwritten by any value, a non-zero value only by a larger non-zero one",
                 "(stored, incoming, result, expected) = %s: values are lost on the way through a non-copy link (a negative dual or flag arriving at an empty slot is replaced by 0)" % bad[:3])
    cu = one("mp::pre::ValueNode::CleanUpAndRealloc")
    rs = calls(cu, name="resize")
    cl = calls(cu, name="clear")
    okcu = len(rs) == 2 and len(cl) == 2 and all(render(call_args(r)[0]) == "Size()" for r in rs) and \
        all(cu.cfg.dominates(c, r) for c in cl for r in rs if render(call_object(c)) == render(call_object(r)))
    if not okcu:
        # the same effect in one call: v.assign(Size(), 0) for both numeric vectors, unconditionally
        asg_ = calls(cu, name="assign")
        objs_ = sorted(render(call_object(a_)).replace("this->", "") for a_ in asg_)
        okcu = objs_ == ["vd_", "vi_"] and not rs and not cl and all(
            len(call_args(a_)) == 2 and xrender(cu, call_args(a_)[0], True).replace("this->", "").replace(" ", "") == "Size()" and cv(call_args(a_)[1]) == 0 and
            not cu.cfg.facts_at(a_) for a_ in asg_)
    t2.check(okcu, "cleanup", short_loc(cu.loc), "CleanUpAndRealloc clears and re-sizes both numeric vectors to Size()")
    cvn = one(VP + "::CleanUpValueNodes")
    t2.check(len(calls(cvn, name="CleanUpAndRealloc")) == 1 and any(n["k"] == "CXXForRangeStmt" for n in cvn.walk()), "cleanup-all-nodes", short_loc(cvn.loc),
             "CleanUpValueNodes visits every registered node")
    # ---- S1: which vectors of the postsolved solution are reported ----------------------------------------------------
    s1 = rep.rule("C04.S1", "GUARD", "FlatBackend::GetSolution reports the postsolved primal vector iff the solver returned primal values and the "
                  "postsolved dual vector iff it returned duals", floor=2)
    Fb = Facts(export_many([dict(unit="solvers/visitor/visitorbackend.cc", fn=[r"mp::FlatBackend::GetSolution"], repo=repo)]))
    gs = [g for g in Fb.funcs if g.qn == "mp::FlatBackend::GetSolution" and not g.is_dependent() and g.cfg is not None]
    if not gs:
        raise AnalysisBroken("C04.S1: FlatBackend::GetSolution not instantiated in the visitor backend")
    g = gs[0]
    src = {}          # declId of a local holding the solver's answer -> "primal" / "dual"
    out = {}          # declId of a local holding a postsolved vector -> "primal" / "dual"
    for v in g.walk():
        if v["k"] == "VarDecl" and kids(v):
            t_ = render(kids(v)[0]).replace(" ", "")
            if "PostsolveSolution" in t_:
                continue
            if t_.endswith("PrimalSolution()"):
                src[v["declId"]] = "primal"
            elif t_.endswith("DualSolution()"):
                src[v["declId"]] = "dual"
            elif "GetVarValues()" in t_:
                out[v["declId"]] = "primal"
            elif "GetConValues()" in t_:
                out[v["declId"]] = "dual"
    for which in ("primal", "dual"):
        outs = [d for d, w in out.items() if w == which]
        srcs = [d for d, w in src.items() if w == which]
        clears = [c for c in g.walk() if c["k"] == "CXXMemberCallExpr" and (c.get("callee") or "").split("::")[-1] == "clear" and
                  strip(call_object(c)).get("declId") in outs]
        ok = len(outs) == 1 and len(srcs) == 1 and len(clears) == 1
        why = "%d postsolved / %d solver / %d clear()" % (len(outs), len(srcs), len(clears))
        if ok:
            fa = sorted(g.cfg.facts_at(clears[0]), key=lambda x_: str(x_))
            ok = len(fa) == 1 and fa[0][1] is True
            why = "the %s vector is cleared under %d condition(s)" % (which, len(fa))
            if ok:
                cn = strip(g.nodes[fa[0][0]])
                subj = strip(call_object(cn)) if cn["k"] == "CXXMemberCallExpr" and (cn.get("callee") or "").split("::")[-1] in ("empty", "Empty") else None
                ok = subj is not None and subj.get("declId") == srcs[0]
                why = "the postsolved %s vector is dropped when `%s` holds, not when the solver returned no %s values" % (which, render(cn), which)
        s1.check(ok, "reported-iff-returned|%s" % which, short_loc(g.loc), "the postsolved %s vector is dropped exactly when the solver returned none" % which,
                 "%s: values the solver returned do not reach the original items (or zeros are reported as values)" % why)
    return rep
