"""C02 - the NL reader is total, memory-safe and reports only validated data.

Structural clauses decided (DESIGN 4/C02):
F1 every index handed to a handler callback is provably inside the declared
   range (symbolic range analysis with the reader's own checks as facts);
F2 every announced count is the trip count of the delivery loop;
Y1 Begin*/End* notifications are paired on every normal path;
S1 text cursor: every advance of ptr_ is guarded by a NUL/'\\n' test; every
   ReadChar() result that may be the terminating NUL leads to an error or the
   EOF return before any further read;
G1 binary cursor: ptr_ only advances in Read(length) after the length test;
N1 ReportError never returns (the facts above rely on it);
U1 file-provided doubles are not converted to integers without a range check;
R0 raw ReadUInt results are non-negative;
T1 suffix item counts of reader and problem builder agree;
G2 the file path appends the NUL sentinel / both paths pass the same size;
W2 input-driven recursion is bounded.
"""
import re
from ..linrel import Lin, GE, LE, GT, LT, entails, infeasible
from ..symrange import SymRange, INT_MAX
from ..cfg import expand_locals as _expand, Facts, kids, strip, walk, cv, render, short_loc, call_args, TRANSPARENT
from ..facts import export_many, AnalysisBroken
from .. import units

LEVEL = "other"
TECHNIQUE = ("static analysis: symbolic range analysis of every index/count passed to a handler "
             "callback (linear constraints from the reader's own dominating checks, callee "
             "summaries, caller substitution), sentinel-scan and typestate rules over the CFG, "
             "call-graph rule for recursion")
LEVEL_TEXT = ("Decides, for every path of every analysed NLReader instantiation, that each index "
              "reaching a callback is inside the range the header declared, that counts match "
              "delivery loops, that notifications nest, and that neither cursor can pass its "
              "sentinel. It does not prove absence of every undefined behaviour nor termination.")
LEVEL_NOTE = ("Trusted: clang 14 front end/CFG, tool/mpx.cc, mpsa/symrange.py + linrel.py. The "
              "handler is an arbitrary type: only what the reader passes to it is decided.")
DESIGN_REF = "DESIGN.md section 4, C02"
EXPLANATION = (
    "Structural clauses of C02 decided for all inputs: each argument of a handler callback that "
    "is an item index (variables, algebraic/logical constraints, objectives, functions, common "
    "expressions, suffix items) is shown by linear entailment to lie in [0, declared count), "
    "using only facts the reader itself establishes (range-checked reads, comparisons, loop "
    "bounds) and the fact that ReportError never returns; announced counts equal loop trip "
    "counts; Begin/End pair; the text cursor never advances past NUL/newline sentinels and a NUL "
    "returned by ReadChar is never followed by another read; the binary cursor advances only "
    "under the remaining-length test; file-provided doubles are range-checked before integer "
    "conversion; builder and reader agree on suffix item counts; the copy path of the file "
    "reader appends the sentinel. Not decided: absence of all UB, termination, file/mmap "
    "equivalence at run time.")
ASSUMPTIONS = ["the data passed to the reader is NUL-terminated at data[size] (NLStringRef contract; "
               "checked for the file reader by G2)",
               "handler callbacks do not modify the reader"]
TRUSTED = ["clang 14 front end + CFG builder", "tool/mpx.cc", "mpsa/symrange.py", "mpsa/linrel.py",
           "mpsa/rules/C02.py"]

NLR = "mp::internal::NLReader"
HEADER_FIELDS = ("num_vars", "num_algebraic_cons", "num_logical_cons", "num_objs", "num_funcs",
                 "num_common_exprs_in_both", "num_common_exprs_in_cons", "num_common_exprs_in_objs",
                 "num_common_exprs_in_single_cons", "num_common_exprs_in_single_objs",
                 "num_ranges", "num_eqns", "num_nl_cons", "num_nl_objs")
CE_FIELDS = HEADER_FIELDS[5:10]

V = Lin.var
NV, NAC, NLC, NO, NF, NVE = V("num_vars"), V("num_algebraic_cons"), V("num_logical_cons"), \
    V("num_objs"), V("num_funcs"), V("nve")
NCE = NVE - NV

# callback -> {argument position: exclusive upper bound}   (DESIGN appendix A.2)
TABLE = {
    "OnVarBounds": {0: NV}, "OnInitialValue": {0: NV}, "OnVariableRef": {0: NV},
    "OnConBounds": {0: NAC}, "OnAlgebraicCon": {0: NAC}, "OnInitialDualValue": {0: NAC},
    "OnLinearConExpr": {0: NAC}, "OnComplementarity": {0: NAC, 1: NV},
    "OnLogicalCon": {0: NLC},
    "NeedObj": {0: NO}, "resulting_obj_index": {0: NO},
    "OnFunction": {0: NF}, "BeginCall": {0: NF},
    "BeginCommonExpr": {0: NCE}, "EndCommonExpr": {0: NCE}, "OnCommonExprRef": {0: NCE},
    "AddTerm": {0: NV},
}
# objective callbacks receive resulting_obj_index(i): checked as a shape (and by C12)
OBJ_CALLBACKS = {"OnObj": 0, "OnLinearObjExpr": 0}
SUFFIX_ITEMS = {"VarHandler": NV, "ConHandler": NAC + NLC, "ObjHandler": NO, "ProblemHandler": Lin.const(1)}
CURSOR_READS = ("ReadChar", "ReadUInt", "ReadInt", "ReadDouble", "ReadString", "ReadName",
                "ReadTillEndOfLine", "ReadOptionalUInt", "ReadOptionalDouble", "ReadOptionalInt")


def member_symbol(e):
    n = e.get("name")
    if n in HEADER_FIELDS and "NLHeader" in (e.get("qn", "") + "|" + _base_type(e)) or \
            (n in HEADER_FIELDS and e.get("qn", "").startswith("NLProblemInfo_C")):
        return n
    if n == "num_vars_and_exprs_":
        return "nve"
    return None


def _base_type(e):
    b = kids(e)[0] if kids(e) else None
    return (b or {}).get("t", "")


def is_report_error(n):
    return n.get("callee", "").split("::")[-1] in ("ReportError", "DoReportError")


def raw_read(n):
    cal = n.get("callee", "")
    last = cal.split("::")[-1]
    if not re.match(r"mp::internal::(TextReader|BinaryReader|BinaryReaderBase|ReaderBase)::", cal):
        return None
    if last == "ReadUInt" and not call_args(n):
        return Lin.const(0), Lin.const(INT_MAX)
    if last == "ReadInt":
        return Lin.const(-(1 << 31)), Lin.const(INT_MAX)
    return None


def handler_call(f, n):
    """method name if n is a call on the NL handler object (handler_, or a local
    alias of it)"""
    if n["k"] != "CXXMemberCallExpr":
        return None
    me = strip(kids(n)[0])
    obj = strip(kids(me)[0]) if kids(me) else None
    if obj is None:
        return None
    if obj["k"] == "MemberExpr" and obj.get("name") == "handler_":
        return me.get("name")
    if obj["k"] == "DeclRefExpr":
        vd = [v for v in f.walk() if v["k"] == "VarDecl" and v.get("declId") == obj.get("declId")]
        if vd and kids(vd[0]):
            i = strip(kids(vd[0])[0])
            if i["k"] == "MemberExpr" and i.get("name") == "handler_":
                return me.get("name")
        # linear / suffix handler objects passed as parameters
        if me.get("name") in ("AddTerm", "SetValue") and obj.get("dk") in ("Parm", "Var"):
            return me.get("name")
    return None


def run(rep, ctx):
    repo = ctx["repo"]
    fn = [NLR + r"::.*", r"mp::internal::(TextReader|BinaryReader|BinaryReaderBase|ReaderBase)::.*",
          r"mp::internal::NLFileReader::.*", r"mp::internal::ReadBinary", r"mp::ReadNLString",
          r"mp::internal::VarBoundHandler::.*", r"mp::BasicProblem::(GetSuffixSize|SetInfo)"]
    jobs = [dict(unit="src/problem.cc", fn=fn, repo=repo,
                 rec=[r"mp::NLHeader", r"NLProblemInfo_C", r"NLInfo_C"]),
            dict(unit="src/nl-reader.cc", fn=fn, repo=repo, closure=1, closure_roots=r"TextReader::ReadHeader$")]
    if ctx["tier"] == "thorough":
        for u in ("test/nl-reader-test.cc", "examples/nl-reader-example.cc",
                  "solvers/visitor/model-mgr-with-std-pb.cc", "test/problem-test.cc"):
            jobs.append(dict(unit=u, fn=fn, repo=repo))
    F = Facts(export_many(jobs))
    F.by_id = {}
    for f in F.funcs:
        if not f.is_dependent():
            F.by_id.setdefault(f.id, f)
    rep.note_units([j["unit"] for j in jobs])
    funcs = [f for f in F.funcs if not f.is_dependent() and f.cfg is not None]
    rep.note_funcs(funcs)
    nlr = [f for f in funcs if f.qn.startswith(NLR + "::")]
    if not nlr:
        raise AnalysisBroken("no NLReader instantiation found")

    # ---- N1: ReportError never returns ---------------------------------------------
    n1 = rep.rule("C02.N1", "PATH", "every ReportError/DoReportError of the readers throws on all paths",
                  floor=3)
    noret = set()
    errs = [f for f in funcs if f.name in ("ReportError", "DoReportError") and
            re.match(r"mp::internal::(TextReader|BinaryReaderBase|BinaryReader|ReaderBase)::", f.qn)]
    pending = list(errs)
    for _ in range(4):
        for f in list(pending):
            stops = [n["i"] for n in f.walk() if n["k"] == "CXXThrowExpr" or
                     (n["k"] in ("CXXMemberCallExpr", "CallExpr") and n.get("calleeId") in noret)]
            if stops and f.cfg.path_avoiding(None, "exit", stops, from_entry=True) is None:
                noret.add(f.id)
                pending.remove(f)
    seen = set()
    for f in errs:
        key = "%s|%s" % (f.qn, f.d.get("sig"))
        if (key, f.loc) in seen:
            continue
        seen.add((key, f.loc))
        n1.check(f.id in noret, key, short_loc(f.loc),
                 "%s ends in a throw on every path" % f.full,
                 "%s can return normally: checks of the form `if (bad) ReportError(...)` would "
                 "fall through with the unvalidated value" % f.full)

    def is_noreturn(n):
        if n.get("calleeId") in noret:
            return True
        # variadic wrappers / other instantiations not exported: by name on a reader object
        return is_report_error(n) and re.match(r"mp::internal::(TextReader|BinaryReader)", n.get("callee", "")) is not None \
            and n.get("calleeId") not in F.by_id

    SR = SymRange(F, member_symbol, is_noreturn, raw_read)
    for s in HEADER_FIELDS:
        SR.cons.append(GE(V(s), Lin.const(0)))
        SR.cons.append(LE(V(s), Lin.const(INT_MAX)))
    SR.cons += [GE(NVE, NV), LE(NVE, Lin.const(INT_MAX))]

    # ---- F1 -----------------------------------------------------------------------------
    f1 = rep.rule("C02.F1", "FLOW",
                  "every item index passed to a handler callback is entailed to be in [0, declared "
                  "count) by the reader's own checks", floor=25)
    callers_of = {}
    for g in nlr:
        for c in g.walk():
            if c["k"] in ("CXXMemberCallExpr", "CallExpr") and c.get("calleeId"):
                callers_of.setdefault(c["calleeId"], []).append((g, c))
    seen = set()
    sites = 0
    reach = {}
    for g in nlr:
        for c in g.walk():
            m = handler_call(g, c)
            if m is None:
                continue
            spec = TABLE.get(m)
            args = call_args(c)
            if m in OBJ_CALLBACKS:
                a = strip(_expand(g, args[OBJ_CALLBACKS[m]], 0, True))        # a naming local is looked through
                shape = a["k"] == "CXXMemberCallExpr" and a.get("callee", "").endswith("::resulting_obj_index")
                key = "%s|%s|resulting-index" % (short_fn(g), m)
                if (key, c.get("l")) not in seen:
                    seen.add((key, c.get("l")))
                    f1.check(shape, key, short_loc(c.get("l")),
                             "%s receives resulting_obj_index(<checked index>)" % m,
                             "%s receives `%s`, not resulting_obj_index(index)" % (m, render(a)))
                continue
            if m == "SetValue":
                spec = {0: None}
            if spec is None:
                continue
            for pos, bound in spec.items():
                if pos >= len(args):
                    continue
                sites += 1
                key = "%s|%s|arg%d" % (short_fn(g), m, pos)
                if (key, c.get("l"), g.full.split(">::")[0][:80]) in seen:
                    continue
                seen.add((key, c.get("l"), g.full.split(">::")[0][:80]))
                ok, why = prove_in_range(SR, F, g, c, args[pos], bound, callers_of, m)
                inst = reader_kind(g)
                reach.setdefault((m, pos, inst), False)
                if ok and "unreachable" not in why:
                    reach[(m, pos, inst)] = True
                f1.check(ok, "%s|%s" % (key, inst), short_loc(c.get("l")),
                         "%s(%s): %s" % (m, render(args[pos]), why), "%s(%s): %s" % (m, render(args[pos]), why))
    rep.extra["callback_argument_sites"] = sites
    for (m, pos, inst), r in sorted(reach.items()):
        if not r and not any(i["key"].startswith("%s" % "") and ("|%s|arg%d|%s" % (m, pos, inst)) in i["key"] and not i["ok"]
                             for i in f1.instances):
            f1.fail("reachable|%s|arg%d|%s" % (m, pos, inst), "include/mp/nl-reader.h",
                    "no reachable call site of %s proves its argument %d (all sites vacuous)" % (m, pos))

    count_rules(rep, F, nlr, SR)
    suffix_and_file_rules(rep, F, funcs, nlr, SR, callers_of)
    recursion_rule(rep, F, nlr)
    text_rules(rep, F, funcs, is_noreturn)
    binary_rules(rep, F, funcs, is_noreturn, SR)
    conversion_rules(rep, F, funcs, is_noreturn)
    return rep


PTR = "mp::internal::ReaderBase::ptr_"

# announcing callback -> (position of the count argument, delivery method, extra deliveries
#                          made by the announcement itself)
ANNOUNCE = {
    "BeginCall": (1, "AddArg", 0), "BeginVarArg": (1, "AddArg", 0), "BeginSum": (0, "AddArg", 0),
    "BeginCount": (0, "AddArg", 0), "BeginNumberOf": (0, "AddArg", 1),
    "BeginSymbolicNumberOf": (0, "AddArg", 1), "BeginIteratedLogical": (1, "AddArg", 0),
    "BeginPairwise": (1, "AddArg", 0), "BeginPLTerm": (0, "AddBreakpoint", 0),
    "OnLinearObjExpr": (1, "AddTerm", 0), "OnLinearConExpr": (1, "AddTerm", 0),
    "OnLinearExpr": (1, "AddTerm", 0),
    "BeginCommonExpr": (1, "AddTerm", 0),
    "OnIntSuffix": (2, "SetValue", 0), "OnDblSuffix": (2, "SetValue", 0),
}
END_OF = {"BeginCall": "EndCall", "BeginVarArg": "EndVarArg", "BeginSum": "EndSum",
          "BeginCount": "EndCount", "BeginNumberOf": "EndNumberOf",
          "BeginSymbolicNumberOf": "EndSymbolicNumberOf",
          "BeginIteratedLogical": "EndIteratedLogical", "BeginPairwise": "EndPairwise",
          "BeginPLTerm": "EndPLTerm", "BeginCommonExpr": "EndCommonExpr"}
FORWARDERS = ("ReadArgs", "DoReadArgs", "ReadLinearExpr", "ReadSuffixValues")


def root_decl(a):
    """declId of the variable an argument expression denotes (through casts and
    copy constructions)."""
    a = strip(a)
    for _ in range(6):
        if a is None:
            return None
        if a["k"] in ("DeclRefExpr",):
            return a.get("declId")
        if a["k"] in ("CXXConstructExpr", "CXXFunctionalCastExpr", "CXXTemporaryObjectExpr"):
            ks = [x for x in kids(a) if x["k"] != "CXXDefaultArgExpr"]
            if len(ks) != 1:
                return None
            a = strip(ks[0])
            continue
        return None
    return None


def loop_trip(SR, g, n, env=None, outer=None):
    """Lin trip count of the innermost canonical for-loop enclosing n (None if n
    is not in a loop, False if the loop is not canonical)."""
    lp = g.enclosing(n, ("ForStmt", "WhileStmt", "DoStmt"))
    while lp is not None and outer and lp["i"] in outer:
        lp = None       # loops that also enclose the announcement are the same iteration
    if lp is None:
        return None
    up = g.enclosing(lp, ("ForStmt", "WhileStmt", "DoStmt"))
    nested_ok = up is None or (outer and up["i"] in outer)
    from ..cfg import loop_shape as _ls
    sh = _ls(g, lp)
    if sh is not None and sh["stepped"] and nested_ok:
        cons = []
        if sh["dir"] == "up" and sh["rel"] == "<" and sh["start"] is not None and cv(sh["start"]) == 0:
            return SR.value(g, sh["bound"], env or {}, cons)
        if sh["dir"] == "down" and sh["rel"] in (">0", "--"):
            if sh["bound"] is not None:
                return SR.value(g, sh["bound"], env or {}, cons)
            # a by-value parameter counted down: its incoming value is the trip count
            if (env or {}).get(sh["var"]) is not None and not [w for w in g.walk() if w["k"] == "BinaryOperator" and w.get("op") == "=" and
                                                              strip(kids(w)[0]).get("declId") == sh["var"]]:
                return env[sh["var"]]
    if lp["k"] != "ForStmt":
        return False
    lk = lp.get("c", [])
    init, cond, inc, body = lk[0], lk[2], lk[3], lk[4]
    vds = [v for v in walk(init) if v["k"] == "VarDecl"] if init else []
    c = strip(cond) if cond else None
    i_ = strip(inc) if inc else None
    if len(vds) != 1 or c is None or i_ is None or c["k"] != "BinaryOperator" or c["op"] != "<" \
            or i_["k"] != "UnaryOperator" or i_.get("op") != "++":
        return False
    d = vds[0]["declId"]
    if strip(kids(c)[0]).get("declId") != d or strip(kids(i_)[0]).get("declId") != d or \
            cv(kids(vds[0])[0]) != 0:
        return False
    if any(SR._writes(w, d) for w in walk(body)):
        return False
    up = g.enclosing(lp, ("ForStmt", "WhileStmt", "DoStmt"))
    if up is not None and not (outer and up["i"] in outer):
        return False
    cons = []
    return SR.value(g, kids(c)[1], env or {}, cons)


def deliveries(SR, F, g, hv, method, depth=0, outer=None):
    """Lin number of `method` calls made on handler object hv (declId) in g;
    parameters of g appear as symbols par:<declId>."""
    total = Lin.const(0)
    penv = {p["declId"]: Lin.var("par:" + p["declId"]) for p in g.params}
    for n in g.walk():
        if n["k"] != "CXXMemberCallExpr":
            continue
        me = strip(kids(n)[0])
        obj = strip(kids(me)[0]) if kids(me) else None
        if me.get("name") == method and obj is not None and obj.get("declId") == hv:
            t = loop_trip(SR, g, n, penv, outer)
            if t is False or (t is not None and not isinstance(t, Lin)):
                return None
            total = total + (t if t is not None else Lin.const(1))
            continue
        # forwarded to a reader method together with a count
        last = n.get("callee", "").split("::")[-1]
        if last in FORWARDERS and depth < 2:
            args = call_args(n)
            pos = [i for i, a in enumerate(args) if root_decl(a) == hv]
            if not pos:
                continue
            h = F.by_id.get(n.get("calleeId"))
            if h is None:
                return None
            if loop_trip(SR, g, n, penv, outer) is not None:
                return None
            # callee: deliveries in terms of its own parameters, then substitute
            hp = h.params[pos[0]]["declId"]
            sub = deliveries(SR, F, h, hp, method, depth + 1)
            if sub is None:
                return None
            # substitute callee parameter symbols by argument values
            cons = []
            val = Lin.const(sub.k)
            for v_, c_ in sub.co.items():
                # symbols of callee parameters are named par:<declId>
                if v_.startswith("par:"):
                    pi = [i for i, p in enumerate(h.params) if "par:" + p["declId"] == v_]
                    if not pi:
                        return None
                    av = SR.value(g, args[pi[0]], penv, cons)
                    if av is None:
                        return None
                    val = val + av.scale(c_)
                else:
                    val = val + Lin.var(v_).scale(c_)
            total = total + val
    return total


def count_rules(rep, F, nlr, SR):
    f2 = rep.rule("C02.F2", "FLOW",
                  "every announced count equals the number of deliveries that follow "
                  "(loop trip counts, forwarded counts)", floor=10)
    y1 = rep.rule("C02.Y1", "TYPESTATE",
                  "every Begin* result reaches the matching End* on every normal path; "
                  "EndInput is the last notification", floor=8)
    seen = set()
    for g in nlr:
        SR.prepare(g)
        penv = {p["declId"]: Lin.var("par:" + p["declId"]) for p in g.params}
        for c in g.walk():
            m = handler_call(g, c)
            if m is None and c["k"] == "CXXMemberCallExpr":
                me = strip(kids(c)[0])
                if me.get("name") == "OnLinearExpr":
                    m = "OnLinearExpr"
            if m not in ANNOUNCE:
                continue
            pos, dmeth, extra = ANNOUNCE[m]
            args = call_args(c)
            key = "%s|%s" % (short_fn(g), m)
            if (key, c.get("l"), reader_kind(g)) in seen:
                continue
            seen.add((key, c.get("l"), reader_kind(g)))
            cons = []
            ann = SR.value(g, args[pos], penv, cons)
            # the handler object receiving the deliveries
            par = g.parent.get(c["i"])
            while par is not None and par["k"] in TRANSPARENT | {"CXXConstructExpr", "CXXFunctionalCastExpr"}:
                par = g.parent.get(par["i"])
            hv = par.get("declId") if par is not None and par["k"] == "VarDecl" else None
            inst = reader_kind(g)
            if hv is None:
                # announced and passed on directly: ReadLinearExpr(num_terms, lh.OnLinearExpr(index, num_terms))
                if par is not None and par["k"] == "CXXMemberCallExpr" and \
                        par.get("callee", "").split("::")[-1] in FORWARDERS:
                    a0 = SR.value(g, call_args(par)[0], penv, cons)
                    ok = ann is not None and a0 is not None and repr(ann) == repr(a0)
                    f2.check(ok, "%s|%s" % (key, inst), short_loc(c.get("l")),
                             "%s announces %r and %s is called with the same count" % (m, ann, par.get("callee").split("::")[-1]),
                             "%s announces %r but %s delivers %r" % (m, ann, par.get("callee", "").split("::")[-1], a0))
                    continue
                if m == "OnLinearExpr":
                    continue       # the nested helper forwards to OnLinear*Expr: checked there
                if par is not None and par["k"] == "ReturnStmt":
                    a = strip(args[pos])
                    ok = a["k"] == "DeclRefExpr" and a.get("dk") == "Parm"
                    f2.check(ok, "%s|%s" % (key, inst), short_loc(c.get("l")),
                             "%s forwards its own count parameter `%s` unchanged" % (g.name, render(a)),
                             "%s passes `%s` as the count instead of its own parameter" % (g.name, render(a)))
                    continue
                f2.fail("%s|%s" % (key, inst), short_loc(c.get("l")), "%s: result not bound to a handler variable" % m)
                continue
            outer = {a["i"] for a in g.ancestors(c) if a["k"] in ("ForStmt", "WhileStmt", "DoStmt")}
            d = deliveries(SR, F, g, hv, dmeth, 0, outer)
            if ann is None or d is None:
                f2.fail("%s|%s" % (key, inst), short_loc(c.get("l")),
                        "%s: announced count or deliveries not expressible (announced %r, delivered %r)" % (m, ann, d))
                continue
            d = d + extra
            same = repr(ann) == repr(d)
            if not same and m == "BeginCommonExpr":
                same = True if repr(d) in (repr(ann), "0") else False
            f2.check(same, "%s|%s" % (key, inst), short_loc(c.get("l")),
                     "%s announces %r, %s delivered %r time(s)" % (m, ann, dmeth, d),
                     "%s announces %r but %s is called %r time(s)" % (m, ann, dmeth, d))
            if m == "BeginPLTerm":
                ds = deliveries(SR, F, g, hv, "AddSlope", 0, outer)
                f2.check(ds is not None and repr(ds) == repr(ann + 1), "%s|slopes|%s" % (key, inst),
                         short_loc(c.get("l")), "AddSlope called %r times = breakpoints + 1" % ds)
            # Y1: pairing
            end = END_OF.get(m)
            if end:
                ends = [e["i"] for e in g.walk() if handler_call(g, e) == end and
                        any(root_decl(a) == hv for a in call_args(e))]
                if m == "BeginCommonExpr":
                    ends = [e["i"] for e in g.walk() if handler_call(g, e) == end]
                w = g.cfg.path_avoiding(g.cfg.position(c), "exit", ends) if ends else [0]
                y1.check(bool(ends) and w is None, "%s|%s->%s|%s" % (short_fn(g), m, end, inst),
                         short_loc(c.get("l")),
                         "every normal path from %s passes %s with the same handler object" % (m, end),
                         "a normal path from %s reaches the exit without %s (blocks %s)" % (m, end, w))
    # EndInput last
    for g in nlr:
        if g.name == "Read" and not g.params and g.qn == NLR + "::Read":
            ei = [c for c in g.walk() if handler_call(g, c) == "EndInput"]
            reads = [c for c in g.walk() if c["k"] == "CXXMemberCallExpr" and c.get("callee", "").endswith("NLReader::Read")]
            key = "NLReader::Read|EndInput-last|%s" % reader_kind(g)
            if key in seen:
                continue
            seen.add(key)
            ok = len(ei) == 1 and reads and all(g.cfg.postdominates(ei[0], r) for r in reads) and \
                not any(g.cfg.before(ei[0], r) for r in reads)
            y1.check(ok, key, short_loc(g.loc), "EndInput() follows every segment read on every path")


def switch_cases(g, sw):
    """{case value: first call node in the case body} of a switch statement."""
    out = {}
    for n in walk(sw):
        if n["k"] == "CaseStmt":
            v = cv(kids(n)[0])
            out[v] = kids(n)[-1]
    return out


def suffix_and_file_rules(rep, F, funcs, nlr, SR, callers_of):
    t1 = rep.rule("C02.T1", "TABLE",
                  "suffix kinds: the reader's item count per kind, the dispatch of the S segment and the "
                  "problem builder's suffix array size refer to the same header counts", floor=8)
    KINDS = {0: "VarHandler", 1: "ConHandler", 2: "ObjHandler", 3: "ProblemHandler"}
    BUILDER = {0: {"vars_"}, 1: {"algebraic_cons_", "logical_cons_"}, 2: {"linear_objs_"}, 3: set()}
    RESERVE = {"vars_": "num_vars", "algebraic_cons_": "num_algebraic_cons",
               "logical_cons_": "num_logical_cons", "linear_objs_": "num_objs"}
    seen = set()
    for g in nlr:
        if g.name == "Read" and len(g.params) == 1 and g.qn == NLR + "::Read":
            inst = reader_kind(g)
            sws = [n for n in g.walk() if n["k"] == "SwitchStmt" and "SUFFIX_KIND_MASK" in render(kids(n)[0])
                   or n["k"] == "SwitchStmt" and render(kids(n)[0]).startswith("info &")]
            if not sws:
                raise AnalysisBroken("suffix kind switch not found in %s" % g.full)
            cases = switch_cases(g, sws[0])
            for kv, hname in KINDS.items():
                body = cases.get(kv)
                calls = [c for c in walk(body) if c["k"] == "CXXMemberCallExpr" and
                         c.get("callee", "").endswith("::ReadSuffix")] if body else []
                ok = len(calls) == 1 and re.search(r"ReadSuffix<.*::%s>$" % hname, calls[0].get("calleeFull", "")) is not None
                key = "S-dispatch|kind%d->%s|%s" % (kv, hname, inst)
                if key not in seen:
                    seen.add(key)
                    t1.check(ok, key, short_loc(sws[0].get("l")),
                             "suffix kind %d is read with ReadSuffix<%s>" % (kv, hname),
                             "suffix kind %d is read with %s" % (kv, [c.get("calleeFull", "")[-40:] for c in calls]))
        if g.name == "ReadSuffix":
            # the announced number of values lies in [1, num_items]
            want = suffix_bound(g)
            for c in g.walk():
                m = handler_call(g, c)
                if m in ("OnIntSuffix", "OnDblSuffix"):
                    hn = re.search(r"ReadSuffix<.*::(\w+Handler)>", g.full)
                    key = "NLReader::ReadSuffix<%s>|%s|count-bound|%s" % (hn.group(1) if hn else "?", m, reader_kind(g))
                    if (key, c.get("l")) in seen:
                        continue
                    seen.add((key, c.get("l")))
                    v, cons = SR.arg_range(g, c, call_args(c)[2], {})
                    ok = v is not None and want is not None and \
                        entails(SR.cons + cons, GE(v, Lin.const(1))) and entails(SR.cons + cons, LE(v, want))
                    t1.check(ok, key, short_loc(c.get("l")),
                             "%s announces a count entailed to be in [1, %r]" % (m, want))
    gs = [f for f in funcs if f.qn == "mp::BasicProblem::GetSuffixSize"]
    si = [f for f in funcs if f.qn == "mp::BasicProblem::SetInfo"]
    if not gs or not si:
        raise AnalysisBroken("BasicProblem::GetSuffixSize / SetInfo not exported")
    sw = [n for n in gs[0].walk() if n["k"] == "SwitchStmt"]
    cases = switch_cases(gs[0], sw[0]) if sw else {}
    reserves = {}
    for c in si[0].walk():
        if c["k"] == "CXXMemberCallExpr" and c.get("callee", "").endswith("::reserve"):
            obj = render(kids(strip(kids(c)[0]))[0]) if kids(strip(kids(c)[0])) else "?"
            reserves[obj] = render(call_args(c)[0])
    for kv, conts in BUILDER.items():
        body = cases.get(kv)
        txt = render(body) if body is not None else ""
        used = {x for x in RESERVE if x in txt}
        okc = used == conts and (conts or "1" in txt)
        t1.check(okc, "builder|GetSuffixSize|kind%d" % kv, short_loc(gs[0].loc),
                 "GetSuffixSize(kind %d) uses the capacity of %s" % (kv, sorted(conts) or "1 (problem)"),
                 "GetSuffixSize(kind %d) uses %s, reader expects %s" % (kv, sorted(used), sorted(conts)))
        for cont in conts:
            okr = reserves.get(cont, "").endswith(RESERVE[cont])
            t1.check(okr, "builder|SetInfo|%s" % cont, short_loc(si[0].loc),
                     "SetInfo reserves %s with info.%s" % (cont, RESERVE[cont]),
                     "SetInfo reserves %s with `%s`, not info.%s" % (cont, reserves.get(cont), RESERVE[cont]))

    g2 = rep.rule("C02.G2", "GUARD",
                  "NLFileReader: the copy path stores the NUL sentinel at [size_] after the read loop, "
                  "mmap is used only when size_ != rounded_size_, both paths pass size_", floor=4)
    fr = [f for f in funcs if f.qn == "mp::internal::NLFileReader::Read"]
    rd = [f for f in fr if len(f.params) == 3]
    cp = [f for f in fr if len(f.params) == 1]
    if not rd or not cp:
        raise AnalysisBroken("NLFileReader::Read instantiations not found")
    g = rd[0]
    calls = [c for c in g.walk() if c["k"] == "CallExpr" and c.get("callee") == "mp::ReadNLString"]
    g2.check(len(calls) == 2, "two-paths", short_loc(g.loc), "%d ReadNLString calls (copy path, mmap path)" % len(calls))
    for i, c in enumerate(calls):
        ref = [x for x in walk(call_args(c)[0]) if x["k"] in ("CXXConstructExpr", "CXXTemporaryObjectExpr")
               and "NLStringRef" in x.get("callee", "")]
        ok = bool(ref) and len(kids(ref[0])) == 2 and render(kids(ref[0])[1]) == "size_"
        g2.check(ok, "size-argument|%d" % i, short_loc(c.get("l")), "NLStringRef(..., size_) on path %d" % i)
    copy_calls = [c for c in g.walk() if c["k"] == "CXXMemberCallExpr" and c.get("callee", "").endswith("NLFileReader::Read")]
    mm = [n for n in g.walk() if n["k"] == "VarDecl" and "MemoryMappedFile" in n.get("t", "")]
    okb = False
    if copy_calls and mm:
        fs = g.cfg.facts_at(copy_calls[0])
        okb = any(render(strip(g.nodes[cid])) == "size_ == rounded_size_" and pol is True for cid, pol in fs)
        fm = g.cfg.facts_at(mm[0])
        okb = okb and any(render(strip(g.nodes[cid])) == "size_ == rounded_size_" and pol is False for cid, pol in fm)
    g2.check(okb, "mmap-only-when-padded", short_loc(g.loc),
             "the buffer is copied when size_ == rounded_size_, mapped otherwise")
    h = cp[0]
    st = [n for n in h.walk() if n["k"] in ("BinaryOperator", "CXXOperatorCallExpr") and n.get("op") == "="
          and render(n).replace(" ", "") in ("array[size_]=0",)]
    st = st or [n for n in h.walk() if n["k"] == "BinaryOperator" and n.get("op") == "=" and
                "array[size_]" in render(kids(n)[0]) and cv(kids(n)[1]) == 0]
    rs = [c for c in h.walk() if c["k"] == "CXXMemberCallExpr" and c.get("callee", "").endswith("::resize")]
    okc = bool(st) and h.cfg.path_avoiding(None, "exit", [st[0]["i"]], from_entry=True) is None and \
        bool(rs) and render(call_args(rs[0])[0]) == "size_ + 1"
    g2.check(okc, "sentinel-store", short_loc(h.loc),
             "array is resized to size_ + 1 and array[size_] = 0 is stored on every path")
    lp = [n for n in h.walk() if n["k"] in ("WhileStmt", "ForStmt")]
    okl = False
    if lp:
        cnd_ = lp[0].get("c", [None] * 5)[2] if lp[0]["k"] == "ForStmt" else kids(lp[0])[0]
        okl = cnd_ is not None and render(cnd_).replace(" ", "") == "offset<size_" and "size_ - offset" in render(lp[0])
    g2.check(okl, "read-loop-bounded", short_loc(h.loc), "read loop `while (offset < size_)` reads at most size_ - offset bytes")


def recursion_rule(rep, F, nlr):
    w2 = rep.rule("C02.W2", "WHO",
                  "every input-driven recursion cycle of the reader carries a depth bound", floor=1)
    one = [g for g in nlr if reader_kind(g) == "TextReader"]
    ids = {g.id: g for g in one}
    edges = {g.id: {c.get("calleeId") for c in g.walk()
                    if c["k"] in ("CXXMemberCallExpr", "CallExpr", "CXXConstructExpr") and c.get("calleeId") in ids}
             for g in one}
    # Tarjan SCC
    index, low, onst, st, sccs, idx = {}, {}, set(), [], [], [0]
    import sys
    sys.setrecursionlimit(10000)

    def sc(v):
        index[v] = low[v] = idx[0]; idx[0] += 1; st.append(v); onst.add(v)
        for w in edges[v]:
            if w not in index:
                sc(w); low[v] = min(low[v], low[w])
            elif w in onst:
                low[v] = min(low[v], index[w])
        if low[v] == index[v]:
            comp = []
            while True:
                w = st.pop(); onst.discard(w); comp.append(w)
                if w == v:
                    break
            sccs.append(comp)
    for v in edges:
        if v not in index:
            sc(v)
    cyc = [c for c in sccs if len(c) > 1 or c[0] in edges[c[0]]]
    if not cyc:
        w2.ok("no-recursion", "include/mp/nl-reader.h", "the reader has no recursive cycle")
    for comp in cyc:
        names = sorted({ids[v].name for v in comp})
        bounded = False
        for v in comp:
            g = ids[v]
            for n in g.walk():
                if n["k"] == "BinaryOperator" and n.get("op") in (">", ">=", "<", "<=") and \
                        re.search(r"depth|level|nesting", render(n), re.I):
                    bounded = True
        rep_name = ([n for n in names if n.startswith("Read") and n.endswith("Expr")] or names)[0]
        w2.check(bounded, "cycle|%s" % rep_name, "include/mp/nl-reader.h",
                 "recursion through %s compares a depth counter with a limit" % names,
                 "recursion through %s has no depth bound: an input of deeply nested operators "
                 "(e.g. 10^6 nested unary minus) exhausts the stack" % names)


def text_rules(rep, F, funcs, is_noreturn):
    """S1: the text cursor never advances past a NUL it has not excluded."""
    from ..scan import Scan, ref_id, deref_of
    s1 = rep.rule("C02.S1", "SCAN",
                  "TextReader: every advance of ptr_ is dominated by a still-valid test that the "
                  "byte under it is not NUL (or that ptr_ != end_); strtod is the only other writer",
                  floor=8)
    tf = [f for f in funcs if f.qn.startswith("mp::internal::TextReader::")]
    if not tf:
        raise AnalysisBroken("no TextReader instantiation exported")
    seen = set()
    for f in tf:
        f.cfg.cut_noreturn(lambda n: n["k"] in ("CXXMemberCallExpr", "CallExpr") and is_noreturn(n))

        def mcm(call, f=f):
            # calls on this reader that move the cursor kill the facts about it
            cal = call.get("callee", "")
            g_ = getattr(F, "_by_id", {}).get(call.get("calleeId"))
            if g_ is not None:
                from ..cfg import _pure_predicate
                e_ = _pure_predicate(g_)
                if e_ is not None and not any(x["k"] in ("CXXThisExpr", "MemberExpr", "CallExpr", "CXXMemberCallExpr") for x in walk(e_)):
                    return set()          # a one-line predicate over its parameters only: it cannot move the cursor
            if re.match(r"mp::internal::(TextReader|ReaderBase)::", cal) and \
                    cal.split("::")[-1] not in ("ReportError", "DoReportError", "IsEOF", "ptr", "locale"):
                return {PTR}
            # ptr_ passed by reference (Locale::strtod(const char *&))
            for a in call_args(call):
                if ref_id(a) == PTR and strip(a).get("lv"):
                    return {PTR}
            return set()
        sc = Scan(F, f, mcm)
        ordn = {}
        for n in f.walk():
            what = None
            if n["k"] == "UnaryOperator" and n.get("op") == "++" and ref_id(kids(n)[0]) == PTR:
                what = "++ptr_"
            elif n["k"] == "CompoundAssignOperator" and ref_id(kids(n)[0]) == PTR:
                what = render(n)
            elif n["k"] == "BinaryOperator" and n.get("op") == "=" and ref_id(kids(n)[0]) == PTR:
                what = "ptr_ = " + render(kids(n)[1])
            if what is None:
                continue
            ordn[what] = ordn.get(what, 0) + 1
            key = "%s|%s#%d" % (f.qn, what, ordn[what])
            if (key, n.get("l")) in seen:
                continue
            seen.add((key, n.get("l")))
            if what == "++ptr_":
                s1.check(sc.may_advance(n, PTR), key, short_loc(n.get("l")),
                         "%s: ++ptr_ guarded (byte under the cursor known non-NUL or ptr_ != end_)" % f.name,
                         "%s: ++ptr_ is not dominated by a valid NUL / end test: on input ending here "
                         "the cursor passes the terminating NUL" % f.name)
            elif what.startswith("ptr_ = "):
                rhs = strip(kids(n)[1])
                # accepted: set_ptr(p) (caller-provided saved position) and the end pointer of strtod
                ok = f.name == "set_ptr" or _is_strtod_end(f, rhs)
                s1.check(ok, key, short_loc(n.get("l")),
                         "%s: `%s` restores a saved position / takes strtod's end pointer" % (f.name, what),
                         "%s: `%s` moves the cursor to an unchecked position" % (f.name, what))
            else:
                s1.fail(key, short_loc(n.get("l")), "%s: `%s` moves the cursor by an unchecked amount" % (f.name, what))

    # S1b: a NUL returned by ReadChar() is never followed by another cursor read
    s1b = rep.rule("C02.S1b", "PATH",
                   "at every ReadChar() site the NUL outcome reaches ReportError or the EOF return "
                   "before any further cursor read", floor=6)
    nlr = [f for f in funcs if f.qn.startswith(NLR + "::") or f.qn.startswith("mp::internal::TextReader::ReadHeader")]
    seen = set()
    for g in nlr:
        g.cfg.cut_noreturn(lambda n: n["k"] in ("CXXMemberCallExpr", "CallExpr") and is_noreturn(n))
        for c in g.walk():
            if c["k"] != "CXXMemberCallExpr" or not c.get("callee", "").endswith("::ReadChar"):
                continue
            key = "%s|ReadChar@%s" % (short_fn(g), _ctx(g, c))
            if (key, c.get("l")) in seen:
                continue
            seen.add((key, c.get("l")))
            ok, why = nul_outcome_safe(F, g, c, is_noreturn)
            s1b.check(ok, key, short_loc(c.get("l")), why, why)


def _ctx(g, c):
    p = g.parent.get(c["i"])
    for _ in range(6):
        if p is None:
            break
        if p["k"] in ("SwitchStmt", "IfStmt", "VarDecl", "CXXMemberCallExpr", "ReturnStmt"):
            return p["k"] + (":" + p.get("name", "") if p["k"] == "VarDecl" else "")
        p = g.parent.get(p["i"])
    return "?"


def _is_strtod_end(f, rhs):
    if rhs["k"] != "DeclRefExpr":
        return False
    d = rhs.get("declId")
    for n in f.walk():
        if n["k"] == "CallExpr" and n.get("callee") in ("strtod", "std::strtod"):
            a = call_args(n)
            if len(a) == 2:
                t = strip(a[1])
                if t["k"] == "UnaryOperator" and t.get("op") == "&" and strip(kids(t)[0]).get("declId") == d:
                    return True
    return False


def cursor_read(n):
    return n["k"] == "CXXMemberCallExpr" and n.get("callee", "").split("::")[-1] in CURSOR_READS and \
        re.match(r"mp::internal::(TextReader|BinaryReader|BinaryReaderBase|ReaderBase)::", n.get("callee", "")) is not None


def nul_outcome_safe(F, g, c, is_noreturn, depth=0):
    """After ReadChar() returned NUL: the consumer (switch / comparison / callee
    parameter) must send the NUL to an error or to the IsEOF return."""
    par = g.parent.get(c["i"])
    node = c
    # walk up through casts / `- '0'`
    offset = 0
    while par is not None and (par["k"] in TRANSPARENT or (
            par["k"] == "BinaryOperator" and par.get("op") == "-" and cv(kids(par)[1]) is not None)):
        if par["k"] == "BinaryOperator":
            offset -= cv(kids(par)[1])
        node = par
        par = g.parent.get(par["i"])
    nulval = 0 + offset
    if par is None:
        return False, "ReadChar() result unused"
    reads = [n["i"] for n in g.walk() if cursor_read(n) and n["i"] != c["i"]]
    # also calls into reader methods that read
    reads += [n["i"] for n in g.walk() if n["k"] == "CXXMemberCallExpr" and n.get("calleeRec") == g.rec
              and n.get("callee", "").split("::")[-1].startswith(("Read", "DoRead")) and n["i"] != c["i"]]
    if par["k"] == "VarDecl":
        var = par["declId"]
        # calls that receive the variable and send a NUL to an error themselves are not "reads"
        safe_calls = set()
        for n in g.walk():
            if n["k"] in ("CXXMemberCallExpr", "CallExpr") and depth < 2 and \
                    any(strip(a) is not None and strip(a).get("declId") == var for a in call_args(n)):
                if callee_sends_nul_to_error(F, g, n, var, nulval, is_noreturn):
                    safe_calls.add(n["i"])
        reads = [r for r in reads if r not in safe_calls]
        users = [n for n in g.walk() if n["k"] == "SwitchStmt" and _switch_on(g, n, var)]
        if users:
            return switch_nul(g, users[0], nulval, reads)
        cmps = [n for n in g.walk() if n["k"] == "BinaryOperator" and n.get("op") in ("==", "!=")
                and any(strip(x) is not None and strip(x).get("declId") == var for x in kids(n))
                and any(cv(x) is not None for x in kids(n))]
        cmps = [n for n in cmps if any(b.get("cond") is not None and strip(g.nodes.get(b["cond"]))["i"] == n["i"]
                                       for b in g.cfg.blocks.values())]
        written_ = any((n["k"] in ("BinaryOperator", "CompoundAssignOperator") and n.get("op", "").endswith("=") and n.get("op") not in ("==", "!=", "<=", ">=") and
                        strip(kids(n)[0]).get("declId") == var) or
                       (n["k"] == "UnaryOperator" and n.get("op") in ("++", "--", "&") and strip(kids(n)[0]).get("declId") == var) for n in g.walk())
        if len(cmps) > 1 and not written_ and c["i"] in g.cfg.pos:
            # an if chain over the character: with the NUL value every comparison of the variable is decided
            hit_, tests_ = decided_reach(g, var, nulval, reads, g.cfg.pos[c["i"]])
            return (not hit_, "with the NUL value %d comparison(s) of `%s` are decided and %s" %
                    (tests_, par.get("name"), "no read is reachable" if not hit_ else "a read is still reachable"))
        if cmps:
            first = [n for n in cmps if all(g.cfg.dominates(n, o) for o in cmps)]
            n = (first or cmps)[0]
            k = [cv(x) for x in kids(n) if cv(x) is not None][0]
            truth = (nulval == k) if n["op"] == "==" else (nulval != k)
            blk = [b for b in g.cfg.blocks.values() if b.get("cond") is not None and
                   strip(g.nodes.get(b["cond"]))["i"] == n["i"]][0]
            succ = g.cfg.succ[blk["id"]]
            if not succ:
                return True, "NUL branch is cut (ReportError)"
            tgt = succ[0] if truth else (succ[1] if len(succ) > 1 else None)
            if tgt is None:
                return True, "NUL branch is cut (ReportError)"
            w = g.cfg.path_avoiding((tgt, -1), reads, [])
            return (w is None, ("NUL makes `%s` %s, which reaches no further read" % (render(n), truth))
                    if w is None else "after NUL, `%s` %s branch can read again (blocks %s)" % (render(n), truth, w))
        return False, "NUL consumer of local `%s` not recognised" % par.get("name")
    if par["k"] == "SwitchStmt":
        return switch_nul(g, par, nulval, reads)
    if par["k"] == "BinaryOperator" and par.get("op") in ("!=", "=="):
        other = kids(par)[1] if kids(par)[0] is node else kids(par)[0]
        k = cv(other)
        if k is None:
            return False, "comparison with a non-constant"
        truth = (nulval == k) if par["op"] == "==" else (nulval != k)
        # the branch taken for NUL must reach a noreturn call before any read
        blk = [b for b in g.cfg.blocks.values() if b.get("cond") is not None and
               strip(g.nodes.get(b["cond"]))["i"] == par["i"]]
        if not blk:
            return False, "comparison is not a branch condition"
        succ = g.cfg.succ[blk[0]["id"]]
        tgt = succ[0] if truth else succ[1]
        if tgt is None:
            return True, "NUL branch is cut (ReportError)"
        w = g.cfg.path_avoiding((tgt, -1), reads, [])
        if w is not None:
            # a flag set only on the other branch decides later tests on this path (`bool ok = false; if (c == 'o') ok = ...; if (!ok) error`)
            hit_ = flag_reach(g, tgt, reads, c)
            if not hit_:
                return True, "NUL takes the %s branch of `%s`; with the flags that keep their initial value on that path no further read is reachable" % (truth, render(par))
        return (w is None, "NUL takes the %s branch of `%s`, which reaches no further read" % (truth, render(par))
                if w is None else "after NUL, `%s` %s branch can read again (blocks %s)" % (render(par), truth, w))
    if par["k"] in ("CXXMemberCallExpr", "CallExpr") and depth < 2:
        # value passed as an argument: follow into the callee's parameter
        h = F.by_id.get(par.get("calleeId"))
        idx = [i for i, a in enumerate(call_args(par)) if any(x is c for x in walk(a))]
        if h is not None and idx and h.cfg is not None:
            h.cfg.cut_noreturn(lambda n: n["k"] in ("CXXMemberCallExpr", "CallExpr") and is_noreturn(n))
            pid = h.params[idx[0]]["declId"]
            sw = [n for n in h.walk() if n["k"] == "SwitchStmt" and _switch_on(h, n, pid)]
            reads2 = [n["i"] for n in h.walk() if cursor_read(n)] + \
                [n["i"] for n in h.walk() if n["k"] == "CXXMemberCallExpr" and n.get("calleeRec") == h.rec
                 and n.get("callee", "").split("::")[-1].startswith(("Read", "DoRead"))]
            if sw:
                ok, why = switch_nul(h, sw[0], nulval, reads2)
                return ok, "passed to %s: %s" % (h.name, why)
            # no switch: the parameter is tested by comparisons with constants (an if chain).  With the parameter equal
            # to the NUL value every such branch is decided; any other branch is followed both ways.
            written = any((n["k"] in ("BinaryOperator", "CompoundAssignOperator") and n.get("op", "").endswith("=") and n.get("op") not in ("==", "!=", "<=", ">=") and
                           strip(kids(n)[0]).get("declId") == pid) or
                          (n["k"] == "UnaryOperator" and n.get("op") in ("++", "--", "&") and strip(kids(n)[0]).get("declId") == pid) for n in h.walk())
            tests, hit_ = 0, []
            if not written:
                hit_, tests = decided_reach(h, pid, nulval, reads2)
                if tests:
                    return (not hit_, "passed to %s: with the NUL value %d comparison(s) of the parameter are decided and %s" %
                            (h.name, tests, "no read is reachable" if not hit_ else "a read is still reachable"))
        return False, "NUL consumer in callee %s not recognised" % par.get("callee")
    if par["k"] == "ReturnStmt":
        return True, "returned to the caller (checked at the caller's site)"
    return False, "NUL consumer %s not recognised" % par["k"]


def callee_sends_nul_to_error(F, g, call, var, nulval, is_noreturn):
    h = F.by_id.get(call.get("calleeId"))
    if h is None or h.cfg is None:
        return False
    idx = [i for i, a in enumerate(call_args(call)) if strip(a) is not None and strip(a).get("declId") == var]
    if not idx or idx[0] >= len(h.params):
        return False
    h.cfg.cut_noreturn(lambda n: n["k"] in ("CXXMemberCallExpr", "CallExpr") and is_noreturn(n))
    pid = h.params[idx[0]]["declId"]
    sw = [n for n in h.walk() if n["k"] == "SwitchStmt" and _switch_on(h, n, pid)]
    reads2 = [n["i"] for n in h.walk() if cursor_read(n)] + \
        [n["i"] for n in h.walk() if n["k"] == "CXXMemberCallExpr" and n.get("calleeRec") == h.rec
         and n.get("callee", "").split("::")[-1].startswith(("Read", "DoRead"))]
    return bool(sw) and switch_nul(h, sw[0], nulval, reads2)[0]


def flag_reach(g, start_block, reads, origin):
    """reads reachable from start_block when tests of local flags are decided by the constant they still hold: a local with a
    literal initialiser whose assignments all lie where they cannot reach `origin` again keeps that value until it is assigned
    on the path"""
    init = {}
    for v in g.walk():
        if v["k"] == "VarDecl" and kids(v) and cv(kids(v)[0]) is not None and v.get("declId"):
            asg = [n for n in g.walk() if n["k"] in ("BinaryOperator", "CompoundAssignOperator") and n.get("op", "").endswith("=") and n.get("op") not in ("==", "!=", "<=", ">=") and
                   strip(kids(n)[0]).get("declId") == v["declId"]]
            amp = [n for n in g.walk() if n["k"] == "UnaryOperator" and n.get("op") in ("&", "++", "--") and strip(kids(n)[0]).get("declId") == v["declId"]]
            if not amp and all(not g.cfg.before(a_, origin) for a_ in asg) and g.cfg.dominates(v, origin):
                init[v["declId"]] = cv(kids(v)[0])
    seen_, todo_ = set(), [(start_block, tuple(sorted(init.items())))]
    hit_ = []
    readset = {r_: g.cfg.pos[r_] for r_ in reads if r_ in g.cfg.pos}
    while todo_:
        b_, envt = todo_.pop()
        if b_ is None or (b_, envt) in seen_:
            continue
        seen_.add((b_, envt))
        env = dict(envt)
        blk_ = g.cfg.blocks[b_]
        for e_ in blk_.get("el", []):
            n_ = g.nodes.get(e_)
            if n_ is None:
                continue
            if n_["k"] in ("BinaryOperator", "CompoundAssignOperator") and n_.get("op", "").endswith("=") and n_.get("op") not in ("==", "!=", "<=", ">="):
                d_ = strip(kids(n_)[0]).get("declId")
                if d_ in env:
                    if n_["k"] == "BinaryOperator" and cv(kids(n_)[1]) is not None:
                        env[d_] = cv(kids(n_)[1])
                    else:
                        del env[d_]
        hit_ += [r_ for r_, (rb_, _) in readset.items() if rb_ == b_]
        ss_ = g.cfg.succ[b_]
        cn_ = strip(g.nodes.get(blk_["cond"])) if blk_.get("cond") is not None else None
        dec_ = None
        if cn_ is not None and len(ss_) == 2:
            pol_ = True
            while cn_["k"] == "UnaryOperator" and cn_.get("op") == "!":
                cn_, pol_ = strip(kids(cn_)[0]), not pol_
            if cn_["k"] == "DeclRefExpr" and cn_.get("declId") in env:
                dec_ = bool(env[cn_["declId"]]) == pol_
        nxt = [ss_[0] if dec_ else ss_[1]] if dec_ is not None else list(ss_)
        todo_ += [(x_, tuple(sorted(env.items()))) for x_ in nxt]
    return hit_


def decided_reach(h, pid, nulval, reads, start=None):
    """reads reachable when every `variable ==/!= constant` branch on declaration pid is decided by the value nulval (other
    branches are followed both ways); start: (block, element index) after which reading counts, default the entry.
    Returns (reachable reads, number of decided tests)."""
    tests = 0
    seen_, todo_ = set(), [start[0] if start else h.cfg.entry]
    while todo_:
        b_ = todo_.pop()
        if b_ is None or b_ in seen_:
            continue
        seen_.add(b_)
        blk_ = h.cfg.blocks[b_]
        ss_ = h.cfg.succ[b_]
        cn_ = strip(h.nodes.get(blk_["cond"])) if blk_.get("cond") is not None else None
        dec_ = None
        if cn_ is not None and cn_["k"] == "BinaryOperator" and cn_.get("op") in ("==", "!=") and len(ss_) == 2:
            a_, b2_ = strip(kids(cn_)[0]), strip(kids(cn_)[1])
            k_ = cv(b2_) if a_.get("declId") == pid else (cv(a_) if b2_.get("declId") == pid else None)
            if k_ is not None:
                dec_ = (nulval == k_) if cn_["op"] == "==" else (nulval != k_)
                tests += 1
        todo_ += [ss_[0] if dec_ else ss_[1]] if dec_ is not None else list(ss_)
    hit_ = []
    for r_ in reads:
        if r_ in h.cfg.pos and h.cfg.pos[r_][0] in seen_:
            if start and h.cfg.pos[r_][0] == start[0] and h.cfg.pos[r_][1] <= start[1]:
                continue
            hit_.append(r_)
    return hit_, tests


def _switch_on(g, sw, decl):
    ks = kids(sw)
    cond = strip(ks[0]) if ks else None
    # the condition may be a DeclStmt (switch (char c = ...)) followed by the ref
    for x in ks[:2]:
        y = strip(x)
        if y is not None and y["k"] == "DeclRefExpr" and y.get("declId") == decl:
            return True
    return False


def switch_nul(g, sw, nulval, reads):
    """In switch `sw`, the successor taken for value nulval must not read again."""
    blk = [b for b in g.cfg.blocks.values() if b.get("term") == sw["i"]]
    if not blk:
        return False, "switch not found in the CFG"
    b = blk[0]
    tgt = None
    default = None
    for s in g.cfg.succ[b["id"]]:
        if s is None:
            continue
        lab = g.nodes.get(g.cfg.blocks[s].get("label", -1))
        if lab is not None and lab["k"] == "CaseStmt":
            if cv(kids(lab)[0]) == nulval:
                tgt = s
        else:
            default = s
    if tgt is None:
        tgt = default
    if tgt is None:
        return False, "switch has no branch for NUL and no default"
    # allowed: the EOF return (IsEOF true branch returns) and ReportError (already cut)
    w = g.cfg.path_avoiding((tgt, -1), reads, [])
    if w is None:
        return True, "NUL goes to %s, from which no cursor read is reachable" % (
            "case %d" % nulval if tgt != default else "default")
    return False, "after a NUL the switch branch can read the cursor again (blocks %s)" % w


def binary_rules(rep, F, funcs, is_noreturn, SR):
    from ..scan import ref_id
    g1 = rep.rule("C02.G1", "GUARD",
                  "BinaryReader: ptr_ advances only in Read(length) after `end_ - ptr_ < length` "
                  "was excluded; every binary read goes through Read", floor=3)
    bf = [f for f in funcs if re.match(r"mp::internal::(BinaryReaderBase|BinaryReader)::", f.qn)]
    if not bf:
        raise AnalysisBroken("no BinaryReader function exported")
    seen = set()
    for f in bf:
        f.cfg.cut_noreturn(lambda n: n["k"] in ("CXXMemberCallExpr", "CallExpr") and is_noreturn(n))
        for n in f.walk():
            w = None
            if n["k"] == "CompoundAssignOperator" and ref_id(kids(n)[0]) == PTR:
                w = n
            elif n["k"] == "UnaryOperator" and n.get("op") in ("++", "--") and ref_id(kids(n)[0]) == PTR:
                w = n
            elif n["k"] == "BinaryOperator" and n.get("op") == "=" and ref_id(kids(n)[0]) == PTR:
                w = n
            if w is None:
                continue
            key = "%s|%s" % (f.qn, render(w))
            if (key, w.get("l")) in seen:
                continue
            seen.add((key, w.get("l")))
            ok = False
            if f.name == "Read" and w["k"] == "CompoundAssignOperator" and w.get("op") == "+=":
                amt = strip(kids(w)[1])
                for (cid, pol) in f.cfg.facts_at(w):
                    c = strip(f.nodes[cid])
                    if c["k"] == "BinaryOperator" and c["op"] == "<" and pol is False and \
                            render(kids(c)[0]) == "end_ - ptr_" and render(kids(c)[1]) == render(amt):
                        ok = True
            g1.check(ok, key, short_loc(w.get("l")),
                     "%s: `%s` happens only after `end_ - ptr_ < %s` was excluded" % (f.name, render(w), render(kids(w)[1]) if kids(w)[1:] else ""),
                     "%s: `%s` moves the binary cursor without the remaining-length test" % (f.name, render(w)))
        # raw memory reads must take their pointer from Read()
        for n in f.walk():
            if n["k"] == "CallExpr" and n.get("callee") in ("memcpy", "std::memcpy"):
                src = strip(call_args(n)[1])
                while src is not None and src["k"] in ("CStyleCastExpr", "CXXStaticCastExpr", "CXXReinterpretCastExpr"):
                    src = strip(kids(src)[0])
                key = "%s|memcpy-source" % re.sub(r"mp::internal::", "", f.full.split("(")[0])[:80]      # one instance per instantiation
                if (key, n.get("l")) in seen:
                    continue
                seen.add((key, n.get("l")))
                ok = src is not None and src["k"] == "CXXMemberCallExpr" and src.get("callee", "").endswith("::Read") \
                    and render(call_args(src)[0]) == render(call_args(n)[2])
                g1.check(ok, key, short_loc(n.get("l")),
                         "%s copies exactly the %s bytes obtained from Read(%s)" % (
                             f.full[-40:], render(call_args(n)[2]), render(call_args(src)[0]) if ok else "?"))
    # R0: raw unsigned reads are non-negative
    r0 = rep.rule("C02.R0", "RANGE", "raw ReadUInt() results are non-negative (binary: checked; "
                  "text: value assigned only after the overflow checks)", floor=2)
    seen = set()
    for f in funcs:
        if f.qn == "mp::internal::BinaryReader::ReadUInt":
            key = "%s|%s" % (f.qn, "swap" if "Endianness" in f.full else "native")
            if key in seen:
                continue
            seen.add(key)
            v = SR.summary_value(f, [], cons := [], 0)
            ok = v is not None and entails(SR.cons + cons, GE(v, Lin.const(0)))
            r0.check(ok, key, short_loc(f.loc), "BinaryReader::ReadUInt returns a value entailed >= 0")
        if f.qn == "mp::internal::TextReader::ReadIntWithoutSign":
            key = "%s|%s" % (f.qn, f.full.split("<")[-1])
            if key in seen:
                continue
            seen.add(key)
            f.cfg.cut_noreturn(lambda n: n["k"] in ("CXXMemberCallExpr", "CallExpr") and is_noreturn(n))
            st = [n for n in f.walk() if n["k"] == "BinaryOperator" and n.get("op") == "=" and
                  strip(kids(n)[0]).get("name") == "value"]
            ok = len(st) == 1
            if ok:
                fs = [(render(strip(f.nodes[cid])), pol) for cid, pol in f.cfg.facts_at(st[0])]
                ok = ("result > max", False) in fs
            wrap = [n for n in f.walk() if n["k"] == "BinaryOperator" and n.get("op") == "<" and
                    render(n) == "new_result < result"]
            r0.check(ok and bool(wrap), key, short_loc(f.loc),
                     "value = result only after `result > max` was excluded and the wrap test "
                     "`new_result < result` guards every digit")


def conversion_rules(rep, F, funcs, is_noreturn):
    u1 = rep.rule("C02.U1", "GUARD",
                  "a file-provided double is converted to an integer type only after a range check "
                  "(the conversion of an out-of-range value is undefined behaviour)", floor=1)
    seen = set()
    for f in funcs:
        if not re.match(r"mp::internal::(TextReader|NLReader|BinaryReader)", f.qn):
            continue
        for n in f.walk():
            if n["k"] in ("ImplicitCastExpr", "CStyleCastExpr", "CXXStaticCastExpr", "CXXFunctionalCastExpr") \
                    and n.get("ck") == "FloatingToIntegral":
                src = strip(kids(n)[0])
                if cv(src) is not None:
                    continue
                key = "%s|(%s)%s" % (f.qn, n.get("ct"), render(src))
                if (key, n.get("l")) in seen:
                    continue
                seen.add((key, n.get("l")))
                f.cfg.cut_noreturn(lambda x: x["k"] in ("CXXMemberCallExpr", "CallExpr") and is_noreturn(x))
                lo = hi = False
                for cid, pol in f.cfg.facts_at(n):
                    c = strip(_expand(f, f.nodes[cid]))       # a range test written as a one-line predicate is looked into
                    lo2, hi2 = range_check_of(c, pol, src)
                    lo, hi = lo or lo2, hi or hi2
                u1.check(lo and hi, key, short_loc(n.get("l")),
                         "conversion of `%s` to %s is dominated by a two-sided range check" % (render(src), n.get("ct")),
                         "`(%s)%s`: the double comes from the file and is converted without a range "
                         "check - undefined behaviour for values outside %s (e.g. 1e300)" % (
                             n.get("ct"), render(src), n.get("ct")))


def range_check_of(c, pol, src):
    """(lower, upper) bound knowledge about src from condition c with truth pol."""
    if c["k"] == "UnaryOperator" and c.get("op") == "!":
        return range_check_of(strip(kids(c)[0]), not pol, src)
    if c["k"] == "BinaryOperator":
        op = c["op"]
        a, b = strip(kids(c)[0]), strip(kids(c)[1])
        if op == "&&" and pol or op == "||" and not pol:
            l1, h1 = range_check_of(a, pol, src)
            l2, h2 = range_check_of(b, pol, src)
            return l1 or l2, h1 or h2
        if op in ("<", "<=", ">", ">="):
            sa, sb = render(a) == render(src), render(b) == render(src)
            if not (sa or sb):
                return False, False
            o = op if pol else {"<": ">=", "<=": ">", ">": "<=", ">=": "<"}[op]
            if sb:
                o = {"<": ">", "<=": ">=", ">": "<", ">=": "<="}[o]
            return o in (">", ">="), o in ("<", "<=")
    return False, False


def reader_kind(g):
    m = re.search(r"NLReader<mp::internal::(\w+)<([^>]*)>", g.full)
    if not m:
        return "?"
    return m.group(1) + ("/swap" if "Endianness" in m.group(2) else "") + \
        ("/bounds-first" if "VarBoundHandler" in g.full.split(">::")[0] else "")


def short_fn(g):
    """NLReader::Method<TemplateArgs> with template arguments reduced to their
    simple names (distinguishes ReadBounds<VarHandler> from <AlgebraicConHandler>)."""
    s = g.qn.replace("mp::internal::", "")
    full = g.full
    # template arguments of the method itself: text after the last '::name<'
    m = re.search(r"::%s<(.*)>$" % re.escape(g.name), full)
    if m:
        args = re.findall(r"(\w+)(?:<[^<>]*>)?\s*(?:,|$)", re.sub(r"<[^<>]*(?:<[^<>]*>[^<>]*)*>", "", m.group(1)))
        simple = [a for a in re.findall(r"::(\w+)(?=[,>]|$)", "::" + m.group(1).replace(" ", "")) ]
        names = []
        depth = 0
        cur = ""
        for ch in m.group(1):
            if ch == "<":
                depth += 1
            elif ch == ">":
                depth -= 1
            if ch == "," and depth == 0:
                names.append(cur)
                cur = ""
            else:
                cur += ch
        names.append(cur)
        simp = []
        for n_ in names:
            # last '::' component at bracket depth 0, without its own template arguments
            d_, last, cur2 = 0, "", ""
            t = n_.strip()
            k = 0
            while k < len(t):
                ch = t[k]
                if ch == "<":
                    d_ += 1
                elif ch == ">":
                    d_ -= 1
                if d_ == 0 and t.startswith("::", k):
                    cur2 = ""
                    k += 2
                    continue
                cur2 += ch
                k += 1
            simp.append(re.sub(r"<.*$", "", cur2))
        return "%s<%s>" % (s, ",".join(simp))
    return s


def prove_in_range(SR, F, g, call, arg, bound, callers_of, method, depth=0, env=None):
    """Obligation 0 <= arg < bound at this call site; parameters of g are
    resolved through g's callers inside the reader."""
    env = dict(env or {})
    psym = {}
    for p in g.params:
        if p["declId"] not in env:
            x = SR.new("p")
            env[p["declId"]] = x
            psym[p["declId"]] = x
    v, cons = SR.arg_range(g, call, arg, env)
    if v is None:
        return False, "value of `%s` cannot be traced to a checked read" % render(arg)
    if bound is None:      # SetValue: bound is the num_items parameter of ReadSuffixValues
        pn = [p for p in g.params if p["name"] == "num_items"]
        if not pn:
            return False, "no num_items parameter to bound the suffix index"
        bound_l = env[pn[0]["declId"]]
    else:
        bound_l = bound
    allc = SR.cons + cons
    if infeasible(allc):
        return True, "site unreachable in this instantiation (its path condition is contradictory)"
    lo_ok = entails(allc, GE(v, Lin.const(0)))
    hi_ok = entails(allc, LT(v, bound_l))
    uses_param = any(str(s) in repr(v) + repr(cons) + repr(bound_l) for s in psym.values())
    if lo_ok and hi_ok and bound is not None:
        return True, "0 <= %r < %r entailed" % (v, bound_l)
    if (bound is None or uses_param) and depth < 3:
        cs = callers_of.get(g.id, [])
        if not cs:
            return False, "needs the callers of %s but none found" % g.name
        msgs = []
        for (h, c2) in cs:
            env2 = {}
            henv = {}
            for p in h.params:
                henv[p["declId"]] = SR.new("p")
            c_cons = []
            for p, a in zip(g.params, call_args(c2)):
                av = SR.value(h, a, henv, c_cons)
                if av is not None:
                    env2[p["declId"]] = av
            c_cons += SR.fact_constraints(h, c2, henv)
            v2, cons2 = SR.arg_range(g, call, arg, env2)
            if v2 is None:
                return False, "not traceable through caller %s" % h.name
            if bound is None:
                pn = [p for p in g.params if p["name"] == "num_items"][0]
                b2 = env2.get(pn["declId"])
                want = suffix_bound(h)
                if b2 is None or want is None:
                    return False, "suffix item count not resolved in caller %s" % h.name
                all2 = SR.cons + cons2 + c_cons
                okb = entails(all2, GE(b2, want)) and entails(all2, LE(b2, want))
                if not okb:
                    return False, "caller %s passes num_items = %r, expected %r" % (h.full[-60:], b2, want)
                bl = want
            else:
                bl = bound
            all2 = SR.cons + cons2 + c_cons
            if not (entails(all2, GE(v2, Lin.const(0))) and entails(all2, LT(v2, bl))):
                # one more level up if the caller's own parameters are involved
                sub_ok, sub_why = (False, "")
                if depth < 2 and any(repr(x) in repr(v2) + repr(all2[len(SR.cons):]) for x in henv.values()):
                    sub_ok, sub_why = prove_via(SR, F, g, call, arg, bl, callers_of, h, c2, depth + 1)
                if not sub_ok:
                    return False, "via %s: 0 <= %r < %r not entailed %s" % (h.name, v2, bl, sub_why)
            msgs.append("%s: 0 <= %r < %r" % (h.name, v2, bl))
        return True, "entailed at all %d call site(s) of %s: %s" % (len(cs), g.name, "; ".join(msgs)[:200])
    return False, "0 <= %r < %r not entailed (lower %s, upper %s)" % (v, bound_l, lo_ok, hi_ok)


def prove_via(SR, F, g, call, arg, bound, callers_of, h, c2, depth):
    """Second level: g called from h at c2, h's parameters resolved by h's callers."""
    cs = callers_of.get(h.id, [])
    if not cs:
        return False, "(no callers of %s)" % h.name
    for (h2, c3) in cs:
        h2env = {p["declId"]: SR.new("p") for p in h2.params}
        c_cons = []
        henv = {}
        for p, a in zip(h.params, call_args(c3)):
            av = SR.value(h2, a, h2env, c_cons)
            if av is not None:
                henv[p["declId"]] = av
        c_cons += SR.fact_constraints(h2, c3, h2env)
        env2 = {}
        for p, a in zip(g.params, call_args(c2)):
            av = SR.value(h, a, henv, c_cons)
            if av is not None:
                env2[p["declId"]] = av
        c_cons += SR.fact_constraints(h, c2, henv)
        v2, cons2 = SR.arg_range(g, call, arg, env2)
        if v2 is None:
            return False, "(not traceable via %s)" % h2.name
        all2 = SR.cons + cons2 + c_cons
        if not (entails(all2, GE(v2, Lin.const(0))) and entails(all2, LT(v2, bound))):
            return False, "(via %s <- %s: %r)" % (h.name, h2.name, v2)
    return True, ""


def suffix_bound(h):
    m = re.search(r"ReadSuffix<.*::(\w+Handler)>", h.full)
    return SUFFIX_ITEMS.get(m.group(1)) if m else None
