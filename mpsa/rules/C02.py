"""C02 - the NL reader is total, memory-safe and reports only validated data.

Structural clauses decided (DESIGN 4/C02):
F1 every index handed to a handler callback is provably inside the declared
   range (symbolic range analysis with the reader's own checks as facts);
F2 every announced count is the trip count of the delivery loop;
Y1 Begin*/End* notifications are paired on every normal path;
S1 text cursor: every advance of ptr_ is guarded by a NUL/'\\n' test; every
   ReadChar() result that may be the terminating NUL leads to an error or the
   EOF return before any further read;
G1 binary cursor: ptr_ only advances in Read(length) after the length test;
N1 ReportError never returns (the facts above rely on it);
U1 file-provided doubles are not converted to integers without a range check;
R0 raw ReadUInt results are non-negative;
T1 suffix item counts of reader and problem builder agree;
G2 the file path appends the NUL sentinel / both paths pass the same size;
W2 input-driven recursion is bounded.
"""
import re
from ..linrel import Lin, GE, LE, GT, LT, entails, infeasible
from ..symrange import SymRange, INT_MAX
from ..cfg import Facts, kids, strip, walk, cv, render, short_loc, call_args, TRANSPARENT
from ..facts import export_many, AnalysisBroken
from .. import units

LEVEL = "other"
TECHNIQUE = ("static analysis: symbolic range analysis of every index/count passed to a handler "
             "callback (linear constraints from the reader's own dominating checks, callee "
             "summaries, caller substitution), sentinel-scan and typestate rules over the CFG, "
             "call-graph rule for recursion")
LEVEL_TEXT = ("Decides, for every path of every analysed NLReader instantiation, that each index "
              "reaching a callback is inside the range the header declared, that counts match "
              "delivery loops, that notifications nest, and that neither cursor can pass its "
              "sentinel. It does not prove absence of every undefined behaviour nor termination.")
LEVEL_NOTE = ("Trusted: clang 14 front end/CFG, tool/mpx.cc, mpsa/symrange.py + linrel.py. The "
              "handler is an arbitrary type: only what the reader passes to it is decided.")
DESIGN_REF = "DESIGN.md section 4, C02"
EXPLANATION = (
    "Structural clauses of C02 decided for all inputs: each argument of a handler callback that "
    "is an item index (variables, algebraic/logical constraints, objectives, functions, common "
    "expressions, suffix items) is shown by linear entailment to lie in [0, declared count), "
    "using only facts the reader itself establishes (range-checked reads, comparisons, loop "
    "bounds) and the fact that ReportError never returns; announced counts equal loop trip "
    "counts; Begin/End pair; the text cursor never advances past NUL/newline sentinels and a NUL "
    "returned by ReadChar is never followed by another read; the binary cursor advances only "
    "under the remaining-length test; file-provided doubles are range-checked before integer "
    "conversion; builder and reader agree on suffix item counts; the copy path of the file "
    "reader appends the sentinel. Not decided: absence of all UB, termination, file/mmap "
    "equivalence at run time.")
ASSUMPTIONS = ["the data passed to the reader is NUL-terminated at data[size] (NLStringRef contract; "
               "checked for the file reader by G2)",
               "handler callbacks do not modify the reader"]
TRUSTED = ["clang 14 front end + CFG builder", "tool/mpx.cc", "mpsa/symrange.py", "mpsa/linrel.py",
           "mpsa/rules/C02.py"]

NLR = "mp::internal::NLReader"
HEADER_FIELDS = ("num_vars", "num_algebraic_cons", "num_logical_cons", "num_objs", "num_funcs",
                 "num_common_exprs_in_both", "num_common_exprs_in_cons", "num_common_exprs_in_objs",
                 "num_common_exprs_in_single_cons", "num_common_exprs_in_single_objs",
                 "num_ranges", "num_eqns", "num_nl_cons", "num_nl_objs")
CE_FIELDS = HEADER_FIELDS[5:10]

V = Lin.var
NV, NAC, NLC, NO, NF, NVE = V("num_vars"), V("num_algebraic_cons"), V("num_logical_cons"), \
    V("num_objs"), V("num_funcs"), V("nve")
NCE = NVE - NV

# callback -> {argument position: exclusive upper bound}   (DESIGN appendix A.2)
TABLE = {
    "OnVarBounds": {0: NV}, "OnInitialValue": {0: NV}, "OnVariableRef": {0: NV},
    "OnConBounds": {0: NAC}, "OnAlgebraicCon": {0: NAC}, "OnInitialDualValue": {0: NAC},
    "OnLinearConExpr": {0: NAC}, "OnComplementarity": {0: NAC, 1: NV},
    "OnLogicalCon": {0: NLC},
    "NeedObj": {0: NO}, "resulting_obj_index": {0: NO},
    "OnFunction": {0: NF}, "BeginCall": {0: NF},
    "BeginCommonExpr": {0: NCE}, "EndCommonExpr": {0: NCE}, "OnCommonExprRef": {0: NCE},
    "AddTerm": {0: NV},
}
# objective callbacks receive resulting_obj_index(i): checked as a shape (and by C12)
OBJ_CALLBACKS = {"OnObj": 0, "OnLinearObjExpr": 0}
SUFFIX_ITEMS = {"VarHandler": NV, "ConHandler": NAC + NLC, "ObjHandler": NO, "ProblemHandler": Lin.const(1)}
CURSOR_READS = ("ReadChar", "ReadUInt", "ReadInt", "ReadDouble", "ReadString", "ReadName",
                "ReadTillEndOfLine", "ReadOptionalUInt", "ReadOptionalDouble", "ReadOptionalInt")


def member_symbol(e):
    n = e.get("name")
    if n in HEADER_FIELDS and "NLHeader" in (e.get("qn", "") + "|" + _base_type(e)) or \
            (n in HEADER_FIELDS and e.get("qn", "").startswith("NLProblemInfo_C")):
        return n
    if n == "num_vars_and_exprs_":
        return "nve"
    return None


def _base_type(e):
    b = kids(e)[0] if kids(e) else None
    return (b or {}).get("t", "")


def is_report_error(n):
    return n.get("callee", "").split("::")[-1] in ("ReportError", "DoReportError")


def raw_read(n):
    cal = n.get("callee", "")
    last = cal.split("::")[-1]
    if not re.match(r"mp::internal::(TextReader|BinaryReader|BinaryReaderBase|ReaderBase)::", cal):
        return None
    if last == "ReadUInt" and not call_args(n):
        return Lin.const(0), Lin.const(INT_MAX)
    if last == "ReadInt":
        return Lin.const(-(1 << 31)), Lin.const(INT_MAX)
    return None


def handler_call(f, n):
    """method name if n is a call on the NL handler object (handler_, or a local
    alias of it)"""
    if n["k"] != "CXXMemberCallExpr":
        return None
    me = strip(kids(n)[0])
    obj = strip(kids(me)[0]) if kids(me) else None
    if obj is None:
        return None
    if obj["k"] == "MemberExpr" and obj.get("name") == "handler_":
        return me.get("name")
    if obj["k"] == "DeclRefExpr":
        vd = [v for v in f.walk() if v["k"] == "VarDecl" and v.get("declId") == obj.get("declId")]
        if vd and kids(vd[0]):
            i = strip(kids(vd[0])[0])
            if i["k"] == "MemberExpr" and i.get("name") == "handler_":
                return me.get("name")
        # linear / suffix handler objects passed as parameters
        if me.get("name") in ("AddTerm", "SetValue") and obj.get("dk") in ("Parm", "Var"):
            return me.get("name")
    return None


def run(rep, ctx):
    repo = ctx["repo"]
    fn = [NLR + r"::.*", r"mp::internal::(TextReader|BinaryReader|BinaryReaderBase|ReaderBase)::.*",
          r"mp::internal::NLFileReader::.*", r"mp::internal::ReadBinary", r"mp::ReadNLString",
          r"mp::internal::VarBoundHandler::.*"]
    jobs = [dict(unit="src/problem.cc", fn=fn, repo=repo,
                 rec=[r"mp::NLHeader", r"NLProblemInfo_C", r"NLInfo_C"]),
            dict(unit="src/nl-reader.cc", fn=fn, repo=repo)]
    if ctx["tier"] == "thorough":
        for u in ("test/nl-reader-test.cc", "examples/nl-reader-example.cc",
                  "solvers/visitor/model-mgr-with-std-pb.cc", "test/problem-test.cc"):
            jobs.append(dict(unit=u, fn=fn, repo=repo))
    F = Facts(export_many(jobs))
    F.by_id = {}
    for f in F.funcs:
        if not f.is_dependent():
            F.by_id.setdefault(f.id, f)
    rep.note_units([j["unit"] for j in jobs])
    funcs = [f for f in F.funcs if not f.is_dependent() and f.cfg is not None]
    rep.note_funcs(funcs)
    nlr = [f for f in funcs if f.qn.startswith(NLR + "::")]
    if not nlr:
        raise AnalysisBroken("no NLReader instantiation found")

    # ---- N1: ReportError never returns ---------------------------------------------
    n1 = rep.rule("C02.N1", "PATH", "every ReportError/DoReportError of the readers throws on all paths",
                  floor=3)
    noret = set()
    errs = [f for f in funcs if f.name in ("ReportError", "DoReportError") and
            re.match(r"mp::internal::(TextReader|BinaryReaderBase|BinaryReader|ReaderBase)::", f.qn)]
    pending = list(errs)
    for _ in range(4):
        for f in list(pending):
            stops = [n["i"] for n in f.walk() if n["k"] == "CXXThrowExpr" or
                     (n["k"] in ("CXXMemberCallExpr", "CallExpr") and n.get("calleeId") in noret)]
            if stops and f.cfg.path_avoiding(None, "exit", stops, from_entry=True) is None:
                noret.add(f.id)
                pending.remove(f)
    seen = set()
    for f in errs:
        key = "%s|%s" % (f.qn, f.d.get("sig"))
        if (key, f.loc) in seen:
            continue
        seen.add((key, f.loc))
        n1.check(f.id in noret, key, short_loc(f.loc),
                 "%s ends in a throw on every path" % f.full,
                 "%s can return normally: checks of the form `if (bad) ReportError(...)` would "
                 "fall through with the unvalidated value" % f.full)

    def is_noreturn(n):
        if n.get("calleeId") in noret:
            return True
        # variadic wrappers / other instantiations not exported: by name on a reader object
        return is_report_error(n) and re.match(r"mp::internal::(TextReader|BinaryReader)", n.get("callee", "")) is not None \
            and n.get("calleeId") not in F.by_id

    SR = SymRange(F, member_symbol, is_noreturn, raw_read)
    for s in HEADER_FIELDS:
        SR.cons.append(GE(V(s), Lin.const(0)))
        SR.cons.append(LE(V(s), Lin.const(INT_MAX)))
    SR.cons += [GE(NVE, NV), LE(NVE, Lin.const(INT_MAX))]

    # ---- F1 -----------------------------------------------------------------------------
    f1 = rep.rule("C02.F1", "FLOW",
                  "every item index passed to a handler callback is entailed to be in [0, declared "
                  "count) by the reader's own checks", floor=25)
    callers_of = {}
    for g in nlr:
        for c in g.walk():
            if c["k"] in ("CXXMemberCallExpr", "CallExpr") and c.get("calleeId"):
                callers_of.setdefault(c["calleeId"], []).append((g, c))
    seen = set()
    sites = 0
    for g in nlr:
        for c in g.walk():
            m = handler_call(g, c)
            if m is None:
                continue
            spec = TABLE.get(m)
            args = call_args(c)
            if m in OBJ_CALLBACKS:
                a = strip(args[OBJ_CALLBACKS[m]])
                shape = a["k"] == "CXXMemberCallExpr" and a.get("callee", "").endswith("::resulting_obj_index")
                key = "%s|%s|resulting-index" % (short_fn(g), m)
                if (key, c.get("l")) not in seen:
                    seen.add((key, c.get("l")))
                    f1.check(shape, key, short_loc(c.get("l")),
                             "%s receives resulting_obj_index(<checked index>)" % m,
                             "%s receives `%s`, not resulting_obj_index(index)" % (m, render(a)))
                continue
            if m == "SetValue":
                spec = {0: None}
            if spec is None:
                continue
            for pos, bound in spec.items():
                if pos >= len(args):
                    continue
                sites += 1
                key = "%s|%s|arg%d" % (short_fn(g), m, pos)
                if (key, c.get("l"), g.full.split(">::")[0][:80]) in seen:
                    continue
                seen.add((key, c.get("l"), g.full.split(">::")[0][:80]))
                ok, why = prove_in_range(SR, F, g, c, args[pos], bound, callers_of, m)
                inst = reader_kind(g)
                f1.check(ok, "%s|%s" % (key, inst), short_loc(c.get("l")),
                         "%s(%s): %s" % (m, render(args[pos]), why), "%s(%s): %s" % (m, render(args[pos]), why))
    rep.extra["callback_argument_sites"] = sites
    return rep


def reader_kind(g):
    m = re.search(r"NLReader<mp::internal::(\w+)<([^>]*)>", g.full)
    if not m:
        return "?"
    return m.group(1) + ("/swap" if "Endianness" in m.group(2) else "") + \
        ("/bounds-first" if "VarBoundHandler" in g.full.split(">::")[0] else "")


def short_fn(g):
    s = g.qn.replace("mp::internal::", "")
    t = re.search(r"::(\w+)<.*::(\w+Handler|DoubleReader|IntReader)[,>]", g.full)
    tpl = re.findall(r"NLReader<[^:]*::\w+<[^>]*>, .*?>::(.*)$", g.full)
    tail = g.full.split(">::")[-1] if ">::" in g.full else g.name
    tail = re.sub(r"mp::internal::NLReader<.*?>>::", "", tail)
    tail = re.sub(r"mp::internal::", "", tail)
    if len(tail) > 70:
        tail = tail[:70]
    return "%s[%s]" % (s, tail) if "<" in tail else s


def prove_in_range(SR, F, g, call, arg, bound, callers_of, method, depth=0, env=None):
    """Obligation 0 <= arg < bound at this call site; parameters of g are
    resolved through g's callers inside the reader."""
    env = dict(env or {})
    psym = {}
    for p in g.params:
        if p["declId"] not in env:
            x = SR.new("p")
            env[p["declId"]] = x
            psym[p["declId"]] = x
    v, cons = SR.arg_range(g, call, arg, env)
    if v is None:
        return False, "value of `%s` cannot be traced to a checked read" % render(arg)
    if bound is None:      # SetValue: bound is the num_items parameter of ReadSuffixValues
        pn = [p for p in g.params if p["name"] == "num_items"]
        if not pn:
            return False, "no num_items parameter to bound the suffix index"
        bound_l = env[pn[0]["declId"]]
    else:
        bound_l = bound
    allc = SR.cons + cons
    lo_ok = entails(allc, GE(v, Lin.const(0)))
    hi_ok = entails(allc, LT(v, bound_l))
    uses_param = any(str(s) in repr(v) + repr(cons) + repr(bound_l) for s in psym.values())
    if lo_ok and hi_ok and bound is not None:
        return True, "0 <= %r < %r entailed" % (v, bound_l)
    if (bound is None or uses_param) and depth < 3:
        cs = callers_of.get(g.id, [])
        if not cs:
            return False, "needs the callers of %s but none found" % g.name
        msgs = []
        for (h, c2) in cs:
            env2 = {}
            henv = {}
            for p in h.params:
                henv[p["declId"]] = SR.new("p")
            c_cons = []
            for p, a in zip(g.params, call_args(c2)):
                av = SR.value(h, a, henv, c_cons)
                if av is not None:
                    env2[p["declId"]] = av
            c_cons += SR.fact_constraints(h, c2, henv)
            v2, cons2 = SR.arg_range(g, call, arg, env2)
            if v2 is None:
                return False, "not traceable through caller %s" % h.name
            if bound is None:
                pn = [p for p in g.params if p["name"] == "num_items"][0]
                b2 = env2.get(pn["declId"])
                want = suffix_bound(h)
                if b2 is None or want is None:
                    return False, "suffix item count not resolved in caller %s" % h.name
                all2 = SR.cons + cons2 + c_cons
                okb = entails(all2, GE(b2, want)) and entails(all2, LE(b2, want))
                if not okb:
                    return False, "caller %s passes num_items = %r, expected %r" % (h.full[-60:], b2, want)
                bl = want
            else:
                bl = bound
            all2 = SR.cons + cons2 + c_cons
            if not (entails(all2, GE(v2, Lin.const(0))) and entails(all2, LT(v2, bl))):
                # one more level up if the caller's own parameters are involved
                sub_ok, sub_why = (False, "")
                if depth < 2 and any(repr(x) in repr(v2) + repr(all2[len(SR.cons):]) for x in henv.values()):
                    sub_ok, sub_why = prove_via(SR, F, g, call, arg, bl, callers_of, h, c2, depth + 1)
                if not sub_ok:
                    return False, "via %s: 0 <= %r < %r not entailed %s" % (h.name, v2, bl, sub_why)
            msgs.append("%s: 0 <= %r < %r" % (h.name, v2, bl))
        return True, "entailed at all %d call site(s) of %s: %s" % (len(cs), g.name, "; ".join(msgs)[:200])
    return False, "0 <= %r < %r not entailed (lower %s, upper %s)" % (v, bound_l, lo_ok, hi_ok)


def prove_via(SR, F, g, call, arg, bound, callers_of, h, c2, depth):
    """Second level: g called from h at c2, h's parameters resolved by h's callers."""
    cs = callers_of.get(h.id, [])
    if not cs:
        return False, "(no callers of %s)" % h.name
    for (h2, c3) in cs:
        h2env = {p["declId"]: SR.new("p") for p in h2.params}
        c_cons = []
        henv = {}
        for p, a in zip(h.params, call_args(c3)):
            av = SR.value(h2, a, h2env, c_cons)
            if av is not None:
                henv[p["declId"]] = av
        c_cons += SR.fact_constraints(h2, c3, h2env)
        env2 = {}
        for p, a in zip(g.params, call_args(c2)):
            av = SR.value(h, a, henv, c_cons)
            if av is not None:
                env2[p["declId"]] = av
        c_cons += SR.fact_constraints(h, c2, henv)
        v2, cons2 = SR.arg_range(g, call, arg, env2)
        if v2 is None:
            return False, "(not traceable via %s)" % h2.name
        all2 = SR.cons + cons2 + c_cons
        if not (entails(all2, GE(v2, Lin.const(0))) and entails(all2, LT(v2, bound))):
            return False, "(via %s <- %s: %r)" % (h.name, h2.name, v2)
    return True, ""


def suffix_bound(h):
    m = re.search(r"ReadSuffix<.*::(\w+Handler)>", h.full)
    return SUFFIX_ITEMS.get(m.group(1)) if m else None
