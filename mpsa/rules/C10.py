"""C10 - solve-result codes are classified and reported as documented.

Rules (DESIGN 4/C10): T1 enum ranges, R1 predicate code sets (interval-set
abstract evaluation, exact), G1 objective text guarded by the candidate
predicate, F1 status forwarded unmodified to the .sol writer, T2 registry rows.
"""
import os, re
from ..absint import IntervalSet, INF, FLIP
from ..cfg import Facts, kids, strip, walk, cv, render, short_loc, call_args
from ..facts import export_many, export, AnalysisBroken
from ..flow import transitive_overriders, bare_ref, refs_to, is_write
from .. import units

LEVEL = "proof"
TECHNIQUE = ("static analysis: interval-set abstract interpretation of the code "
             "predicates over the clang AST (exact), enum/table agreement, CFG "
             "control-dependence and parameter-forwarding flow rules")
LEVEL_TEXT = ("Every obligation is a statement about all codes -200..999 or all CFG paths, "
              "decided exactly from the type-checked source of the StdBackend instantiation; "
              "the predicates contain only comparisons with constants, so the computed code "
              "sets are exact, and the message/sol forwarding clauses are path properties of "
              "a loop-free guard structure."
              "  Also decided (added after the seeded rounds): a coded error caught by the driver is reported with its own code.")
LEVEL_NOTE = ("Trusted: clang 14 front end/CFG, tool/mpx.cc, mpsa IntervalSet. Vendor backends "
              "outside the repository are not parsed.")
DESIGN_REF = "DESIGN.md section 4, C10"
EXPLANATION = (
    "Decides the whole statement for the code in the repository: (T1) the enum "
    "mp::sol::Status tiles 0..999 into exactly the nine documented ranges, sub-codes "
    "inside their class; (R1) every StdBackend::IsProblem* predicate (and every "
    "overrider in the analysed backends) is evaluated abstractly to the exact set of "
    "integer codes for which it returns true and compared with the documented set on "
    "the whole quantifier domain -200..999 (symbolic enumeration, exact because the "
    "predicates contain only comparisons with constants); (G1) every piece of "
    "objective-value text in ReportSolution2AMPL is control-dependent on "
    "IsProblemSolvedOrFeasible() and, when that holds and objective values exist, "
    "no path to the exit avoids one; (F1) the code given to HandleSolution is "
    "SolveCode() and is forwarded as the bare parameter through every hop to "
    "SolutionAdapter::status_ and printed by WriteSolFile; (T2) the pre-registered "
    "-! table rows are the nine documented ranges.")
ASSUMPTIONS = [
    "documented ranges = the nine ranges of the property statement, cross-checked "
    "against doc/source/features-guide.rst on every run",
    "backends outside the repository (vendor drivers needing SDK headers) are not "
    "parsed; their overriders of the predicates are not covered",
]
TRUSTED = ["clang 14 front end + CFG builder", "tool/mpx.cc exporter",
           "mpsa/absint.IntervalSet (exact set algebra over Z)", "mpsa/rules/C10.py"]

DOMAIN = IntervalSet([(-200, 999)])
RANGES = [("SOLVED", 0, 99), ("UNCERTAIN", 100, 199), ("INFEASIBLE", 200, 299),
          ("UNBOUNDED_FEAS", 300, 349), ("UNBOUNDED_NO_FEAS", 350, 399),
          ("LIMIT_FEAS", 400, 449), ("LIMIT_INF_UNB", 450, 469),
          ("LIMIT_NO_FEAS", 470, 499), ("FAILURE", 500, 999)]


def S(*ivs):
    return IntervalSet(ivs)


REQUIRED = {
    "IsProblemSolved": S((0, 99)),
    "IsProblemSolvedOrFeasible": S((0, 99), (300, 349), (400, 449)),
    "IsProblemInfeasible": S((200, 299)),
    "IsProblemUnbounded": S((300, 399)),
    "IsProblemIndiffInfOrUnb": S((450, 469)),
    "IsProblemInfOrUnb": S((200, 399), (450, 469)),
    "IsSolStatusRetrieved": ~S((-200, -200)),
}
PRED_RE = r".*::(IsProblemSolved|IsProblemSolvedOrFeasible|IsProblemInfeasible|IsProblemUnbounded|IsProblemIndiffInfOrUnb|IsProblemInfOrUnb|IsSolStatusRetrieved)"

CMP = ("<", "<=", ">", ">=", "==", "!=")


class PredEval:
    """Abstract evaluation of a predicate body to the set of codes it accepts."""

    def __init__(self, facts, func, depth=0):
        self.facts, self.f, self.depth = facts, func, depth
        self.code_vars = set()

    def is_code(self, n):
        n = strip(n)
        if n is None:
            return False
        if n["k"] == "CXXMemberCallExpr" and n.get("callee", "").endswith("::SolveCode") \
                and not call_args(n):
            obj = strip(kids(strip(kids(n)[0]))[0]) if kids(strip(kids(n)[0])) else None
            return obj is not None and obj["k"] == "CXXThisExpr"
        if n["k"] == "DeclRefExpr" and n.get("declId") in self.code_vars:
            return True
        return False

    def expr(self, n):
        n = strip(n)
        k = n["k"]
        if k == "CXXBoolLiteralExpr":
            return IntervalSet.all() if n.get("v") == "1" else IntervalSet.empty()
        if k == "BinaryOperator":
            op = n["op"]
            a, b = kids(n)
            if op == "&&":
                return self.expr(a) & self.expr(b)
            if op == "||":
                return self.expr(a) | self.expr(b)
            if op in CMP:
                ca, cb = cv(a), cv(b)
                if self.is_code(a) and cb is not None:
                    return IntervalSet.cmp(op, cb)
                if self.is_code(b) and ca is not None:
                    return IntervalSet.cmp(FLIP[op], ca)
        if k == "UnaryOperator" and n.get("op") == "!":
            return ~self.expr(kids(n)[0])
        if k in ("CallExpr", "CXXMemberCallExpr") and call_args(n) and self.depth < 4:
            # a one-line predicate over its parameters (e.g. IsCodeInRange(code, first, last)): evaluated on the arguments
            from ..cfg import _pure_predicate, _subst_params
            g_ = getattr(self.facts, "_by_id", {}).get(n.get("calleeId"))
            e_ = _pure_predicate(g_) if g_ is not None else None
            if e_ is not None and len(call_args(n)) == len(g_.params):
                binding = {p_["declId"]: strip(a_) for p_, a_ in zip(g_.params, call_args(n))}
                return self.expr(_subst_params(strip(e_), binding))
        if k == "CXXMemberCallExpr" and not call_args(n):
            name = n.get("callee", "").split("::")[-1]
            if name in REQUIRED and self.depth < 4:
                tgt = [g for g in self.facts.funcs if g.id == n.get("calleeId")]
                if tgt:
                    return PredEval(self.facts, tgt[0], self.depth + 1).body()
        raise AnalysisBroken(
            "C10.R1: construct outside the comparison-only fragment in %s at %s: %s"
            % (self.f.full, short_loc(n.get("l")), render(n)))

    def stmts(self, ss, path):
        """returns the set of codes (within `path`) for which `true` is returned;
        second component: codes that fall through."""
        acc = IntervalSet.empty()
        for s in ss:
            if s is None or path.is_empty():
                continue
            k = s["k"]
            if k == "CompoundStmt":
                t, path = self.stmts(kids(s), path)
                acc |= t
            elif k == "DeclStmt":
                for v in kids(s):
                    if kids(v) and self.is_code(kids(v)[0]):
                        self.code_vars.add(v["declId"])
                    elif kids(v):
                        raise AnalysisBroken("C10.R1: local %s in %s is not the solve code"
                                             % (v.get("name"), self.f.full))
            elif k == "ReturnStmt":
                acc |= self.expr(kids(s)[0]) & path
                path = IntervalSet.empty()
            elif k == "IfStmt":
                ks = s.get("c", [])
                ks = [x for x in ks if x is not None]
                c = self.expr(ks[0])
                t1, p1 = self.stmts([ks[1]], path & c)
                if len(ks) > 2:
                    t2, p2 = self.stmts([ks[2]], path & ~c)
                else:
                    t2, p2 = IntervalSet.empty(), path & ~c
                acc |= t1 | t2
                path = p1 | p2
            elif k == "NullStmt":
                pass
            elif s.get("mo") == "assert" or s.get("m") == "assert":
                pass   # assert(): no effect on the result (NDEBUG or not)
            else:
                raise AnalysisBroken("C10.R1: statement %s outside the fragment in %s at %s"
                                     % (k, self.f.full, short_loc(s.get("l"))))
        return acc, path

    def body(self):
        t, rest = self.stmts([self.f.body], IntervalSet.all())
        if not rest.is_empty():
            raise AnalysisBroken("C10.R1: %s can fall off the end" % self.f.full)
        return t


def lit_in(n):
    for x in walk(n):
        if x["k"] == "StringLiteral":
            return x.get("v", "")
    return None


def run(rep, ctx):
    repo = ctx["repo"]
    vis = [u for u, k in units.UNITS.items() if k == "visitor"]
    fn = [PRED_RE, r"mp::FlatBackend::GetSolution", r"mp::MIPBackend::ReportRays", r".*::HandleSolution", r"mp::SolutionAdapter::.*", r"mp::WriteSolFile",
          r"mp::StdBackend::ReportSolution2AMPL", r"mp::StdBackend::SolveCode",
          r"mp::SolveResultRegistry::SolveResultRegistry"]
    jobs = [dict(unit=u, fn=fn, enum=[r"mp::sol::Status"], repo=repo, closure=1,
                 closure_roots=r"::IsProblem[A-Za-z]*$") for u in vis]
    jobs.append(dict(unit="src/solver.cc", fn=fn, enum=[r"mp::sol::Status"], repo=repo, closure=1, closure_roots=r"SolveResultRegistry::SolveResultRegistry$"))
    if ctx["tier"] == "thorough":
        for u, k in units.UNITS.items():
            if k in ("test", "mp") and u != "src/solver.cc":
                jobs.append(dict(unit=u, fn=fn, repo=repo))
    res = export_many(jobs)
    F = Facts(res)
    rep.note_units([j["unit"] for j in jobs])
    rep.note_funcs(f for f in F.funcs if not f.is_dependent())

    # ---- U1: who uses which class predicate ------------------------------------------------------------
    u1 = rep.rule("C10.U1", "WHO", "every use of a solve-result class predicate is the predicate of the class that use is about (frozen use-site table)", floor=6)
    USES = {
        "mp::StdBackend::ReportStandardSuffixes": ({"IsProblemSolved"}, "condition numbers are reported for solved problems"),
        "mp::StdBackend::ReportSolution2AMPL": ({"IsProblemSolvedOrFeasible"}, "objective value in the message iff a solution candidate is indicated"),
        "mp::StdBackend::IsProblemInfOrUnb": ({"IsProblemIndiffInfOrUnb"}, "infeasible-or-unbounded includes the undecided class"),
        "mp::MIPBackend::ReportRays": ({"IsProblemIndiffInfOrUnb", "IsProblemInfeasible", "IsProblemUnbounded"}, "primal ray: unbounded or undecided; dual ray: infeasible or undecided"),
        "mp::MIPBackend::CalculateAndReportIIS": ({"IsProblemIndiffInfOrUnb", "IsProblemInfOrUnb"}, "IIS for infeasible / unbounded / undecided results"),
        "mp::FlatBackend::GetSolution": ({"IsProblemInfeasible"}, "the 'known infeasible' flag of the solution check (sol:chk:infeas: 'check even infeasible solution candidates')"),
    }
    PN = r"::(IsProblemSolved|IsProblemSolvedOrFeasible|IsProblemInfeasible|IsProblemUnbounded|IsProblemIndiffInfOrUnb|IsProblemInfOrUnb)$"
    found = {}
    for u in vis:
        if not u.endswith("visitorbackend.cc"):
            continue
        for fcg in export(u, callgraph=True, repo=repo)["callgraph"]:
            hits = {c.split("\t")[1].split("::")[-1] for c in fcg["callees"] if re.search(PN, c.split("\t")[1])}
            if hits:
                found.setdefault(fcg["qn"], set()).update(hits)
    for qn, (want, why) in sorted(USES.items()):
        got = found.get(qn)
        if got is None:
            u1.fail("site|" + qn.replace("mp::", ""), "", "%s no longer consults %s (%s)" % (qn.replace("mp::", ""), sorted(want), why))
            continue
        u1.check(got == want, "site|" + qn.replace("mp::", ""), "", "%s uses %s (%s)" % (qn.replace("mp::", ""), sorted(want), why),
                 "%s now classifies with %s instead of %s: %s - codes outside that class are treated as members of it" % (qn.replace("mp::", ""), sorted(got), sorted(want), why))
    for qn in sorted(set(found) - set(USES)):
        if re.search(PN, qn):
            continue
        raise AnalysisBroken("C10.U1: new use site %s of %s is not in the reference table (read it and extend the table)" % (qn, sorted(found[qn])))
    # which class gates which ray
    rr = [f for f in F.funcs if f.qn == "mp::MIPBackend::ReportRays" and not f.is_dependent() and f.cfg is not None]
    if not rr:
        raise AnalysisBroken("C10.U1: MIPBackend::ReportRays not exported")
    f = rr[0]
    locs = {v["declId"]: kids(v)[0] for v in f.walk() if v["k"] == "VarDecl" and kids(v)}

    def preds_in(n, depth=0):
        out = set()
        for x in walk(n):
            if x["k"] in ("CXXMemberCallExpr", "CallExpr") and re.search(PN, "::" + (x.get("callee") or "").split("::")[-1]):
                out.add((x.get("callee") or "").split("::")[-1])
            if x["k"] == "DeclRefExpr" and x.get("declId") in locs and depth < 3:
                out |= preds_in(locs[x["declId"]], depth + 1)
        return out
    WANT_RAY = {"suf_unbdd": ({"IsProblemUnbounded", "IsProblemIndiffInfOrUnb"}, "primal ray"), "suf_dunbdd": ({"IsProblemInfeasible", "IsProblemIndiffInfOrUnb"}, "dual ray")}
    for c in f.walk():
        if c["k"] == "CXXMemberCallExpr" and (c.get("callee") or "").split("::")[-1] == "ReportSuffix":
            sfx = render(call_args(c)[0]).replace("this->", "")
            if sfx not in WANT_RAY:
                continue
            got = set()
            for anc in f.ancestors(c):
                if anc["k"] == "IfStmt":
                    real = [x for x in anc.get("c", []) if x is not None]
                    if len(real) >= 2 and any(y is c for y in walk(real[1])):
                        got |= preds_in(real[0])
            want, what = WANT_RAY[sfx]
            u1.check(got == want, "ray|" + sfx, short_loc(c.get("l")), "the %s (%s) is reported for %s" % (what, sfx, sorted(want)),
                     "the %s (%s) is reported when %s holds; it belongs to %s: the suffix is written for the wrong result class and missing for the right one" % (what, sfx, sorted(got), sorted(want)))
    # the flag really is what the checker is told
    for f in F.funcs:
        if f.qn == "mp::FlatBackend::GetSolution" and not f.is_dependent() and f.cfg is not None:
            v = [x for x in f.walk() if x["k"] == "VarDecl" and kids(x) and "IsProblemInfeasible" in render(kids(x)[0])]
            ps = [c for c in f.walk() if c["k"] == "CXXMemberCallExpr" and (c.get("callee") or "").endswith("::PostsolveSolution")]
            okf = len(v) == 1 and len(ps) == 1 and any(x["k"] == "DeclRefExpr" and x.get("declId") == v[0]["declId"] for x in walk(ps[0]))
            u1.check(okf, "flag-reaches-checker", short_loc(f.loc), "the predicate's value is the 4th element handed to PostsolveSolution (the checker's `known infeasible`)")
            break

    # ---- T1 -------------------------------------------------------------
    t1 = rep.rule("C10.T1", "TABLE",
                  "enum mp::sol::Status: X/X_LAST pairs are exactly the nine documented "
                  "ranges tiling 0..999; sub-codes lie inside their class", floor=9)
    ev = F.enum_values("mp::sol::Status")
    if ev is None:
        raise AnalysisBroken("enum mp::sol::Status not found")
    doc = parse_doc(repo)
    pairs = {n: (ev[n], ev[n + "_LAST"]) for n in ev if n + "_LAST" in ev}
    top = {n: r for n, r in pairs.items()
           if not any(m != n and q[0] <= r[0] and r[1] <= q[1] and q != r
                      for m, q in pairs.items())}
    for name, lo, hi in RANGES:
        got = top.get(name)
        okdoc = (lo, hi) in doc
        t1.check(got == (lo, hi) and okdoc, "range|%s" % name, "include/mp/common.h",
                 "%s..%s_LAST = %s, documented %d-%d%s" % (
                     name, name, got, lo, hi, "" if okdoc else " (NOT in features-guide.rst)"))
    extra = set(top) - {r[0] for r in RANGES}
    t1.check(not extra, "no-extra-top-level-range", "include/mp/common.h",
             "top-level X/X_LAST pairs beyond the nine: %s" % sorted(extra))
    tiles = sorted(top.values())
    contiguous = bool(tiles) and tiles[0][0] == 0 and tiles[-1][1] == 999 and all(
        tiles[i][1] + 1 == tiles[i + 1][0] for i in range(len(tiles) - 1))
    t1.check(contiguous, "tiling", "include/mp/common.h", "ranges %s tile [0,999]" % tiles)
    classes = sorted(top, key=len, reverse=True)
    for n, v in sorted(ev.items(), key=lambda kv: kv[1]):
        if n in top or n.endswith("_LAST") and n[:-5] in pairs:
            continue
        if v < 0:
            continue        # NOT_SET, UNKNOWN: outside the registered codes
        cls = next((c for c in classes if n.startswith(c + "_")), None)
        if cls is not None:
            lo, hi = top[cls]
            t1.check(lo <= v <= hi, "subcode|%s" % n, "include/mp/common.h",
                     "%s=%d inside %s [%d,%d]" % (n, v, cls, lo, hi))
        else:
            # free-standing names (NUMERIC, SPECIFIC, deprecated aliases): must
            # fall in some documented range
            t1.check(any(lo <= v <= hi for lo, hi in top.values()), "code|%s" % n,
                     "include/mp/common.h", "%s=%d inside a documented range" % (n, v))

    # ---- R1 -------------------------------------------------------------
    r1 = rep.rule("C10.R1", "RANGE",
                  "each IsProblem*/IsSolStatusRetrieved predicate accepts exactly the "
                  "documented set of codes on -200..999 (interval-set evaluation)", floor=7)
    preds = [f for f in F.funcs if f.name in REQUIRED and not f.is_dependent()
             and f.cfg is not None]
    seen = set()
    for f in preds:
        if f.id in seen:
            continue
        seen.add(f.id)
        got = PredEval(F, f).body() & DOMAIN
        want = REQUIRED[f.name] & DOMAIN
        key = "%s|%s" % (f.qn, f.name) if f.qn.startswith("mp::StdBackend::") \
            else "%s|%s" % (f.full, f.name)
        detail = "%s accepts %r, documented %r" % (f.full, got, want)
        if got != want:
            detail += "; wrongly accepted %r, wrongly rejected %r" % (got - want, want - got)
        r1.check(got == want, key, short_loc(f.loc), detail)
    have = {f.name for f in preds if f.qn.startswith("mp::StdBackend::")}
    if have != set(REQUIRED):
        raise AnalysisBroken("C10.R1: StdBackend predicates not found: %s"
                             % sorted(set(REQUIRED) - have))

    # ---- G1 -------------------------------------------------------------
    g1 = rep.rule("C10.G1", "GUARD",
                  "objective text in ReportSolution2AMPL is written only under "
                  "IsProblemSolvedOrFeasible(), and always when objective values exist", floor=4)
    rs = [f for f in F.by_qn("mp::StdBackend::ReportSolution2AMPL") if f.cfg]
    if not rs:
        raise AnalysisBroken("StdBackend::ReportSolution2AMPL instantiation not found")
    for f in rs[:1]:
        cfg = f.cfg
        guard_conds = {n["i"] for n in f.walk()
                       if n["k"] == "CXXMemberCallExpr" and not call_args(n)
                       and n.get("callee", "").endswith("::IsProblemSolvedOrFeasible")}
        objw = []
        for c in f.calls(name="write"):
            args = call_args(c)
            lit = lit_in(args[0]) if args else None
            if lit and re.search(r"objective|_sobj", lit) and "alternative solution" not in lit:
                objw.append((c, lit))
        for a in f.find(lambda n: n["k"] == "BinaryOperator" and n.get("op") == "="):
            l = strip(kids(a)[0])
            if l["k"] == "DeclRefExpr" and l.get("name") == "obj_value":
                objw.append((a, "obj_value ="))

        def guarded(n):
            for (cid, pol) in cfg.facts_at(n):
                c = strip(f.nodes.get(cid))
                if c is not None and c["i"] in guard_conds and pol is True:
                    return True
                # condition node may be the ImplicitCast around the call
                if pol is True and any(x["i"] in guard_conds for x in walk(f.nodes[cid])) \
                        and strip(f.nodes[cid])["i"] in guard_conds:
                    return True
            return False
        for n, lit in objw:
            g1.check(guarded(n), "guard|%s" % lit.strip(), short_loc(n.get("l")),
                     "write of %r is control-dependent on IsProblemSolvedOrFeasible()" % lit,
                     "write of %r is NOT dominated by the true edge of "
                     "IsProblemSolvedOrFeasible()" % lit)
        # converse: candidate indicated and objective values exist => text written.  Shape-free: the guarded block is
        # explored for n = 1, 2, 3 objective values (tests on objvals.size()/empty() evaluated, every other condition forked)
        def size_cond(c, n):
            c = strip(c)
            if c is None:
                return None
            if c["k"] == "UnaryOperator" and c.get("op") == "!":
                v = size_cond(kids(c)[0], n)
                return None if v is None else (not v)
            if c["k"] == "CXXMemberCallExpr" and "objvals" in render(c):
                nm_ = (c.get("callee") or "").split("::")[-1]
                if nm_ == "size":
                    return n != 0
                if nm_ == "empty":
                    return n == 0
            if c["k"] == "BinaryOperator" and c.get("op") in ("<", "<=", ">", ">=", "==", "!="):
                a_, b_ = strip(kids(c)[0]), strip(kids(c)[1])
                def sz(x):
                    return x["k"] == "CXXMemberCallExpr" and (x.get("callee") or "").endswith("::size") and "objvals" in render(x)
                va = n if sz(a_) else cv(a_)
                vb = n if sz(b_) else cv(b_)
                if (sz(a_) or sz(b_)) and va is not None and vb is not None:
                    return {"<": va < vb, "<=": va <= vb, ">": va > vb, ">=": va >= vb, "==": va == vb, "!=": va != vb}[c["op"]]
            if c["k"] == "BinaryOperator" and c.get("op") in ("&&", "||"):
                x_, y_ = size_cond(kids(c)[0], n), size_cond(kids(c)[1], n)
                if x_ is None or y_ is None:
                    return None
                return (x_ and y_) if c["op"] == "&&" else (x_ or y_)
            return None

        def explore(stmts, n, wrote):
            """list of `wrote an objective text` flags, one per path through stmts"""
            if not stmts:
                return [wrote]
            s0, rest = stmts[0], stmts[1:]
            if s0 is None:
                return explore(rest, n, wrote)
            k0 = s0["k"]
            if k0 == "CompoundStmt":
                return explore(list(kids(s0)) + rest, n, wrote)
            if k0 == "IfStmt":
                ch_ = [x for x in s0["c"] if x is not None]
                v = size_cond(ch_[0], n)
                out_ = []
                if v is None or v:
                    out_ += explore([ch_[1]] + rest, n, wrote)
                if v is None or not v:
                    out_ += explore(([ch_[2]] if len(ch_) > 2 else []) + rest, n, wrote)
                return out_
            if k0 in ("ForStmt", "WhileStmt", "CXXForRangeStmt", "DoStmt"):
                return explore(rest, n, wrote)           # loop bodies add lines, they never replace the headline
            w_ = wrote or any(x["i"] in {n_["i"] for n_, lit_ in objw if "objective" in lit_} for x in walk(s0))
            return explore(rest, n, w_)
        gif = [x for x in f.walk() if x["k"] == "IfStmt" and any(y["i"] in guard_conds for y in walk(kids(x)[0]))]
        if not gif:
            g1.fail("values-test-under-guard", short_loc(f.loc), "no test of IsProblemSolvedOrFeasible() guards the objective text")
            continue
        tests = [x for x in f.walk() if x["k"] == "IfStmt" and "objvals" in render(kids(x)[0])]
        g1.check(bool(tests) and all(guarded(kids(x)[0]) or guarded(x) for x in tests), "values-test-under-guard", short_loc(gif[0].get("l")),
                 "the tests on the number of objective values are control-dependent on IsProblemSolvedOrFeasible()")
        missing = []
        for n_obj in (1, 2, 3):
            flags = explore([[x for x in gif[0]["c"] if x is not None][1]], n_obj, False)
            if not flags or not all(flags):
                missing.append(n_obj)
        g1.check(not missing, "always-when-values", short_loc(gif[0].get("l")),
                 "with 1, 2 or 3 objective values every path through the guarded block writes an objective text",
                 "with %s objective value(s) a path through the guarded block writes no objective text" % missing)

    # ---- F1 -------------------------------------------------------------
    f1 = rep.rule("C10.F1", "FLOW",
                  "status code = SolveCode() forwarded as the bare parameter through every "
                  "HandleSolution hop into SolutionAdapter::status_ and the objno line", floor=6)
    for f in rs[:1]:
        hs = f.calls(name="HandleSolution")
        if not hs:
            raise AnalysisBroken("no HandleSolution call in ReportSolution2AMPL")
        for c in hs:
            a0 = strip(call_args(c)[0])
            ok = a0["k"] == "CXXMemberCallExpr" and a0.get("callee", "").endswith("::SolveCode") \
                and not call_args(a0)
            f1.check(ok, "start|ReportSolution2AMPL", short_loc(c.get("l")),
                     "first argument of HandleSolution is %s" % render(a0))
            trace_forward(F, f1, c, 0, set(), 0)
    # SolveCode itself returns the stored code
    for g in F.by_qn("mp::StdBackend::SolveCode")[:1]:
        rets = g.find(lambda n: n["k"] == "ReturnStmt")
        ok = len(rets) == 1 and render(kids(rets[0])[0]) == "status_.first"
        f1.check(ok, "SolveCode-returns-stored", short_loc(g.loc),
                 "SolveCode() returns %s" % (render(kids(rets[0])[0]) if rets else "?"))
    # sink: SolutionAdapter ctor stores status, status() returns it, WriteSolFile prints it
    ctors = [g for g in F.by_qn("mp::SolutionAdapter::SolutionAdapter")]
    if not ctors:
        raise AnalysisBroken("SolutionAdapter constructor instantiation not found")
    g = ctors[0]
    p0 = g.params[0]["declId"]
    inits = [i for i in g.d.get("inits", []) if i.get("name") == "status_"]
    ok = bool(inits) and bare_ref(kids(inits[0])[0], p0)
    f1.check(ok, "sink|SolutionAdapter::status_", short_loc(g.loc),
             "status_ initialised with the bare first constructor parameter")
    for g in F.by_qn("mp::SolutionAdapter::status")[:1]:
        rets = g.find(lambda n: n["k"] == "ReturnStmt")
        f1.check(len(rets) == 1 and render(kids(rets[0])[0]) == "status_",
                 "sink|SolutionAdapter::status()", short_loc(g.loc), "returns status_")
    ws = F.by_qn("mp::WriteSolFile")
    if not ws:
        raise AnalysisBroken("WriteSolFile instantiation not found")
    for g in ws[:1]:
        found = False
        for c in g.calls(name="print"):
            args = call_args(c)
            lit = lit_in(args[0]) if args else None
            if lit and lit.startswith("objno "):
                found = True
                a = strip(args[2]) if len(args) > 2 else None
                f1.check(a is not None and render(a) == "sol.status()",
                         "sink|objno-line", short_loc(c.get("l")),
                         "second value of the objno line is %s" % render(a))
        if not found:
            raise AnalysisBroken("objno line not found in WriteSolFile")

    # ---- T2 -------------------------------------------------------------
    t2 = rep.rule("C10.T2", "TABLE",
                  "SolveResultRegistry pre-registers exactly the nine documented ranges", floor=9)
    regs = F.by_qn("mp::SolveResultRegistry::SolveResultRegistry")
    if not regs:
        raise AnalysisBroken("SolveResultRegistry constructor not found")
    rows = []
    # the table is written in the constructor or in a function that builds it for the constructor
    reg_nodes = list(regs[0].walk())
    for c_ in list(reg_nodes):
        g_ = getattr(F, "_by_id", {}).get(c_.get("calleeId")) if c_["k"] in ("CallExpr", "CXXMemberCallExpr") else None
        if g_ is not None and g_ is not regs[0] and g_.cfg is not None:
            reg_nodes += list(g_.walk())
    for n in reg_nodes:
        if n["k"] in ("CXXConstructExpr", "CXXTemporaryObjectExpr") and \
                n.get("callee", "").endswith("RegEntry::RegEntry"):
            a = kids(n)
            vals = [cv(x) for x in a[:2]]
            if len(a) == 3 and None not in vals:
                rows.append((vals[0], vals[1], n))
            elif len(a) == 2 and vals[0] is not None:
                rows.append((vals[0], vals[0], n))
    rng = {(a, b) for a, b, _ in rows if a != b}
    for name, lo, hi in RANGES:
        t2.check((lo, hi) in rng, "row|%s" % name, "src/solver.cc",
                 "registry has a row %d-%d" % (lo, hi))
    bad = [(a, b) for a, b in rng if (a, b) not in {(l, h) for _, l, h in RANGES}]
    t2.check(not bad, "no-undocumented-range-rows", "src/solver.cc",
             "range rows not among the documented ranges: %s" % bad)
    # ---- E1: results that arrive by exception keep their code (the clause of C09.P2, which reads the same handler) ---------
    e1 = rep.rule("C10.E1", "RANGE", "a coded mp::Error caught by BackendApp::Run is reported with its own solve result (a negative code becomes a failure code)", floor=1)
    from .C09 import run_error_codes as _rec
    Fr = Facts(export_many([dict(unit="solvers/visitor/main.cc", fn=[r"mp::BackendApp::Run"], repo=repo)]))
    runs = [g for g in Fr.funcs if g.qn == "mp::BackendApp::Run" and not g.is_dependent() and g.cfg is not None]
    if not runs:
        raise AnalysisBroken("C10.E1: BackendApp::Run not found")
    _rec(e1, Fr, runs[0])
    return rep


def trace_forward(F, rule, call, idx, seen, depth):
    """The callee(s) of `call` must forward parameter idx unmodified."""
    if depth > 8:
        raise AnalysisBroken("C10.F1: forwarding chain deeper than 8")
    cq = call.get("callee")
    if call.get("virtual"):
        targets = transitive_overriders(F.funcs, cq)
    else:
        targets = [g for g in F.funcs if g.id == call.get("calleeId")]
    targets = [g for g in targets if not g.is_dependent()]
    for g in targets:
        if g.id in seen:
            continue
        seen.add(g.id)
        if g.qn.endswith("SolutionAdapter::SolutionAdapter"):
            continue
        if idx >= len(g.params):
            continue
        pid = g.params[idx]["declId"]
        uses = refs_to(g, pid)
        if not uses:
            rule.ok("hop|%s|ignored" % g.qn, short_loc(g.loc),
                    "%s ignores the code (no .sol written on this branch)" % g.full)
            continue
        writes = [u for u in uses if is_write(g, u) is True]
        rule.check(not writes, "hop|%s|param-not-assigned" % g.qn, short_loc(g.loc),
                   "parameter `%s` is never assigned in %s" % (g.params[idx]["name"], g.full))
        fwd = 0
        for c in g.walk():
            if c["k"] not in ("CallExpr", "CXXMemberCallExpr", "CXXConstructExpr",
                              "CXXTemporaryObjectExpr"):
                continue
            args = call_args(c)
            for ai, a in enumerate(args):
                mentions = any(x.get("declId") == pid for x in walk(a))
                if not mentions:
                    continue
                tgt = c.get("callee", "")
                if not (tgt.endswith("::HandleSolution") or tgt.endswith("SolutionAdapter::SolutionAdapter")):
                    continue
                fwd += 1
                rule.check(bare_ref(a, pid) and ai == 0,
                           "hop|%s->%s" % (g.qn, tgt), short_loc(c.get("l")),
                           "%s passes `%s` as argument %d of %s" % (g.full, render(a), ai, tgt))
                if not tgt.endswith("SolutionAdapter::SolutionAdapter"):
                    trace_forward(F, rule, c, ai, seen, depth + 1)
        if fwd == 0:
            rule.ok("hop|%s|consumed" % g.qn, short_loc(g.loc),
                    "%s does not forward the code further" % g.full)


def parse_doc(repo):
    p = os.path.join(repo, "doc", "source", "features-guide.rst")
    out = set()
    try:
        for line in open(p, encoding="utf-8", errors="replace"):
            m = re.match(r"^\s+(\d+)-\s*(\d+)\s+\S", line)
            if m:
                out.add((int(m.group(1)), int(m.group(2))))
    except OSError:
        raise AnalysisBroken("doc/source/features-guide.rst not readable")
    return out
