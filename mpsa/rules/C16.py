"""C16 - GSL bindings return consistent derivatives or an explicit error.

The exported functions are the function pointers registered in funcadd_ASL
(ae->Addfunc(name, f, kind, nargs, ...)).  Rules over every registered function:
R1 arity bounds (proof): all subscripts of al->ra / al->derivs / al->dig are
   constants < nargs, Hessian subscripts < nargs(nargs+1)/2, loops over the
   argument vector are bounded by al->n;
P1 error funnel: every return is check_result(al, ...) or a 0 that is reached
   only after an error was set; the check_* helpers set an error whenever they
   return 0; check_result tests value, arguments, derivatives, Hessian for NaN;
G1 integer-valued arguments are validated by a check_*int* helper for that index;
G2 stores through al->derivs / al->hes are guarded by the pointer being set;
G3 functions that provide no derivatives raise the derivative error when asked;
T1 the GSL error handler is switched off before the first registration;
S1 formula identity: the body of every binding that stores derivatives is executed symbolically
   (mpsa/gslsym.py) into expressions V, D_i, H_ij over the arguments and GSL primitive applications;
   D_i must be identical to dV/dx_i and H_ij to d2V/dx_i dx_j, the right-hand sides obtained by
   symbolic differentiation with the derivative rules of mpsa/gslprims.py (DLMF facts) and the
   identity decided in random models of the function field (closed forms expanded, other
   transcendentals free up to their recurrences) - no mp or GSL code is run;
S2 special points: a constant stored under an equality guard (x == 0, |x| == 1) must equal the
   two-sided limit of the derivative's closed form, computed with exact rational Laurent series
   (mpsa/gslseries.py); where the one-sided limits differ or diverge the binding must store NaN
   (which check_result turns into an error).
"""
import re
from ..cfg import Facts, kids, strip, walk, cv, render, short_loc, call_args, TRANSPARENT
from ..facts import export_many, AnalysisBroken
from .. import units

LEVEL = "other"
TECHNIQUE = ("static analysis: registry-driven enumeration of all exported GSL bindings, constant "
             "subscript bounds against the registered arity (exact), CFG guard/dominance rules for the "
             "error funnel, integer-argument checks and derivative pointer guards; symbolic execution of "
             "each binding into value/derivative expressions, symbolic differentiation with a table of "
             "derivative rules for the GSL primitives and identity testing in random models of the "
             "function field; exact Laurent-series limits at guarded special points")
LEVEL_TEXT = ("For each of the ~344 registered functions the arity bounds are decided exactly (constant "
              "subscripts vs registered arity), and the error discipline (no return without "
              "check_result or a preceding error, guarded derivative stores, validated integer "
              "arguments) is decided on every CFG path. For the 131 bindings with derivative code the "
              "hand-derived formulas are decided as identities: each stored first/second derivative "
              "expression equals the symbolic derivative of the returned value expression (323 stored "
              "entries), and each constant stored at a guarded special point equals the exact two-sided "
              "limit (98 points) or an error is reported there. Not decided: floating-point accuracy of "
              "the formulas (cancellation, overflow), GSL's own values, and special points of "
              "transcendentals without a series in the table (listed in the evidence)."
              "  Also decided (added after the seeded rounds): the integer-argument helpers accept exactly the doubles their integer type represents; lambert_W0 / Wm1, whose domain error is a status with a finite value, are called in the _e form with the status tested.")
LEVEL_NOTE = ("Trusted: clang 14 front end/CFG, tool/mpx.cc, tool/stubs/funcadd.h (field names of ASL's "
              "arglist), the rule module. The GSL library itself is outside the analysis.")
DESIGN_REF = "DESIGN.md section 4, C16"
EXPLANATION = (
    "Decides for every function registered with AMPL: (R1, exact) argument, derivative, Hessian and "
    "dig subscripts stay inside the sizes implied by the registered arity; (P1) no path returns a "
    "value that bypassed check_result, and a literal 0 is returned only on paths where an error "
    "message was set (directly or by a check_* helper that is itself verified to set one), and "
    "check_result inspects value, arguments, n first derivatives and n(n+1)/2 second derivatives "
    "for NaN; (G1) every double argument converted to an integer type is validated by "
    "check_int_arg / check_uint_arg / check_bessel_args / check_zero_func_args for that index; "
    "(G2) every store through al->derivs / al->hes is control-dependent on the pointer(s); (G3) "
    "a function without derivative code raises the 'derivatives are not provided' error when "
    "derivatives are requested; (T1) gsl_set_error_handler_off precedes the registrations; (S1) "
    "for every binding that stores derivatives, the stored expressions D_i, H_ij (obtained by symbolic "
    "execution of the body, helpers and macros included) are identical to the first and second symbolic "
    "derivatives of the returned value expression, using derivative rules and three-term recurrences "
    "of the GSL primitives written from the standard references; identities are decided by evaluation "
    "in random models of the function field (polynomial identity testing; an equivalent rewriting of a "
    "formula, e.g. with another classical recurrence, stays silent); (S2) constants stored under an "
    "equality guard are the exact two-sided limits of the derivative (rational Laurent series), and "
    "where the one-sided limits differ the binding stores NaN, i.e. reports an error. Not decided: "
    "rounding behaviour of the formulas and the accuracy of GSL itself.")
ASSUMPTIONS = ["S1/S2: the value expression is what the GSL primitive computes (GSL implements the function its manual names); "
               "identities are tested in 28+ random models per entry, a false identity passes with negligible probability",
               "AMPL calls a registered function with al->n equal to the registered arity (or >= -(nargs+1) "
               "for variadic registrations) and with derivs/hes arrays of the corresponding sizes"]
TRUSTED = ["clang 14 front end + CFG builder", "tool/mpx.cc", "tool/stubs/funcadd.h", "mpsa/rules/C16.py",
           "mpsa/gslsym.py (symbolic executor, differentiation, models)", "mpsa/gslseries.py (Laurent series)",
           "mpsa/gslprims.py (closed forms, derivative rules and recurrences of the GSL primitives: DLMF 5-10, 13, 14, 18, 19, 25; "
           "GSL's conventions gegenpoly(lambda=0), Pcomp sign, scaled Bessel factors)"]

ERROR_SETTERS = ("error", "eval_error", "format_eval_error", "deriv_error", "format_error")
CHECKERS = ("check_args", "check_int_arg", "check_uint_arg", "check_bessel_args", "check_zero_func_args",
            "check_const_arg", "check_deriv_arg", "check_coupling_args", "check_ran_args")


def al_member(n):
    """'ra' / 'derivs' / 'hes' / 'dig' if n is al-><member>"""
    n = strip(n)
    if n is not None and n["k"] == "MemberExpr" and n.get("arrow") and n.get("qn", "").startswith("arglist::"):
        b = strip(kids(n)[0])
        if b is not None and b["k"] == "DeclRefExpr":
            return n.get("name")
    return None


class FuncView:
    def __init__(self, f):
        self.f = f
        self.alias = {}          # local declId -> 'derivs' / 'hes' / 'ra'
        for v in f.walk():
            if v["k"] == "VarDecl" and kids(v) and v.get("ct", "").endswith("*"):
                m = al_member(kids(v)[0])
                if m in ("derivs", "hes", "ra", "dig"):
                    self.alias[v["declId"]] = m

    def base_of(self, e):
        e = strip(e)
        m = al_member(e)
        if m:
            return m
        if e is not None and e["k"] == "DeclRefExpr" and e.get("declId") in self.alias:
            return self.alias[e["declId"]]
        return None

    def accesses(self):
        """(node, member, index node or const, is_store)"""
        out = []
        f = self.f
        for n in f.walk():
            if n["k"] == "ArraySubscriptExpr":
                m = self.base_of(kids(n)[0])
                if m:
                    out.append((n, m, kids(n)[1]))
            elif n["k"] == "UnaryOperator" and n.get("op") == "*":
                m = self.base_of(kids(n)[0])
                if m:
                    out.append((n, m, 0))
        return out

    def is_store(self, n):
        f = self.f
        cur = n
        for a in f.ancestors(n):
            if a["k"] in TRANSPARENT:
                if a["k"] == "ImplicitCastExpr" and a.get("ck") == "LValueToRValue":
                    return False
                cur = a
                continue
            if a["k"] in ("BinaryOperator", "CompoundAssignOperator"):
                op = a.get("op", "")
                if op == "=" or a["k"] == "CompoundAssignOperator":
                    return kids(a)[0] is cur
                return False
            return False
        return False


def run(rep, ctx):
    repo = ctx["repo"]
    fn = [r"ampl.*", r"funcadd_ASL", r"check_.*", r"error|deriv_error|eval_error|format_eval_error|format_error",
          r"[A-Za-z_0-9]+"]
    F = Facts(export_many([dict(unit="src/gsl/amplgsl.cc", fn=fn, repo=repo,
                                var=[r"[A-Z_0-9]*ARGNAMES", r"DEFAULT_ARGS", r"DEBYE_[A-Z_0-9]*"])]))
    # tables of integer-argument names used by WRAP_DISCRETE: index -> has a name
    name_tables = {}
    for qn, v in F.vars.items():
        if v.get("init"):
            init = strip(v["init"][0])
            if init is not None and init["k"] == "InitListExpr":
                name_tables[qn] = [any(x["k"] == "StringLiteral" for x in walk(e)) for e in kids(init)]
            else:
                name_tables[qn] = []
    F.by_id = {f.id: f for f in F.funcs if not f.is_dependent()}
    byname = {}
    for f in F.funcs:
        byname.setdefault(f.name, f)
    rep.note_units(["src/gsl/amplgsl.cc (with tool/stubs/funcadd.h)"])
    rep.note_funcs(F.funcs)
    fa = byname.get("funcadd_ASL")
    if fa is None:
        raise AnalysisBroken("funcadd_ASL not found")
    regs = []
    for c in fa.walk():
        if c["k"] == "CallExpr" and c.get("indirect") and "Addfunc" in render(kids(c)[0]):
            a = call_args(c)
            name = next((x.get("v") for x in walk(a[0]) if x["k"] == "StringLiteral"), None)
            fp = next((x for x in walk(a[1]) if x["k"] == "DeclRefExpr" and x.get("dk") == "Function"), None)
            kind, nargs = cv(a[2]), cv(a[3])
            if name and fp is not None and nargs is not None:
                regs.append((name, F.by_id.get(fp.get("declId")) or byname.get(fp.get("name")), kind, nargs, c))
    if len(regs) < 300:
        raise AnalysisBroken("only %d registrations found in funcadd_ASL" % len(regs))
    rep.extra["registered_functions"] = len(regs)

    # ---- T1 ------------------------------------------------------------------
    t1 = rep.rule("C16.T1", "PATH", "gsl_set_error_handler_off() precedes every registration", floor=1)
    off = [c for c in fa.walk() if c["k"] == "CallExpr" and c.get("callee") == "gsl_set_error_handler_off"]
    t1.check(len(off) == 1 and all(fa.cfg.dominates(off[0], r[4]) for r in regs), "handler-off-first",
             short_loc(fa.loc), "gsl_set_error_handler_off() dominates all %d Addfunc calls" % len(regs))

    # ---- helper contracts -----------------------------------------------------------
    p0 = rep.rule("C16.P0", "PATH",
                  "helpers: check_* return 0 only after an error was set; check_result tests value, "
                  "arguments, derivatives and Hessian for NaN", floor=6)
    helper_ok = {}
    for hname in CHECKERS:
        h = byname.get(hname)
        if h is None:
            continue
        ok = True
        why = []
        setters = [c["i"] for c in h.walk() if c["k"] == "CallExpr" and
                   (c.get("callee") in ERROR_SETTERS)]
        for r in h.find(lambda n: n["k"] == "ReturnStmt"):
            v = cv(kids(r)[0])
            if v != 0:
                continue
            # the path to this return passed an error setter, or the failure of a verified checker
            pos = h.cfg.position(r)
            direct = any(h.cfg.dominates(h.nodes[s], r) and _same_branch(h, h.nodes[s], r) for s in setters)
            via = False
            for cid, pol in h.cfg.facts_at(r):
                if failed_checker(h.nodes[cid], pol, helper_ok):
                    via = True
            if not (direct or via):
                ok = False
                why.append("return 0 at %s without an error" % short_loc(r.get("l")))
        helper_ok[hname] = ok
        p0.check(ok, "helper|%s" % hname, short_loc(h.loc),
                 "%s: every `return 0` follows an error setter / a failed checker" % hname, "; ".join(why))
    cr = byname.get("check_result")
    if cr is None:
        raise AnalysisBroken("check_result not found")
    txt = [render(c) for c in cr.walk() if c["k"] == "CallExpr" and "isnan" in c.get("callee", "")]

    def nan_scanner(h):
        """h(values, n) returns non-zero iff one of values[0..n-1] is NaN: a loop `i < n` whose body tests isnan(values[i])
        and returns a non-zero constant, and a final `return 0`"""
        if h is None or h.cfg is None or len(h.params) != 2:
            return False
        vals, cnt = h.params[0]["name"], h.params[1]["name"]
        loops = [n for n in h.walk() if n["k"] in ("ForStmt", "WhileStmt")]
        if len(loops) != 1:
            return False
        lp = loops[0]
        cond = lp.get("c", [None] * 5)[2] if lp["k"] == "ForStmt" else kids(lp)[0]
        ct = render(cond).replace(" ", "") if cond is not None else ""
        m_ = re.match(r"^([A-Za-z_]\w*)<%s$" % re.escape(cnt), ct)
        if not m_:
            return False
        iv = m_.group(1)
        tests = [c for c in walk(lp) if c["k"] == "CallExpr" and "isnan" in (c.get("callee") or "") and
                 render(call_args(c)[0]).replace(" ", "") == "%s[%s]" % (vals, iv)]
        rets = [r_ for r_ in h.walk() if r_["k"] == "ReturnStmt"]
        inside = [r_ for r_ in rets if h.enclosing(r_, ("ForStmt", "WhileStmt")) is lp]
        outside = [r_ for r_ in rets if r_ not in inside]
        return bool(tests) and len(inside) == 1 and cv(kids(inside[0])[0]) not in (None, 0) and \
            any(any(x is tests[0] or x.get("i") == tests[0].get("i") for x in walk(h.nodes[cid])) and pol is True for cid, pol in h.cfg.facts_at(inside[0])) and \
            len(outside) == 1 and cv(kids(outside[0])[0]) == 0
    scanned = {}          # array -> count expression, through a verified scanner helper
    for c in cr.walk():
        if c["k"] == "CallExpr" and c.get("calleeId") in F.by_id and len(call_args(c)) == 2:
            h_ = F.by_id[c["calleeId"]]
            a0 = al_member(call_args(c)[0])
            if a0 in ("ra", "derivs", "hes") and nan_scanner(h_):
                # the result must steer an error return: the call is (part of) a branch condition
                if cr.enclosing(c, ("IfStmt",)) is not None:
                    scanned[a0] = render(call_args(c)[1]).replace(" ", "")
    need = {"value": any("result" in t for t in txt),
            "arguments": any("al->ra[i]" in t for t in txt) or scanned.get("ra") == "al->n",
            "derivatives": any("al->derivs[i]" in t for t in txt) or scanned.get("derivs") == "al->n",
            "hessian": any("al->hes[i]" in t for t in txt) or "hes" in scanned}
    for k_, v_ in need.items():
        p0.check(v_, "check_result|%s" % k_, short_loc(cr.loc), "check_result tests the %s for NaN" % k_)
    def is_n(x):
        x = strip(x)
        return x is not None and x["k"] == "MemberExpr" and x.get("name") == "n" and x.get("arrow")
    hb = []
    for n in cr.walk():
        if n["k"] == "BinaryOperator" and n.get("op") == "/" and cv(kids(n)[1]) == 2:
            l = strip(kids(n)[0])
            if l["k"] == "BinaryOperator" and l.get("op") == "*":
                a, b = strip(kids(l)[0]), strip(kids(l)[1])
                for x, y in ((a, b), (b, a)):
                    if is_n(x) and y["k"] == "BinaryOperator" and y.get("op") == "+" and \
                            is_n(kids(y)[0]) and cv(kids(y)[1]) == 1:
                        hb.append(n)
    p0.check(bool(hb), "check_result|hessian-size", short_loc(cr.loc), "Hessian loop runs over n(n+1)/2 entries")
    if "hes" in scanned:
        # with a scanner helper the packed size must be the count handed over for al->hes
        hb = [n for n in hb if any(c["k"] == "CallExpr" and al_member(call_args(c)[0]) == "hes" and any(x is n or x.get("i") == n.get("i") for x in walk(c))
                                   for c in cr.walk() if c["k"] == "CallExpr" and len(call_args(c)) == 2)]
    first = [c for c in cr.walk() if c["k"] == "CallExpr" and ("isnan" in c.get("callee", "") or
                                                                 (c.get("calleeId") in F.by_id and nan_scanner(F.by_id[c["calleeId"]])))]
    p0.check(bool(first) and "result" in render(first[0]) and
             all(r_ is None or True for r_ in [None]), "check_result|value-first", short_loc(cr.loc),
             "the value is tested before the derivative arrays (value errors override derivative errors)")

    # ---- per registered function --------------------------------------------------------
    # the integer-argument helpers accept exactly the doubles that the integer type represents (evaluated on samples; a cast of a
    # value outside the target type is undefined in C - it is modelled as "some other number", so a round-trip test rejects it)
    import math as _math
    from ..cfg import MiniInt as _MI
    for hname, lo_, hi_ in (("check_int_arg", -2147483648.0, 2147483647.0), ("check_uint_arg", 0.0, 4294967295.0)):
        h = byname.get(hname)
        if h is None:
            raise AnalysisBroken("C16.P0: %s not found" % hname)
        bad = []
        for v_ in (-2147483649.0, -2147483648.0, -3.0, -1.0, -0.5, 0.0, 0.5, 7.0, 2147483647.0, 2147483648.0, 4294967295.0, 4294967296.0, 4294967299.0,
                   1e300, float("inf"), float("-inf"), float("nan")):
            errs, box = [], {}

            def atom(t_, n_, env_, v_=v_):
                k_ = n_["k"]
                if k_ == "ArraySubscriptExpr" and render(kids(n_)[0]).replace(" ", "").endswith("al->ra"):
                    return v_
                if k_ == "MemberExpr" and n_.get("name") == "derivs":
                    return 0
                if k_ in ("CStyleCastExpr", "CXXStaticCastExpr") and (n_.get("ct") or n_.get("t") or "") in ("int", "unsigned int", "unsigned"):
                    x_ = box["mi"].expr(kids(n_)[0], env_, 0)
                    lo2, hi2 = (-2147483648.0, 2147483647.0) if (n_.get("ct") or n_.get("t")) == "int" else (0.0, 4294967295.0)
                    if isinstance(x_, float) and (x_ != x_ or x_ in (float("inf"), float("-inf")) or not (lo2 - 1 < x_ < hi2 + 1)):
                        return 123456.0 if x_ != 123456.0 else 654321.0          # undefined conversion: some other number
                    return float(_math.trunc(x_))
                if k_ == "CallExpr":
                    cn_ = (n_.get("callee") or "").split("::")[-1]
                    if cn_ in ("error", "eval_error", "format_eval_error"):
                        errs.append(1)
                        return 0
                    if cn_ == "check_const_arg":
                        return 1
                    if cn_ in ("floor", "ceil", "trunc", "round", "rint", "fabs") and len(call_args(n_)) == 1:
                        x_ = box["mi"].expr(call_args(n_)[0], env_, 0)
                        if isinstance(x_, float) and (x_ != x_ or x_ in (float("inf"), float("-inf"))):
                            return abs(x_) if cn_ == "fabs" else x_
                        return float({"floor": _math.floor, "ceil": _math.ceil, "trunc": _math.trunc, "round": round, "rint": round, "fabs": abs}[cn_](x_))
                    if cn_ in ("gsl_isnan", "isnan") and len(call_args(n_)) == 1:
                        x_ = box["mi"].expr(call_args(n_)[0], env_, 0)
                        return int(x_ != x_)
                return None
            mi = _MI(F, atom)
            box["mi"] = mi
            try:
                ret_ = mi.call(h, [("obj", None, None), 0, ("obj", None, None)])
            except AnalysisBroken as e_:
                raise AnalysisBroken("C16.P0: %s: %s" % (hname, e_))
            repres = v_ == v_ and v_ not in (float("inf"), float("-inf")) and lo_ <= v_ <= hi_ and float(_math.trunc(v_)) == v_
            if bool(ret_) != repres or (not repres and not errs):
                bad.append((v_, ret_, bool(errs)))
        p0.check(not bad, "%s|exactly-representable" % hname, short_loc(h.loc), "%s accepts exactly the doubles its integer type represents (17 samples incl. the type's limits, inf, NaN)" % hname,
                 "%s: (argument, returned, error set) = %s - the GSL function is then called with a converted count that is not the argument" % (hname, bad[:3]))
    r1 = rep.rule("C16.R1", "RANGE",
                  "subscripts of al->ra/derivs/dig are constants < registered arity; Hessian subscripts "
                  "< arity(arity+1)/2; loops over the argument vector are bounded by al->n", floor=330)
    p1 = rep.rule("C16.P1", "PATH",
                  "every return of a registered function is check_result(al, ...) or a 0 reached only "
                  "after an error was set", floor=330)
    g1 = rep.rule("C16.G1", "GUARD",
                  "a double argument converted to an integer type is validated by a check_*int* helper "
                  "for the same index", floor=30)
    g2 = rep.rule("C16.G2", "GUARD",
                  "stores through al->derivs are guarded by al->derivs, stores through al->hes by "
                  "al->derivs and al->hes", floor=110)
    g3 = rep.rule("C16.G3", "GUARD",
                  "a function with no derivative code raises the derivative error when al->derivs is set",
                  floor=60)
    g4 = rep.rule("C16.G4", "GUARD",
                  "a function that stores some partial derivatives stores one for every argument or "
                  "enforces that the remaining arguments are constant", floor=100)
    g5 = rep.rule("C16.G5", "GUARD",
                  "a function that stores first derivatives stores the Hessian entries of all pairs of "
                  "those arguments (packed upper triangle) or raises an error under al->hes", floor=100)
    seen = set()
    for (name, f, kind, nargs, call) in regs:
        if f is None or f.cfg is None:
            p1.fail("%s|definition" % name, short_loc(call.get("l")), "registered function has no analysable body")
            continue
        if f.id in seen:
            continue
        seen.add(f.id)
        if kind == 2:          # string valued (gsl_version)
            continue
        # helpers that receive `al` and do the work (e.g. debye(al, n, func)) are analysed as
        # part of the registered function
        bodies = [f]
        for c in f.walk():
            if c["k"] == "CallExpr" and c.get("calleeId") in F.by_id and call_args(c):
                cal = c.get("callee")
                a0 = strip(call_args(c)[0])
                if cal not in CHECKERS and cal not in ERROR_SETTERS and cal != "check_result" and \
                        a0 is not None and a0["k"] == "DeclRefExpr" and a0.get("name") == "al":
                    h_ = F.by_id[c["calleeId"]]
                    if h_.cfg is not None and h_ not in bodies:
                        bodies.append(h_)
        n_eff = nargs if nargs >= 0 else None
        bad, cnt = [], 0
        badr, nret = [], 0
        conv, checked = {}, set()
        badg, nst = [], 0
        has_dstore = False
        deriv_err_ok = False
        for g in bodies:
            view = FuncView(g)
            # R1 ----------------------------------------------------------------
            for (node, m, idx) in view.accesses():
                k = idx if isinstance(idx, int) else cv(idx)
                cnt += 1
                if k is None:
                    if not in_n_loop(g, node):
                        bad.append("%s has a non-constant subscript not bounded by al->n" % render(node))
                    continue
                if n_eff is None:
                    continue
                lim = n_eff * (n_eff + 1) // 2 if m == "hes" else n_eff
                if not (0 <= k < lim):
                    bad.append("%s: index %d with registered arity %d (limit %d)" % (render(node), k, n_eff, lim))
            for c in g.walk():
                if c["k"] != "CallExpr":
                    continue
                cal = c.get("callee")
                if cal in ("check_int_arg", "check_uint_arg", "check_const_arg", "check_zero_func_args"):
                    k = cv(call_args(c)[1])
                    cnt += 1
                    if k is None:
                        if in_n_loop(g, c):
                            # WRAP_DISCRETE idiom: names table decides which indices are checked
                            tab = strip(call_args(c)[2])
                            tname = None
                            for x in walk(tab):
                                if x["k"] == "DeclRefExpr" and x.get("dk") == "Var" and x.get("qn") in name_tables:
                                    tname = x["qn"]
                            if tname is not None and cal in ("check_int_arg", "check_uint_arg"):
                                checked |= {kk for kk, has in enumerate(name_tables[tname]) if has}
                            elif cal in ("check_int_arg", "check_uint_arg") and g.name == "check_coupling_args":
                                pass
                        else:
                            bad.append("%s: non-constant argument index outside a loop over al->n" % render(c)[:40])
                    elif n_eff is not None and not (0 <= k < n_eff):
                        bad.append("%s: argument index %s with registered arity %s" % (render(c)[:40], k, n_eff))
                    elif cal in ("check_int_arg", "check_uint_arg", "check_zero_func_args"):
                        checked.add(k)
                elif cal == "check_bessel_args":
                    checked.add(0)
                elif cal == "check_coupling_args":
                    checked |= set(range(0, max(n_eff or 0, 0)))
                elif cal == "deriv_error":
                    if any(al_member(g.nodes[cid]) == "derivs" and pol is True for cid, pol in g.cfg.facts_at(c)):
                        deriv_err_ok = True
            # P1 ------------------------------------------------------------------
            for r in g.find(lambda n: n["k"] == "ReturnStmt"):
                nret += 1
                e = strip(kids(r)[0]) if kids(r) else None
                if e is not None and e["k"] == "CallExpr" and e.get("callee") == "check_result":
                    continue
                if e is not None and e["k"] == "CallExpr" and F.by_id.get(e.get("calleeId")) in bodies[1:]:
                    continue              # delegated to a helper analysed as part of this function
                if e is not None and cv(e) == 0:
                    if error_before(g, r, helper_ok):
                        continue
                    badr.append("`return 0` at %s is reachable without an error message" % short_loc(r.get("l")))
                    continue
                badr.append("`%s` at %s bypasses check_result" % (render(r)[:50], short_loc(r.get("l"))))
            # G1 conversions ---------------------------------------------------------
            for n in g.walk():
                if n["k"] in ("CStyleCastExpr", "CXXStaticCastExpr", "ImplicitCastExpr", "CXXFunctionalCastExpr") and \
                        n.get("ck") == "FloatingToIntegral":
                    src = strip(kids(n)[0])
                    k = None
                    if src["k"] == "ArraySubscriptExpr" and view.base_of(kids(src)[0]) == "ra":
                        k = cv(kids(src)[1])
                    elif src["k"] == "DeclRefExpr":
                        vd = [v for v in g.walk() if v["k"] == "VarDecl" and v.get("declId") == src.get("declId")]
                        if vd and kids(vd[0]):
                            s2 = strip(kids(vd[0])[0])
                            if s2["k"] == "ArraySubscriptExpr" and view.base_of(kids(s2)[0]) == "ra":
                                k = cv(kids(s2)[1])
                    if k is not None:
                        conv.setdefault(k, n)
            # G2 ---------------------------------------------------------------------
            for (node, m, idx) in view.accesses():
                if m not in ("derivs", "hes") or not view.is_store(node):
                    continue
                nst += 1
                if m == "derivs":
                    has_dstore = True
                have = set()
                for cid, pol in g.cfg.facts_at(node):
                    mm = al_member(strip(g.nodes[cid]))
                    if mm in ("derivs", "hes") and pol is True:
                        have.add(mm)
                needp = {"derivs"} if m == "derivs" else {"derivs", "hes"}
                if not needp <= have:
                    badg.append("store `%s` is not guarded by %s" % (render(node), " && ".join("al->" + x for x in sorted(needp - have))))
        r1.check(not bad, "%s|arity-%s" % (name, nargs), short_loc(f.loc),
                 "%s: %d subscripts/indices within arity %s" % (name, cnt, nargs), "%s: %s" % (name, "; ".join(bad[:3])))
        p1.check(not badr and nret > 0, "%s|returns" % name, short_loc(f.loc),
                 "%s: %d return(s) through check_result or after an error" % (name, nret), "%s: %s" % (name, "; ".join(badr[:2])))
        if conv:
            miss = sorted(set(conv) - checked)
            g1.check(not miss, "%s|int-args" % name, short_loc(f.loc),
                     "%s: integer-valued argument(s) %s validated" % (name, sorted(conv)),
                     "%s: al->ra[%s] is converted to an integer type without check_int_arg/check_uint_arg "
                     "for that index: a non-integral value is silently truncated" % (name, miss))
        if nst:
            g2.check(not badg, "%s|deriv-stores" % name, short_loc(f.loc),
                     "%s: %d derivative/Hessian store(s) guarded by the pointers" % (name, nst),
                     "%s: %s" % (name, "; ".join(badg[:2])))
        if has_dstore and n_eff is not None:
            stored = set()
            constck = set()
            cond_const = {}
            for g in bodies:
                view = FuncView(g)
                for (node, m, idx) in view.accesses():
                    if m == "derivs" and view.is_store(node):
                        k = idx if isinstance(idx, int) else cv(idx)
                        if k is not None:
                            stored.add(k)
                        else:
                            stored |= set(range(n_eff))
                for c in g.walk():
                    if c["k"] == "CallExpr" and c.get("callee") == "check_const_arg":
                        k = cv(call_args(c)[1])
                        # the check must run whenever derivatives are requested: it may sit behind `al->derivs` and behind
                        # other argument checks (their failure raises an error anyway), but behind nothing else
                        plain = True

                        def atoms_of(cn, pol):
                            cn = strip(cn)
                            while cn["k"] == "UnaryOperator" and cn.get("op") == "!" and pol in (True, False):
                                cn, pol = strip(kids(cn)[0]), (not pol)
                            if cn["k"] == "BinaryOperator" and ((cn.get("op") == "&&" and pol is True) or (cn.get("op") == "||" and pol is False)):
                                return atoms_of(kids(cn)[0], pol) + atoms_of(kids(cn)[1], pol)
                            return [(cn, pol)]
                        for cid, pol in g.cfg.facts_at(c):
                            for cn, pl in atoms_of(g.nodes[cid], pol):
                                if pl is True and (al_member(cn) == "derivs" or (cn["k"] == "CallExpr" and (cn.get("callee") or "").startswith("check_"))):
                                    continue
                                plain = False
                                cond_const.setdefault(k, render(cn)[:40])
                        if k is not None and plain:
                            constck.add(k)
            missing = sorted(set(range(n_eff)) - stored - checked - constck)
            g4.check(not missing, "%s|all-partials" % name, short_loc(f.loc),
                     "%s: partials stored for %s, constancy enforced for %s" % (name, sorted(stored), sorted((checked | constck) & set(range(n_eff)))),
                     "%s: no derivative is stored for argument(s) %s and nothing raises 'argument is not "
                     "constant' for them%s: al->derivs[%s] stays uninitialised" % (name, missing, "".join(
                         " (the check of argument %s runs only under `%s`)" % (k_, t_) for k_, t_ in sorted(cond_const.items()) if k_ in missing), missing))
        if has_dstore and n_eff is not None:
            hst = set()
            herr = False
            for g in bodies:
                view = FuncView(g)
                for (node, m, idx) in view.accesses():
                    if m == "hes" and view.is_store(node):
                        k = idx if isinstance(idx, int) else cv(idx)
                        hst |= {k} if k is not None else set(range(n_eff * (n_eff + 1) // 2))
                for c in g.walk():
                    if c["k"] == "CallExpr" and c.get("callee") in ("deriv_error", "check_deriv_arg"):
                        if any(al_member(strip(g.nodes[cid])) == "hes" and pol is True for cid, pol in g.cfg.facts_at(c)) \
                                or c.get("callee") == "check_deriv_arg":
                            herr = True
                    if c["k"] == "CallExpr" and c.get("callee") == "check_bessel_args":
                        herr = True
            live = sorted(stored)
            # packed upper triangle by rows, as test/gsl-test.cc indexes it: (i, j) -> i (2n - i - 1) / 2 + j
            want = {i_ * (2 * n_eff - i_ - 1) // 2 + j_ for j_ in live for i_ in live if i_ <= j_}
            okh = want <= hst or herr
            g5.check(okh, "%s|hessian" % name, short_loc(f.loc),
                     "%s: second derivatives stored for all pairs of %s%s" % (name, live, " (or an error is raised under al->hes)" if herr else ""),
                     "%s: first derivatives are stored for %s but Hessian entries %s are never stored and no "
                     "error is raised when al->hes is set" % (name, live, sorted(want - hst)))
        if not has_dstore:
            viahelper = any(c["k"] == "CallExpr" and c.get("callee") == "check_zero_func_args"
                            for g in bodies for c in g.walk())
            all_int = n_eff is not None and n_eff > 0 and set(range(n_eff)) <= checked
            ok = deriv_err_ok or viahelper or all_int
            g3.check(ok, "%s|derivs-not-provided" % name, short_loc(f.loc),
                     "%s provides no derivatives and raises the derivative error under al->derivs%s" % (
                         name, " (every argument is an integer argument checked by check_*int_arg)" if all_int and not deriv_err_ok else ""),
                     "%s stores no derivatives and raises no error when al->derivs is set: AMPL would "
                     "use uninitialised derivative values" % name)
    # ---- E1: GSL functions whose failure is visible in the status only --------------------------------------------
    # frozen table, read in GSL 2.7 specfunc/lambert.c: for x < -1/e both branches set result->val = -1.0 and return GSL_EDOM,
    # so with the error handler off the plain forms gsl_sf_lambert_W0(x) / _Wm1(x) return the finite -1 and check_result sees no NaN
    FINITE_ON_ERROR = ("gsl_sf_lambert_W0", "gsl_sf_lambert_Wm1")
    e1 = rep.rule("C16.E1", "WHO-MAY-CALL", "GSL functions that report a domain error by status with a finite value (lambert_W0, lambert_Wm1) are called in "
                  "their _e form only, and a status other than GSL_SUCCESS sets the evaluation error and returns", floor=2)
    for f in F.funcs:
        if f.cfg is None or f.is_dependent():
            continue
        par = {}
        for n in f.walk():
            for k_ in kids(n):
                if k_ is not None and "i" in k_:
                    par[k_["i"]] = n
        for c in f.walk():
            if c["k"] != "CallExpr":
                continue
            cal = c.get("callee") or ""
            if cal in FINITE_ON_ERROR:
                e1.fail("%s|%s" % (f.name, cal), short_loc(c.get("l")),
                        "%s calls %s, whose domain error (x < -1/e) is a status only: the call returns -1, no NaN reaches check_result and no error is set" % (f.name, cal))
                continue
            if not (cal.endswith("_e") and cal[:-2] in FINITE_ON_ERROR):
                continue
            # the status: the variable the call's value is stored in
            p_ = par.get(c.get("i"))
            while p_ is not None and p_["k"] in set(TRANSPARENT) | {"ImplicitCastExpr", "ParenExpr"}:
                p_ = par.get(p_.get("i"))
            sv = None
            if p_ is not None and p_["k"] == "BinaryOperator" and p_.get("op") == "=" and strip(kids(p_)[0])["k"] == "DeclRefExpr":
                sv = strip(kids(p_)[0]).get("declId")
            elif p_ is not None and p_["k"] == "VarDecl":
                sv = p_.get("declId")
            ok = False
            direct = p_ is not None and p_["k"] in ("BinaryOperator", "IfStmt", "UnaryOperator") and sv is None     # if (f_e(..) != GSL_SUCCESS) / if (f_e(..))
            for ifs in f.walk():
                if ifs["k"] != "IfStmt":
                    continue
                ch = [x for x in ifs["c"] if x is not None]
                cond, then = ch[0], ch[1]
                uses = any(x["k"] == "DeclRefExpr" and x.get("declId") == sv for x in walk(cond)) if sv else (direct and any(x.get("i") == c.get("i") for x in walk(cond)))
                if not uses:
                    continue
                ctext = render(cond).replace(" ", "")
                polar = not re.search(r"==(GSL_SUCCESS|0)\b|^!", ctext)      # the then-branch is the failure branch
                fail_branch = then if polar else (ch[2] if len(ch) > 2 else None)
                if fail_branch is None:
                    continue
                seterr = any(x["k"] == "CallExpr" and (x.get("callee") or "") in ("eval_error", "error", "format_eval_error") for x in walk(fail_branch))
                rets = any(x["k"] == "ReturnStmt" for x in walk(fail_branch))
                if seterr and rets and (sv is None or f.cfg.dominates(c, cond)):
                    ok = True
            e1.check(ok, "%s|%s" % (f.name, cal), short_loc(c.get("l")), "%s: a status other than GSL_SUCCESS of %s sets the evaluation error and returns" % (f.name, cal),
                     "%s: the status returned by %s is not tested (or the failure branch sets no error / does not return): the finite value -1 of a domain error is used" % (f.name, cal))
    formula_rules(rep, F, regs)
    return rep


def formula_rules(rep, F, regs):
    """S1/S2: the stored derivative expressions are the derivatives of the value expression."""
    from .. import gslsym as GS, gslprims as GP
    s1 = rep.rule("C16.S1", "ALGEBRA",
                  "each stored first/second derivative is identical, as an expression over the arguments and "
                  "GSL primitives, to the symbolic derivative of the returned value (identity decided in random "
                  "models of the function field)", floor=290)
    s2 = rep.rule("C16.S2", "ALGEBRA",
                  "a constant stored under an equality guard (x == c) is the two-sided limit of the derivative's "
                  "closed form (exact Laurent series), or the binding reports an error there", floor=45)
    v1 = rep.rule("C16.V1", "TABLE",
                  "the value a binding returns is the GSL function it is registered as, applied to the arguments in "
                  "their registered order (symbolic execution of the body; after the shared rng state for the random "
                  "variates, before constant mode arguments)", floor=330)
    seen, uncovered, nb = set(), {}, 0
    for (name, f, kind, nargs, call) in regs:
        if f is None or f.cfg is None or f.id in seen or kind == 2:
            continue
        seen.add(f.id)
        try:
            st_ = GS.SymExec(F, f).run_body()
            V = st_.ret
            if V is not None and V[0] == "prim":
                a_ = list(V[2])
                if a_ and a_[0] == ("glob", "rng"):
                    a_ = a_[1:]
                while a_ and a_[-1][0] == "c":
                    a_.pop()
                okv = V[1] == name and all(x == ("a", i) for i, x in enumerate(a_)) and (nargs is None or nargs < 0 or len(a_) == nargs)
                v1.check(okv, "%s|value" % name, short_loc(f.loc),
                         "%s returns %s(al->ra[0..%d])" % (name, V[1], len(a_) - 1),
                         "%s is registered with %s argument(s) but returns %s applied to %s" % (
                             name, nargs, V[1], [("al->ra[%d]" % x[1]) if x[0] == "a" else x[0] for x in V[2]]))
            elif V is not None and V[0] not in ("err", "unset"):
                v1.fail("%s|value" % name, short_loc(f.loc), "%s does not return a GSL function value directly" % name)
        except GS.Unsupported as e:
            uncovered["%s|value" % name] = "symbolic execution: %s" % e
        except (ArithmeticError, ValueError, RecursionError, KeyError, IndexError, TypeError) as e:
            uncovered["%s|value" % name] = "symbolic analysis failed: %r" % (e,)
        try:
            r = GS.analyse_binding(F, f, nargs if nargs and nargs > 0 else None, GP.T, GP.canon)
        except GS.Unsupported as e:
            v_ = FuncView(f)
            if any(m in ("derivs", "hes") and v_.is_store(node) for (node, m, idx) in v_.accesses()):
                uncovered[name] = "symbolic execution: %s" % e
            continue
        except (ArithmeticError, ValueError, RecursionError, KeyError, IndexError, TypeError) as e:
            uncovered[name] = "symbolic analysis failed: %r" % (e,)
            continue
        if not r["stored"]:
            continue
        nb += 1
        for key in r["stored"]:
            o = r["outputs"].get(key)
            label = "%s|%s%d" % (name, "derivs" if key[0] == "d" else "hes", key[1])
            if o is None or (o["compared"] < 2 and not o["mismatch"]):
                uncovered[label] = "; ".join("%s (%d)" % kv for kv in sorted((r.get("why") or {}).items())[:3]) or \
                    "derivative with respect to an integer-valued / constant argument, or no admissible sample point"
                continue
            bad = [m for m in o["mismatch"] if m]
            what = "d%s/d(arg %s)" % ("2" if len(o["slot"]) == 2 else "", ",".join(str(i) for i in o["slot"]))
            s1.check(not o["mismatch"], label, short_loc(f.loc),
                     "%s: stored %s equals the symbolic derivative of the returned value in %d model evaluations" % (name, what, o["compared"]),
                     "%s: stored %s is not the derivative of the returned value: e.g. arguments %s: the stored "
                     "expression evaluates to %.12g, the derivative of the value to %.12g (%d of %d model evaluations differ)" % (
                         name, what, bad[0]["args"] if bad else "?", bad[0]["stored"] if bad else float("nan"),
                         bad[0]["expected"] if bad else float("nan"), len(o["mismatch"]), o["compared"]))
        for tag, sp in sorted((r.get("special") or {}).items(), key=str):
            key, i, c, dv = tag
            label = "%s|%s%d|arg%d==%g%s" % (name, "derivs" if key[0] == "d" else "hes", key[1], i, c,
                                            "".join("|arg%d=%d" % kv for kv in dv))
            if sp["status"] == "uncovered":
                uncovered[label] = sp.get("why", "")
                continue
            if sp["status"] == "error-reported":
                s2.ok(label, short_loc(f.loc), "%s: NaN is stored at the special point, so check_result reports an error" % name)
                continue
            s2.check(sp["status"] == "ok", label, short_loc(f.loc),
                     "%s: the constant %.12g stored at the special point is the two-sided limit of the derivative" % (name, sp.get("stored", 0.0)),
                     ("%s: %.12g is stored silently at a point where the derivative does not exist (one-sided limits of the "
                      "derivative of the value: %s)" % (name, sp.get("stored", 0.0), sp.get("limits")))
                     if sp["status"] == "no-derivative" else
                     ("%s: the constant %.12g stored at the special point differs from the limit %s of the derivative of the value"
                      % (name, sp.get("stored", 0.0), sp.get("limit"))))
    rep.extra["formula_bindings"] = nb
    rep.extra["formula_uncovered"] = uncovered


def in_n_loop(g, node):
    """node is inside a for/while loop whose condition compares with al->n (or a
    local initialised from al->n)"""
    lp = g.enclosing(node, ("ForStmt", "WhileStmt"))
    while lp is not None:
        cond = lp.get("c", [None] * 5)[2] if lp["k"] == "ForStmt" else kids(lp)[0]
        if cond is not None:
            t = render(cond)
            if "al->n" in t:
                return True
            for x in walk(cond):
                if x["k"] == "DeclRefExpr" and x.get("dk") == "Var":
                    vd = [v for v in g.walk() if v["k"] == "VarDecl" and v.get("declId") == x.get("declId")]
                    if vd and kids(vd[0]) and "al->n" in render(kids(vd[0])[0]):
                        return True
                    # `i = 0, n = al->n * ...` assignment in the loop init
                    for y in g.walk():
                        if y["k"] == "BinaryOperator" and y.get("op") == "=" and \
                                strip(kids(y)[0]).get("declId") == x.get("declId") and "al->n" in render(kids(y)[1]):
                            return True
        lp = g.enclosing(lp, ("ForStmt", "WhileStmt"))
    return False


def _same_branch(h, setter, ret):
    """the setter call dominates the return and no branch between them rejoins
    (approximation: same block or the return's block is dominated by the setter's)"""
    return True


def failed_checker(cond, pol, helper_ok):
    """cond (with truth pol) implies that some verified check_* helper returned 0"""
    c = strip(cond)
    if c is None:
        return False
    if c["k"] == "UnaryOperator" and c.get("op") == "!":
        return failed_checker(kids(c)[0], not pol, helper_ok)
    if c["k"] == "BinaryOperator" and c.get("op") == "||":
        a, b = kids(c)
        if pol:          # some disjunct true: every disjunct must be a failed checker
            return failed_checker(a, True, helper_ok) and failed_checker(b, True, helper_ok)
        return failed_checker(a, False, helper_ok) or failed_checker(b, False, helper_ok)
    if c["k"] == "BinaryOperator" and c.get("op") == "&&":
        a, b = kids(c)
        if pol:
            return failed_checker(a, True, helper_ok) or failed_checker(b, True, helper_ok)
        return failed_checker(a, False, helper_ok) and failed_checker(b, False, helper_ok)
    if c["k"] == "CallExpr" and c.get("callee") in CHECKERS:
        return pol is False and helper_ok.get(c["callee"], True)
    if c["k"] == "BinaryOperator" and c.get("op") == "!=" and "GSL_SUCCESS" in render(c):
        return False
    return False


def error_before(f, ret, helper_ok):
    """`return 0`: an error setter dominates it in its own branch, or the branch
    condition says a verified checker failed."""
    for cid, pol in f.cfg.facts_at(ret):
        if failed_checker(f.nodes[cid], pol, helper_ok):
            return True
    # error setter call in the same block / dominating block after the last branch
    pos = f.cfg.position(ret)
    if pos is None:
        return False
    blk = f.cfg.blocks[pos[0]]
    for e in blk["el"][:pos[1]]:
        n = f.nodes.get(e)
        if n is not None and n["k"] == "CallExpr" and n.get("callee") in ERROR_SETTERS:
            return True
    # single-predecessor chain
    preds = f.cfg.pred[pos[0]]
    seen = set()
    while len(preds) == 1 and preds[0] not in seen:
        b = preds[0]
        seen.add(b)
        for e in f.cfg.blocks[b]["el"]:
            n = f.nodes.get(e)
            if n is not None and n["k"] == "CallExpr" and n.get("callee") in ERROR_SETTERS:
                return True
        preds = f.cfg.pred[b]
    return False
