"""C05 - a written .sol file is read back as the same solution (format agreement, structural clauses).

The writer (mp::WriteSolFile / internal::WriteSuffixes / internal::WriteMessage, libmp) and the reader
(SOLReader2 text path, nl-writer2) live in different sub-projects.  The rules extract both sides' view
of the format from their ASTs and compare them.

T1 keywords (reader strncmp literals/lengths vs writer format strings), section order on both sides;
T2 count line and suffix header: positions written = positions read, roles agree;
G1 options block: keyword/count/vbtol forms the reader expects vs what the writer emits;
F1 every floating value is printed with >= 16 significant digits, integers with '{}';
S1 message writer: per-line case enumeration (atoms checked): no interior empty line, terminator present;
P1 non-finite values: decstring accepts only tokens ending in a digit or '.', evaluated for all 256
   final characters; the dense vector reader rejects what decstring rejects.
"""
import re
from ..cfg import MiniInt, reach_calls, xrender, norm_facts, expand_locals, _stable_local_inits, Facts, kids, strip, walk, cv, render, call_args, call_object
from ..cfg import short_loc as _short_loc
from ..facts import export_many, AnalysisBroken

LEVEL = "other"
TECHNIQUE = ("static analysis: format extraction from the writer's print calls and the reader's parse "
             "sequence (AST/CFG order, literal and role comparison), type-resolved precision rule over "
             "every print placeholder, complete case enumeration of the message writer's per-line logic "
             "and of decstring's acceptance test")
LEVEL_TEXT = ("Decided: the two sides agree on keywords, section order, the order and meaning of the four "
              "counts and of the five suffix header integers; every double is printed with at least 16 "
              "significant digits and every integer unformatted; the message never contains an interior "
              "empty line and always ends with one; a non-finite primal/dual value is rejected by the "
              "reader.  Two disagreements on the options block are genuine defects recorded as known "
              "findings.  Not decided: numerical round trip of strtod(print(x)) (library behaviour), binary "
              "format (the writer never produces it)."
              "  Also decided (added after the seeded rounds): the reader's per-suffix scratch is fresh for each suffix; the writer hands the suffix sets of all four kinds to WriteSuffixes.")
LEVEL_NOTE = "Trusted: clang 14 front end/CFG, tool/mpx.cc, the rule module, fmt's '{}' / '{:.N}' semantics, strtod."
DESIGN_REF = "DESIGN.md section 4, C05"
EXPLANATION = (
    "Writer functions are taken from the visitor driver unit (WriteSolFile<SolutionAdapter<BasicProblem>>, "
    "WriteSuffixes, SuffixValueWriter/Counter) and src/sol.cc (WriteMessage); the reader is "
    "SOLReader2<SOLHandler_Easy> as instantiated in nl-writer2/src/nl-solver.cc (ReadSOLFile, gsufread, "
    "sufheadcheck, Lget, decstring, Read).  T1: each strncmp(buf, lit, n) of the text path has n == "
    "strlen(lit) and the keyword it accepts is produced by exactly one writer format string; the writer's "
    "print order message < Options < counts < duals < primals < objno < suffixes equals the reader's "
    "consumption order.  T2: count k written is count k read, the dual loop bound is count 1 and the primal "
    "loop bound count 3 on both sides; suffix header fields kind, n, namelen, tablen, tablines are written in "
    "the order Lget parses them, n is the number of value lines, namelen = strlen(name)+1, tablen = "
    "size+1 or 0, tablines = 1+number of newlines or 0, and the kind mask stays within sufheadcheck's "
    "[0,15].  G1: the reader reads a count in [3,9] right after the keyword and has a vbtol form; the writer "
    "must print keyword and count under one condition and implement the vbtol form (both fail: known "
    "findings).  F1/S1/P1 as in the module docstring.")
ASSUMPTIONS = ["the reader is used in text mode on files produced by mp::WriteSolFile",
               "strtod(printf('%.16g', x)) is within one part in 1e15 of x (C library)"]
TRUSTED = ["clang 14 front end + CFG builder", "tool/mpx.cc", "mpsa/rules/C05.py", "fmt placeholder semantics", "libc strtod"]

WU = "solvers/visitor/model-mgr-with-std-pb.cc"
RU = "nl-writer2/src/nl-solver.cc"
_REPO = ["/repo"]


def short_loc(l):
    return _short_loc((l or "").replace(_REPO[0].rstrip("/") + "/", "/repo/"))


def lit_of(e):
    """string literal value of an argument (through CStringRef/string_view constructions)"""
    e = strip(e)
    while e is not None and e["k"] in ("CXXConstructExpr", "CXXFunctionalCastExpr") and kids(e):
        e = strip(kids(e)[0])
    if e is not None and e["k"] == "StringLiteral":
        return e.get("v", "")
    return None


PH = re.compile(r"\{(\d*)(?::([^}]*))?\}")


def placeholders(fmt):
    """[(arg index, spec)] of an fmt format string; a nested field in a spec (`{:.{}}`, dynamic width / precision) takes the
    next automatic argument index and appears in the spec as `{<index>}`"""
    out = []
    auto = 0
    i, n = 0, len(fmt)
    while i < n:
        if fmt.startswith("{{", i) or fmt.startswith("}}", i):
            i += 2
            continue
        if fmt[i] != "{":
            i += 1
            continue
        depth, j = 1, i + 1
        while j < n and depth:
            depth += {"{": 1, "}": -1}.get(fmt[j], 0)
            j += 1
        body = fmt[i + 1:j - 1]
        i = j
        ident, _, spec = body.partition(":")
        if ident.strip().isdigit():
            idx = int(ident)
        else:
            idx = auto
            auto += 1
        def nested(m):
            nonlocal auto
            if m.group(1):
                return "{%s}" % m.group(1)
            auto += 1
            return "{%d}" % (auto - 1)
        spec = re.sub(r"\{(\d*)\}", nested, spec)
        out.append((idx, spec))
    return out


def prints_of(f):
    out = []
    for c in f.walk():
        if c["k"] == "CXXMemberCallExpr" and c.get("callee") == "fmt::BufferedFile::print":
            a = call_args(c)
            out.append((c, lit_of(a[0]), a[1:]))
    return out


def run(rep, ctx):
    repo = ctx["repo"]
    _REPO[0] = repo
    jobs = [dict(unit=WU, closure=1, closure_roots=r"mp::internal::WriteSuffixes$", fn=[r"mp::WriteSolFile", r"mp::internal::(WriteSuffixes|WriteMessage)", r"mp::internal::SuffixValueWriter::.*",
                              r"mp::internal::SuffixValueCounter::.*", r"mp::BasicSuffix::VisitValues", r"mp::Suffix::VisitValues"],
                 var=[r"mp::internal::SUFFIX_KIND_MASK"], enum=[r"mp::suf::.*", r"mp::internal::.*"], repo=repo),
            dict(unit="src/sol.cc", fn=[r"mp::internal::WriteMessage"], repo=repo),
            dict(unit=RU, closure=1, closure_roots=r"SOLReader2::(gsufread|sufheadcheck)$", fn=[r"mp::SOLReader2::(ReadSOLFile|gsufread|bsufread|sufheadcheck)", r"mp::(Lget|decstring|Read)", r"mp::[a-z_0-9]+", r"mp::VecReader::ReadNext"],
                 repo=repo)]
    F = Facts(export_many(jobs))
    rep.note_units([WU, "src/sol.cc", RU])
    funcs = [f for f in F.funcs if not f.is_dependent() and f.cfg is not None]
    rep.note_funcs(funcs)

    def one(qn, pred=lambda f: True):
        c = [f for f in funcs if f.qn == qn and pred(f)]
        if not c:
            raise AnalysisBroken("anchor %s not found" % qn)
        return c[0]
    W = one("mp::WriteSolFile")
    WS = one("mp::internal::WriteSuffixes")
    WM = one("mp::internal::WriteMessage")
    R = one("mp::SOLReader2::ReadSOLFile")
    GS = one("mp::SOLReader2::gsufread")
    SH = one("mp::SOLReader2::sufheadcheck")
    DEC = one("mp::decstring")
    RD = one("mp::Read", lambda f: f.params and "double &" in (f.params[2].get("t") or ""))
    RP = one("mp::Read", lambda f: f.params and "pair" in (f.params[2].get("t") or ""))

    if len(prints_of(WS)) < 2:
        # the per-suffix part may live in a helper WriteSuffixes calls for every suffix: that helper is the writer analysed
        cands = [F._by_id.get(c_.get("calleeId")) for c_ in WS.walk() if c_["k"] in ("CallExpr", "CXXMemberCallExpr")]
        cands = [g_ for g_ in cands if g_ is not None and g_.cfg is not None and len(prints_of(g_)) >= 2]
        if len(cands) == 1:
            WS = cands[0]
    wp = prints_of(W)
    sp = prints_of(WS)
    if len(wp) < 6 or len(sp) < 2:
        raise AnalysisBroken("writer print calls not found (%d, %d)" % (len(wp), len(sp)))

    def in_text_path(f, n):
        """n is reachable only with binary == 0"""
        for x in walk(n):
            if f.cfg.position(x) is None:
                continue
            for cid, pol in f.cfg.facts_at(x):
                if render(f.nodes[cid]) == "binary" and pol is False:
                    return True
            break
        return False

    def rr(n):
        return render(n).replace(" ", "").replace("'\\x0a'", "'\\n'")

    # ---- K1: the suffix sets of all four kinds are written -------------------------------------------------
    # WriteSolFile is evaluated on an empty solution (no options, no values); every sol.suffixes(kind) handed to
    # WriteSuffixes is recorded.  Which kinds are visited does not depend on the solution.
    k1 = rep.rule("C05.K1", "TABLE", "WriteSolFile hands the suffix sets of all four kinds (variable, constraint, objective, problem) to WriteSuffixes, "
                  "each exactly once (evaluation of the kind enumeration)", floor=1)
    kinds_written, box_k = [], {}

    def atom_k(t_, n_, env_):
        if n_["k"] in ("CXXMemberCallExpr", "CallExpr", "CXXOperatorCallExpr"):
            cn = (n_.get("callee") or "").split("::")[-1]
            if cn == "suffixes":
                return 1000 + box_k["mi"].expr(call_args(n_)[0], env_, 0)
            if cn == "WriteSuffixes":
                v_ = box_k["mi"].expr(call_args(n_)[1], env_, 0)
                kinds_written.append(v_ - 1000 if isinstance(v_, int) and v_ >= 1000 else None)
                return 0
            if cn in ("print", "close", "WriteMessage", "message", "objno", "status", "option") or cn.startswith("num_"):
                return 0
        return None
    mik = MiniInt(F, atom_k)
    mik.select_only = True
    box_k["mi"] = mik
    try:
        mik.call(W, [0, ("obj", None, None)])
    except AnalysisBroken as e_:
        if "without a return" not in str(e_):
            raise AnalysisBroken("C05.K1: WriteSolFile: %s" % e_)
    k1.check(sorted(x for x in kinds_written if x is not None) == [0, 1, 2, 3] and None not in kinds_written, "all-kinds-written", _short_loc(W.loc),
             "WriteSuffixes receives sol.suffixes(k) for k = VAR(0), CON(1), OBJ(2), PROBLEM(3), once each",
             "WriteSuffixes receives the suffix sets of kinds %s: the output suffixes of kind(s) %s never reach the .sol file (or are written twice)"
             % (kinds_written, sorted(set(range(4)) - set(kinds_written)) or "-"))

    # ---- T1 ---------------------------------------------------------------------------
    t1 = rep.rule("C05.T1", "TABLE", "keywords and section order agree between writer and reader", floor=8)
    cmps = []
    for f in (R, GS):
        for c in f.walk():
            if c["k"] == "CallExpr" and c.get("callee", "").endswith("strncmp"):
                a = call_args(c)
                lit = lit_of(a[1])
                cmps.append((f, c, lit, cv(a[2])))
    for f, c, lit, n in cmps:
        t1.check(lit is not None and n == len(lit), "strncmp-length|%s" % (lit or "?").strip(), short_loc(c.get("l")),
                 "strncmp(buf, %r, %s) compares the whole keyword" % (lit, n), "strncmp(buf, %r, %s): length differs from the literal's" % (lit, n))
    wlits = [l for _, l, _ in wp + sp if l]
    wkeys = [l for l in wlits if l[:1].isalpha()]
    # text path keywords of the reader
    text_kw = []
    for f, c, lit, n in cmps:
        if f is GS or in_text_path(f, c):
            text_kw.append((f, c, lit))
    got = sorted(l for _, _, l in text_kw)
    t1.check(got == ["objno ", "ptions", "suffix "], "reader-text-keywords", short_loc(R.loc), "text path keywords: %s" % got,
             "text path keywords are %s" % got)
    # 'O' + "ptions"
    ochars = [n for n in R.walk() if n["k"] == "BinaryOperator" and n.get("op") == "!=" and cv(kids(n)[1]) == ord("O") and render(kids(n)[0]) == "j"]
    t1.check(len(ochars) == 1 and "Options\n" in wkeys, "keyword|Options", short_loc(ochars[0].get("l")) if ochars else "",
             "the reader accepts 'O' + \"ptions\"; the writer prints \"Options\\n\"", "writer keywords %s" % wkeys)
    for kw, nnum in (("objno ", 2), ("suffix ", 5)):
        ws = [l for l in wkeys if l.startswith(kw)]
        okk = len(ws) == 1 and len(placeholders(ws[0].split("\n")[0])) == nnum and \
            re.fullmatch(re.escape(kw) + r"(\{\} )*\{\}", ws[0].split("\n")[0]) is not None
        t1.check(okk, "keyword|%s" % kw.strip(), "", "exactly one writer line starts with %r and carries %d space-separated numbers" % (kw, nnum),
                 "writer lines for %r: %s" % (kw, ws))
    t1.check(sorted(set(k.split(" ")[0].split("\n")[0] for k in wkeys)) == ["Options", "objno", "suffix"], "writer-keywords", short_loc(W.loc),
             "the writer emits no other keyword lines", "writer keyword lines: %s" % wkeys)
    # writer order
    def find_print(pred):
        c = [p for p in wp if pred(p)]
        if len(c) != 1:
            raise AnalysisBroken("C05: writer print not unique (%d)" % len(c))
        return c[0]
    p_opt = find_print(lambda p: p[1] and not p[2] and p[1][:1].isalpha())
    p_cnt = find_print(lambda p: p[1] and len(placeholders(p[1])) == 4)
    p_obj = find_print(lambda p: p[2] and any("objno()" in render(a) for a in p[2]))
    p_nopt = [p for p in wp if p[1] == "{}\n" and p[2] and "num_options" in render(p[2][0])]
    p_optv = [p for p in wp if p[1] == "{}\n" and p[2] and ".option(" in render(p[2][0])]
    p_dual = [p for p in wp if p[2] and "dual_value(" in render(p[2][0])]
    p_val = [p for p in wp if p[2] and ".value(" in render(p[2][0])]
    msg = [c for c in W.walk() if c["k"] == "CallExpr" and c.get("callee") == "mp::internal::WriteMessage"]
    sufc = [c for c in W.walk() if c["k"] == "CallExpr" and c.get("callee") == "mp::internal::WriteSuffixes"]
    if not (len(p_nopt) == len(p_optv) == len(p_dual) == len(p_val) == len(msg) == len(sufc) == 1):
        raise AnalysisBroken("C05: writer sections not found")
    worder = [("message", msg[0]), ("Options", p_opt[0]), ("option count", p_nopt[0][0]), ("options", p_optv[0][0]), ("counts", p_cnt[0]),
              ("duals", p_dual[0][0]), ("primals", p_val[0][0]), ("objno", p_obj[0]), ("suffixes", sufc[0])]
    okw = all(W.cfg.before(a[1], b[1]) and not W.cfg.before(b[1], a[1]) for a, b in zip(worder, worder[1:]))
    t1.check(okw, "writer-order", short_loc(W.loc), "writer sections: " + " < ".join(n for n, _ in worder))
    # reader order (text path)
    def rnode(pred, what):
        c = [n for n in R.walk() if pred(n)]
        c = [n for n in c if in_text_path(R, n)] or c
        if not c:
            raise AnalysisBroken("C05: reader anchor %s not found" % what)
        return c[0]
    r_msg = rnode(lambda n: n["k"] == "CXXMemberCallExpr" and n.get("callee", "").endswith("::append") and "solve_msg_" in render(n), "message append")
    r_opt = [c for f, c, l in text_kw if l == "ptions"][0]
    r_dual = rnode(lambda n: n["k"] == "CXXMemberCallExpr" and n.get("callee", "").endswith("::OnDualSolution"), "OnDualSolution")
    prim = [n for n in R.walk() if n["k"] == "CXXMemberCallExpr" and n.get("callee", "").endswith("::OnPrimalSolution")]
    prim_t = [n for n in prim if in_text_path(R, n)]
    if len(prim_t) != 1:
        raise AnalysisBroken("C05: text-path OnPrimalSolution not unique")
    r_obj = [c for f, c, l in text_kw if l == "objno "][0]
    r_suf = rnode(lambda n: n["k"] == "CXXMemberCallExpr" and n.get("callee", "").endswith("::gsufread"), "gsufread")
    rorder = [("message", r_msg), ("Options", r_opt), ("duals", r_dual), ("primals", prim_t[0]), ("objno", r_obj), ("suffixes", r_suf)]
    okr = all(R.cfg.before(a[1], b[1]) and not R.cfg.before(b[1], a[1]) for a, b in zip(rorder, rorder[1:]))
    t1.check(okr, "reader-order", short_loc(R.loc), "reader sections: " + " < ".join(n for n, _ in rorder))
    sk = [k for k in ("message", "Options", "duals", "primals", "objno", "suffixes")]
    t1.check([n for n, _ in worder if n in sk] == [n for n, _ in rorder], "same-order", "", "both sides use the order " + " < ".join(sk))
    kinds_loop = [v for v in W.walk() if v["k"] == "VarDecl" and v.get("name") == "kinds"]
    if kinds_loop:
        ks = [render(x) for x in kids(strip(kids(kinds_loop[0])[0]))]
        t1.check([k.split("::")[-1] for k in ks] == ["VAR", "CON", "OBJ", "PROBLEM"], "suffix-kind-order", short_loc(kinds_loop[0].get("l")),
                 "suffixes are written in kind order var, con, obj, problem", str(ks))

    # ---- T2 ---------------------------------------------------------------------------
    t2 = rep.rule("C05.T2", "FLOW", "count line and suffix header: positions and roles agree", floor=10)
    cargs = [strip(a) for a in p_cnt[2]]
    cinit = {}
    for v in W.walk():
        if v["k"] == "VarDecl" and kids(v):
            cinit[v["declId"]] = render(kids(v)[0]).split(".")[-1]
    roles = [cinit.get(a.get("declId"), "?") for a in cargs]
    t2.check(roles == ["num_algebraic_cons()", "num_dual_values()", "num_vars()", "num_values()"] and
             [i for i, _ in placeholders(p_cnt[1])] == [0, 1, 2, 3], "writer-counts", short_loc(p_cnt[0].get("l")),
             "counts written: constraints, dual values, variables, primal values", "counts written: %s" % roles)
    # loop bounds in the writer
    def loop_bound(pr):
        lp = W.enclosing(pr, ("ForStmt",))
        c = lp["c"][2]
        b = strip(kids(c)[1])
        v = [x for x in walk(lp["c"][0]) if x["k"] == "VarDecl" and x["declId"] == b.get("declId")]
        if v and kids(v[0]):
            b = strip(kids(v[0])[0])
        return b.get("declId")
    t2.check(loop_bound(p_dual[0][0]) == cargs[1].get("declId"), "writer-dual-count", short_loc(p_dual[0][0].get("l")),
             "the number of dual lines is count 1")
    t2.check(loop_bound(p_val[0][0]) == cargs[3].get("declId"), "writer-primal-count", short_loc(p_val[0][0].get("l")),
             "the number of primal lines is count 3")
    # reader: z = Options + nOpts + 1 ; duals use z[1], primals z[3]
    zdef = [n for n in R.walk() if n["k"] == "BinaryOperator" and n.get("op") == "=" and render(kids(n)[0]) == "z"]
    t2.check(len(zdef) == 1 and render(kids(zdef[0])[1]).replace(" ", "") == "Options+nOpts+1", "reader-z", short_loc(zdef[0].get("l")) if zdef else "",
             "z points behind the count and the nOpts options", "z = %s" % (render(kids(zdef[0])[1]) if zdef else "?"))
    # total ints read = nOpts + 5 (count, options, four counts)
    je = [n for n in R.walk() if n["k"] == "BinaryOperator" and n.get("op") == "=" and render(kids(n)[0]) == "je" and in_text_path(R, n)]
    t2.check(len(je) == 1 and render(kids(je[0])[1]).replace(" ", "") in ("(int)(nOpts+5)", "(int)nOpts+5", "nOpts+5"), "reader-int-lines",
             short_loc(je[0].get("l")) if je else "", "the reader consumes 1 + nOpts + 4 integer lines = the writer's count, options and four counts")
    def ctor_count(call):
        # VecReader<double> vr(f, binary, N) declared just before the handler call
        v = [x for x in R.walk() if x["k"] == "VarDecl" and x.get("name") == "vr" and R.cfg.dominates(x, call)]
        v = sorted(v, key=lambda x: x["i"])
        v = [x for x in v if R.enclosing(x, ("CompoundStmt",))["i"] == R.enclosing(call, ("CompoundStmt",))["i"]]
        return render(kids(strip(kids(v[-1])[0]))[2]) if v else None
    dj = ctor_count(r_dual)
    jd = [n for n in R.walk() if n["k"] == "BinaryOperator" and n.get("op") == "=" and render(kids(n)[0]) == "j" and
          "z[" in render(kids(n)[1]) and R.cfg.before(n, r_dual)]
    jd = sorted(jd, key=lambda n: n["i"])
    t2.check(dj == "j" and jd and render(kids(jd[-1])[1]).replace(" ", "") == "(int)z[1]", "reader-dual-count", short_loc(r_dual.get("l")),
             "the number of duals read is z[1]", "duals read: %s = %s" % (dj, render(kids(jd[-1])[1]) if jd else "?"))
    pi = ctor_count(prim_t[0])
    idef = [n for n in R.walk() if n["k"] == "BinaryOperator" and n.get("op") == "=" and render(kids(n)[0]) == "i" and "z[3]" in render(n)]
    t2.check(pi == "i" and len(idef) == 1 and render(kids(idef[0])[1]).replace(" ", "").startswith("nsv=have_options?(int)z[3]:"),
             "reader-primal-count", short_loc(prim_t[0].get("l")), "the number of primals read is z[3]",
             "primals read: %s; %s" % (pi, [render(x) for x in idef]))
    # objno line
    oa = [xrender(W, a) for a in p_obj[2]]
    t2.check(len(oa) == 2 and oa[0].replace(" ", "").endswith("objno()-1") and oa[1].endswith("status()"), "objno-args", short_loc(p_obj[0].get("l")),
             "objno line carries objno-1 and the solve code", str(oa))
    ro = [render(n) for n in R.walk() if n["k"] == "CXXMemberCallExpr" and n.get("callee", "").split("::")[-1] in ("OnObjno", "OnSolveCode") and in_text_path(R, n)]
    t2.check(ro == ["Handler().OnObjno(objno)", "Handler().OnSolveCode(Objno[1])"], "objno-read", short_loc(r_obj.get("l")),
             "first number -> objno, second -> solve code", str(ro))
    # suffix header
    ph = [p for p in sp if p[1] and len(placeholders(p[1])) == 6]
    if len(ph) != 1:
        raise AnalysisBroken("C05: suffix header print not found")
    hargs = ph[0][2]
    hr = [render(a).replace(" ", "") for a in hargs]
    locs = {v["name"]: render(kids(v)[0]).replace(" ", "") for v in WS.walk() if v["k"] == "VarDecl" and kids(v)}
    okh = len(hr) == 6 and "kind()&mask" in hr[0] and hr[1] == "num_values" and hr[2] in ("std::strlen(name)+1", "strlen(name)+1") and \
        hr[3] == "tablen" and hr[4] == "tabNlines" and hr[5] == "name" and ph[0][1] == "suffix {} {} {} {} {}\n{}\n"
    t2.check(okh, "suffix-header-written", short_loc(ph[0][0].get("l")), "written: kind&mask, #values, strlen(name)+1, tablen, tablines, then the name line", str(hr))
    def _tablines_ok():
        """the initialiser of tabNlines evaluated on modelled tables (used when it is not the expression of the pinned tree, e.g. a helper)"""
        vd = [v for v in WS.walk() if v["k"] == "VarDecl" and v.get("name") == "tabNlines" and kids(v)]
        if len(vd) != 1:
            return False
        for tb in ("", "a", "a\nb", "a\n", "\n\n"):
            def atom_t(t_, n_, env_, tb=tb):
                if n_["k"] == "CXXMemberCallExpr":
                    cn = (n_.get("callee") or "").split("::")[-1]
                    if cn == "empty":
                        return int(len(tb) == 0)
                    if cn in ("size", "length"):
                        return len(tb)
                return None
            mi_ = MiniInt(F, atom_t, seq=lambda t_, n_, env_, tb=tb: [ord(ch) for ch in tb])
            try:
                got = mi_.expr(kids(vd[0])[0], {}, 0)
            except AnalysisBroken:
                return False
            if got != (0 if not tb else 1 + tb.count("\n")):
                return False
        return True
    t2.check(locs.get("num_values") == "counter.num_values()" and locs.get("tablen", "").replace("(int)", "") in ("table.size()?table.size()+1:0",)
             and ((locs.get("tabNlines", "").startswith("table.empty()?0:1+") and "count(table.begin(),table.end(),'\\x0a')" in locs.get("tabNlines", "")) or _tablines_ok()), "suffix-header-values",
             short_loc(WS.loc), "#values = number of visited values, tablen = size+1 or 0, tablines = 1 + number of newlines or 0",
             "num_values=%s tablen=%s tabNlines=%s" % (locs.get("num_values"), locs.get("tablen"), locs.get("tabNlines")))
    mk = [v for v in WS.walk() if v["k"] == "VarDecl" and v.get("name") == "mask"]
    mval = cv(kids(mk[0])[0]) if mk else None
    # the reader's upper limit for kind: `kind > c` (or `c < kind`) leads to rejection; the header may be reached through a reference
    kmax = None
    hk = []
    by_id5 = getattr(F, "_by_id", {})
    sh_parts = [SH] + [g_ for g_ in {id(x): x for x in (by_id5.get(c_.get("calleeId")) for c_ in SH.walk() if c_["k"] in ("CallExpr", "CXXMemberCallExpr"))
                                     if x is not None and x.cfg is not None and x is not SH}.values()]
    for g_ in sh_parts:
        for n in g_.walk():
            if n["k"] == "BinaryOperator" and n.get("op") in (">", "<", ">=", "<="):
                a_, b_ = kids(n)
                op_ = n["op"]
                if cv(a_) is not None and cv(b_) is None:
                    a_, b_ = b_, a_
                    op_ = {">": "<", "<": ">", ">=": "<=", "<=": ">="}[op_]
                if xrender(g_, a_, True).replace(" ", "").endswith("h.kind") and cv(b_) not in (None, 0):
                    # `kind > c` (rejected) and `kind <= c` (accepted) put the limit at c; `kind >= c` / `kind < c` at c - 1
                    hk.append(n)
                    kmax = cv(b_) if op_ in (">", "<=") else cv(b_) - 1
    t2.check(mval is not None and kmax is not None and 0 <= mval <= kmax, "suffix-kind-range", short_loc(mk[0].get("l")) if mk else "",
             "kind & %s stays within the reader's accepted range [0,%s]" % (mval, kmax), "mask %s vs reader maximum %s" % (mval, kmax))
    lg = [c for c in GS.walk() if c["k"] == "CallExpr" and c.get("callee") == "mp::Lget"]
    lg = sorted(lg, key=lambda c: c["i"])
    got = [render(call_args(c)[1]).replace("&", "").split(".")[-1] for c in lg]
    if len(lg) == 1 and strip(call_args(lg[0])[1])["k"] == "DeclRefExpr":
        # table-driven: one Lget in a range-for over a local array of field pointers, read in the array's order
        lp_ = GS.enclosing(lg[0], ("CXXForRangeStmt",))
        rng_ = [v for v in walk(lp_) if v["k"] == "VarDecl" and (v.get("name") or "").startswith("__range") and kids(v)] if lp_ is not None else []
        arr_ = strip(kids(rng_[0])[0]) if rng_ else None
        avd_ = [v for v in GS.walk() if v["k"] == "VarDecl" and arr_ is not None and v.get("declId") == arr_.get("declId") and kids(v)]
        il_ = strip(kids(avd_[0])[0]) if avd_ else None
        body_ = [x for x in lp_.get("c", []) if x is not None][-1] if lp_ is not None else None
        inner_ = {x["i"] for x in walk(body_)} if body_ is not None else set()
        if il_ is not None and il_["k"] == "InitListExpr" and not [c_ for c_ in GS.cfg.facts_at(lg[0]) if c_[0] in inner_]:
            got = [render(x).replace("&", "").split(".")[-1] for x in kids(il_)]
    t2.check(got == ["kind", "n", "namelen", "tablen", "tablines"], "suffix-header-read", short_loc(lg[0].get("l")) if lg else "",
             "parsed in the order kind, n, namelen, tablen, tablines", str(got))
    # the two suffix readers (int / double), built by gsufread itself or by a delivery helper it calls
    ctors = list(reach_calls(F, GS, lambda n: n["k"] in ("CXXConstructExpr", "CXXTemporaryObjectExpr") and "SuffixReader" in (n.get("callee") or "")
                             and len(kids(n)) >= 4, depth=1))
    okn = len(ctors) == 2 and all(render(res_(kids(c_)[3])).replace(" ", "").endswith("SR.h.n") for a_, c_, res_, o_ in ctors)
    t2.check(okn, "suffix-n-is-line-count", short_loc(GS.loc), "n is the number of value lines read")
    dblr = list(reach_calls(F, GS, lambda n: n["k"] == "CXXMemberCallExpr" and n.get("callee", "").endswith("::OnDblSuffix"), depth=1))
    dbl = [c_ for a_, c_, r_, o_ in dblr]
    okd = len(dblr) == 1 and any(t.endswith("SR.h.kind&4") and pol is True for t, pol in norm_facts(dblr[0][3], dblr[0][1], loop_conditions=False))
    fl = F.enum_values("mp::suf::Kind") or {}
    t2.check(okd and (fl.get("FLOAT", 4) == 4), "suffix-float-bit", short_loc(dbl[0].get("l")) if dbl else "",
             "real-valued iff kind & 4 (= suf::FLOAT)")
    nm = [n for n in GS.walk() if n["k"] == "BinaryOperator" and n.get("op") == "!=" and "buf[SR.h.namelen - 1]" in render(n) and cv(kids(n)[1]) == 10]
    t2.check(bool(nm), "suffix-namelen-role", short_loc(GS.loc), "the name line ends at offset namelen-1, i.e. namelen = strlen(name)+1")
    tb = [p for p in sp if p[1] == "{}\n" and p[2] and render(p[2][0]) == "table"]
    okt = len(tb) == 1 and any(render(WS.nodes[cid]) == "tablen" and pol is True for cid, pol in WS.cfg.facts_at(tb[0][0]))
    rt = [n for n in GS.walk() if n["k"] == "IfStmt" and render(kids(n)[0]) == "SR.h.tablen"]
    t2.check(okt and len(rt) == 1, "suffix-table-iff-tablen", short_loc(tb[0][0].get("l")) if tb else "",
             "table lines are written and read iff tablen != 0")

    # ---- G1 ---------------------------------------------------------------------------
    g1 = rep.rule("C05.G1", "GUARD", "options block: keyword, count and vbtol forms agree", floor=3)
    conds_kw = [(render(W.nodes[cid]), pol) for cid, pol in W.cfg.facts_at(p_opt[0])]
    conds_ct = [(render(W.nodes[cid]), pol) for cid, pol in W.cfg.facts_at(p_nopt[0][0])]
    # reader: after the keyword a count is read unconditionally and must lie in [lo, hi]
    rng = [n for n in R.walk() if n["k"] == "BinaryOperator" and n.get("op") == "||" and render(n).replace(" ", "").startswith("nOpts<") and in_text_path(R, n)]
    lo = hi = None
    if rng:
        a, b = kids(rng[0])
        lo, hi = cv(kids(strip(a))[1]), cv(kids(strip(b))[1])
    g1.check(conds_kw == conds_ct, "options-block|keyword-and-count", short_loc(p_opt[0].get("l")),
             "the Options keyword and the option count are printed under the same condition",
             "\"Options\" is printed under %s but the count under %s: with no options the reader, which reads a count in [%s,%s] "
             "right after the keyword, takes the first of the four counts for it (error or misparse)"
             % (conds_kw or "no condition", conds_ct, lo, hi))
    vb_r = [n for n in R.walk() if n["k"] == "BinaryOperator" and n.get("op") == "==" and render(n).replace(" ", "") == "Options[2]==3" and in_text_path(R, n)]
    vb_w = [p for p in wp + sp if any("vbtol" in render(a) for a in p[2])] + \
        [n for n in W.walk() if n["k"] == "BinaryOperator" and n.get("op") == "==" and cv(kids(n)[1]) == 3 and "option(" in render(n)]
    if not vb_r:
        raise AnalysisBroken("C05.G1: reader's vbtol form not found")
    g1.check(bool(vb_w), "options-block|vbtol-form", short_loc(vb_r[0].get("l")),
             "the writer implements the vbtol form the reader expects",
             "the reader treats option[1] == 3 as the vbtol form (count reduced by 2, an extra real line after the counts); the writer "
             "prints the options verbatim and never a vbtol line: such a file is misparsed")
    g1.check(lo == 3 and hi == 9, "reader-count-range", short_loc(rng[0].get("l")) if rng else "", "reader accepts 3..9 options", "range %s..%s" % (lo, hi))

    # a suffix's name and table are read into a scratch buffer that must start zero-filled for every suffix (the readers rely on
    # it for a missing table, an unterminated last table line and binary strings): the scratch object is created per suffix
    for g_ in [x for x in funcs if x.qn in ("mp::SOLReader2::gsufread", "mp::SOLReader2::bsufread")]:
        chk_ = [n for n in g_.walk() if n["k"] == "CXXMemberCallExpr" and (n.get("callee") or "").endswith("::sufheadcheck")]
        for n in chk_[:1]:
            refs_ = [x for a_ in call_args(n) for x in walk(a_) if x["k"] == "DeclRefExpr" and x.get("dk") == "Var"]
            vd_ = [v for v in g_.walk() if v["k"] == "VarDecl" and refs_ and v.get("declId") == refs_[0].get("declId")]
            lp_ = g_.enclosing(n, ("ForStmt", "WhileStmt", "DoStmt"))
            fresh = bool(vd_) and lp_ is not None and any(a_["i"] == lp_["i"] for a_ in g_.ancestors(vd_[0]))
            emptied = any(c["k"] == "CXXMemberCallExpr" and (c.get("callee") or "").split("::")[-1] in ("clear", "assign") and "xp" in render(c) for c in SH.walk())
            t2.check(fresh or emptied, "suffix-scratch-fresh|%s" % g_.name, short_loc(n.get("l")),
                     "%s: the scratch of a suffix is created for that suffix (zero-filled)" % g_.name,
                     "%s: the scratch object outlives one suffix and is only resized: a later suffix is read back with bytes of an earlier one in its table or name" % g_.name)

    # ---- F1 ---------------------------------------------------------------------------
    f1 = rep.rule("C05.F1", "FLOW", "doubles are printed with >= 16 significant digits, integers with '{}'", floor=10)
    vis = [f for f in funcs if f.qn == "mp::internal::SuffixValueWriter::Visit"]
    allp = [(W, p) for p in wp] + [(WS, p) for p in sp] + [(f, p) for f in vis for p in prints_of(f)]
    for f, (c, lit, args) in allp:
        if lit is None:
            f1.fail("literal|%s" % short_loc(c.get("l")), short_loc(c.get("l")), "format string is not a literal")
            continue
        for idx, spec in placeholders(lit):
            if idx >= len(args):
                f1.fail("arity|%s" % short_loc(c.get("l")), short_loc(c.get("l")), "placeholder %d without argument" % idx)
                continue
            a = strip(args[idx])
            ty = (a.get("ct") or a.get("t") or "").replace("const ", "")
            key = "%s|%s|%d|%s" % (f.full.split("(")[0].split("::")[-1][:40], short_loc(c.get("l")).split(":")[-1], idx, ty[:20])
            if ty in ("double", "float", "long double"):
                # a dynamic precision `{:.{}}` counts with the constant value of its argument
                spec = re.sub(r"\{(\d+)\}", lambda m_: str(cv(args[int(m_.group(1))])) if int(m_.group(1)) < len(args) and cv(args[int(m_.group(1))]) is not None else "?", spec)
                m = re.fullmatch(r"\.(\d+)[gGeE]?", spec)
                f1.check(bool(m) and int(m.group(1)) >= 16, key, short_loc(c.get("l")), "double `%s` printed with '{:%s}'" % (render(a)[:40], spec),
                         "double `%s` is printed with '{%s}': fewer than 16 significant digits" % (render(a)[:40], (":" + spec) if spec else ""))
            elif any(t in ty for t in ("int", "long", "size_t", "unsigned", "short", "size_type")) and "*" not in ty:
                f1.check(spec == "", key, short_loc(c.get("l")), "integer `%s` printed with '{}'" % render(a)[:40],
                         "integer `%s` printed with spec '%s'" % (render(a)[:40], spec))
            else:
                f1.check(spec == "" and ("char" in ty or "string" in ty), key, short_loc(c.get("l")), "text `%s`" % render(a)[:40],
                         "argument `%s` of type %s is not a number or text" % (render(a)[:40], ty))
    f1.check(any(f.params and (f.params[1].get("ct") or "") == "double" for f in vis), "double-overload", "",
             "SuffixValueWriter has a Visit(int, double) overload")

    # ---- S1 ---------------------------------------------------------------------------
    s1 = rep.rule("C05.S1", "RANGE", "message writer: no interior empty line, terminating empty line (case enumeration)", floor=3)
    fl_ = [n for n in WM.walk() if n["k"] == "ForStmt"]
    if len(fl_) != 1:
        raise AnalysisBroken("C05.S1: WriteMessage is not a single line loop")
    body = fl_[0]["c"][-1]
    st = kids(body)
    okshape = len(st) >= 3 and st[0]["k"] == "DeclStmt" and render(st[0]) == "const char * line_end = line_start" and st[1]["k"] == "WhileStmt" \
        and rr(kids(st[1])[0]) == "*line_end&&*line_end!='\\n'" and render(kids(st[1])[1]) == "++line_end" \
        and render(fl_[0]["c"][0]).endswith("line_start = message")
    s1.check(okshape, "line-scan", short_loc(WM.loc), "each iteration scans one line [line_start, line_end) up to '\\n' or the end",
             "scan loop: %s" % render(st[1])[:80] if len(st) > 1 else "?")
    ATOMS = {"line_end==line_start": "empty", "line_start==line_end": "empty", "*line_end": "more", "!*line_end": "nomore",
             "line_end!=line_start": "nonempty", "line_start!=line_end": "nonempty", "*line_end=='\\x00'": "nomore",
             "*line_end!='\\x00'": "more", "*line_end==0": "nomore", "*line_end!=0": "more",
             "line_end-line_start==0": "empty", "line_end-line_start!=0": "nonempty", "line_end-line_start>0": "nonempty"}
    bad_atoms = []

    def ev(n, env):
        n = strip(expand_locals(WM, n))
        r = render(n).replace(" ", "")
        if r in ATOMS and ATOMS[r] == "nonempty":
            return not env["empty"]
        if r in ATOMS:
            a = ATOMS[r]
            return {"empty": env["empty"], "more": not env["last"], "nomore": env["last"]}[a]
        if n["k"] == "BinaryOperator" and n.get("op") in ("&&", "||"):
            x, y = kids(n)
            return (ev(x, env) and ev(y, env)) if n["op"] == "&&" else (ev(x, env) or ev(y, env))
        if n["k"] == "UnaryOperator" and n.get("op") == "!":
            return not ev(kids(n)[0], env)
        bad_atoms.append(r)
        return False

    def ex(stmts, env, out):
        for s in stmts:
            k = s["k"]
            if k == "CompoundStmt":
                r = ex(kids(s), env, out)
                if r:
                    return r
            elif k == "IfStmt":
                ks = [x for x in s.get("c", []) if x is not None]
                br = ks[1] if ev(ks[0], env) else (ks[2] if len(ks) > 2 else None)
                if br is not None:
                    r = ex([br], env, out)
                    if r:
                        return r
            elif k == "BreakStmt":
                return "break"
            elif k == "CallExpr" and s.get("callee", "").endswith("fputc"):
                out.append(chr(cv(call_args(s)[0])))
            elif k == "CallExpr" and s.get("callee", "").endswith("fwrite"):
                a = [xrender(WM, x).replace(" ", "") for x in call_args(s)]
                if (a[0], a[1], a[2]) not in (("line_start", "1", "line_end-line_start"), ("line_start", "line_end-line_start", "1")):
                    raise AnalysisBroken("C05.S1: fwrite arguments %s" % a)
                if not env["empty"]:
                    out.append("L")
            elif k == "BinaryOperator" and s.get("op") == "=" and render(s).replace(" ", "") == "line_start=line_end+1":
                return "next"
            elif k == "DeclStmt" and all(v["k"] != "VarDecl" or v.get("declId") in _stable_local_inits(WM) for v in kids(s)):
                continue                 # a named subexpression / condition: looked through where it is used
            elif k == "NullStmt":
                continue
            else:
                raise AnalysisBroken("C05.S1: statement `%s` outside the fragment" % render(s)[:60])
        return None
    res = {}
    for empty in (False, True):
        for last in (False, True):
            out = []
            r = ex(st[2:], dict(empty=empty, last=last), out)
            res[(empty, last)] = ("".join(out), r)
    if bad_atoms:
        raise AnalysisBroken("C05.S1: conditions %s outside the atoms of the case enumeration" % sorted(set(bad_atoms)))
    problems = []
    for (empty, last), (o, r) in res.items():
        if not last:
            if r != "next":
                problems.append("a line followed by another does not advance to it")
            lines = o.split("\n")
            if not o.endswith("\n") or o.count("\n") != 1 or lines[0] == "":
                problems.append("an %s interior line is written as %r (must be exactly one non-empty line)" % ("empty" if empty else "ordinary", o))
            if not empty and lines[0] != "L":
                problems.append("an ordinary line is written as %r" % o)
        else:
            if r != "break":
                problems.append("the last line does not end the loop")
            want = ("" if empty else "L\n") + "\n"
            if not (o.startswith(want) and set(o[len(want):]) <= {"\n"}):
                problems.append("the last line (%s) is written as %r: the terminating empty line is missing" % ("empty" if empty else "text", o))
    s1.check(not problems, "line-cases", short_loc(WM.loc), "4 (empty, last) cases: %s" % {k: v[0] for k, v in res.items()}, "; ".join(problems[:3]))
    rm = [n for n in R.walk() if n["k"] == "BinaryOperator" and n.get("op") == "==" and rr(n) == "*buf=='\\n'" and in_text_path(R, n)]
    s1.check(len(rm) == 1, "reader-terminator", short_loc(rm[0].get("l")) if rm else "", "the reader ends the message at the first empty line")

    # ---- P1 ---------------------------------------------------------------------------
    p1 = rep.rule("C05.P1", "RANGE", "non-finite dense values are rejected: decstring accepts only tokens ending in a digit or '.'", floor=3)
    by_id = {f.id: f for f in funcs}

    class _Ret(Exception):
        def __init__(self, v):
            self.v = v

    def dv(n, env):
        n = strip(n)
        k = n["k"]
        r = render(n).replace(" ", "")
        if r == "be<=buf" or r == "buf>=be":
            return int(env["none"])
        if r == "be>buf" or r == "buf<be":
            return int(not env["none"])
        if r == "be==buf" or r == "buf==be":
            return int(env["none"])
        if r == "be[-1]" or r == "*(be-1)":
            return env["c"]
        if r in ("*__errno_location()", "errno"):
            # strtod sets errno = ERANGE for overflow AND for every subnormal (finite) result
            return env["errno"]
        if k == "DeclRefExpr" and n.get("name") == "ERANGE" or (n.get("m") == "ERANGE" and "cv" in n):
            return 34
        if k == "DeclRefExpr" and n.get("declId") in env["locals"]:
            v = env["locals"][n["declId"]]
            if v is None:
                raise AnalysisBroken("C05.P1: %s read before it is set" % n.get("name"))
            return v
        if k in ("IntegerLiteral", "CharacterLiteral"):
            return int(n["v"])
        if k == "CXXBoolLiteralExpr":
            return int(str(n.get("v")).lower() in ("true", "1"))
        if "cv" in n and k != "DeclRefExpr":
            return int(n["cv"])
        if k == "ConditionalOperator":
            c_, a, b = kids(n)
            return dv(a, env) if dv(c_, env) else dv(b, env)
        if k == "BinaryOperator":
            a, b = kids(n)
            op = n["op"]
            if op == "=":
                v = dv(b, env)
                t = strip(a)
                if t["k"] != "DeclRefExpr" or t.get("declId") not in env["locals"]:
                    raise AnalysisBroken("C05.P1: assignment to %s" % render(a))
                env["locals"][t["declId"]] = v
                return v
            if op == "||":
                return int(bool(dv(a, env)) or bool(dv(b, env)))
            if op == "&&":
                return int(bool(dv(a, env)) and bool(dv(b, env)))
            if op == ",":
                dv(a, env)
                return dv(b, env)
            x, y = dv(a, env), dv(b, env)
            if op in ("-", "+"):
                return x - y if op == "-" else x + y
            return {"<": int(x < y), ">": int(x > y), "<=": int(x <= y), ">=": int(x >= y), "==": int(x == y), "!=": int(x != y)}[op]
        if k == "UnaryOperator" and n.get("op") == "!":
            return int(not dv(kids(n)[0], env))
        if k == "CallExpr":
            nm = (n.get("callee") or "").replace("std::", "")
            a = [dv(x, env) for x in call_args(n)]
            if nm == "isdigit" and len(a) == 1:
                return int(48 <= a[0] <= 57)
            g = by_id.get(n.get("calleeId"))
            if g is not None and len(g.params) == len(a) and env["depth"] < 3:
                return call_fn(g, a, env)
        raise AnalysisBroken("C05.P1: expression `%s` outside the fragment" % r[:50])

    def call_fn(g, args, env):
        e2 = dict(env, depth=env["depth"] + 1, locals={p["declId"]: v for p, v in zip(g.params, args)})
        body = [x for x in g.roots if x is not None and x["k"] == "CompoundStmt"]
        try:
            run_stmts(kids(body[-1]), e2)
        except _Ret as r_:
            return r_.v
        raise AnalysisBroken("C05.P1: %s has a path without a return" % g.name)

    def run_stmts(stmts, env):
        for st_ in stmts:
            if st_ is None:
                continue
            k = st_["k"]
            if k == "CompoundStmt":
                run_stmts(kids(st_), env)
            elif k == "DeclStmt":
                for v in kids(st_):
                    if v["k"] == "VarDecl":
                        ini = kids(v)
                        env["locals"][v["declId"]] = dv(ini[0], env) if ini and "strtod" not in render(ini[0]) and v.get("name") != "be" else None
            elif k == "ReturnStmt":
                raise _Ret(dv(kids(st_)[0], env))
            elif k == "IfStmt":
                ch = [x for x in st_["c"] if x is not None]
                if dv(ch[0], env):
                    run_stmts([ch[1]], env)
                elif len(ch) > 2:
                    run_stmts([ch[2]], env)
            elif k == "NullStmt":
                pass
            elif "strtod" in render(st_):
                pass                      # the conversion itself: value and end pointer are the case parameters
            elif k == "BinaryOperator" and st_.get("op") == "=" and render(kids(st_)[0]).replace(" ", "") in ("*__errno_location()", "errno"):
                pass                      # errno reset before the conversion: the value after strtod is a case parameter
            elif k == "BinaryOperator" and st_.get("op") == "=":
                dv(st_, env)
            else:
                raise AnalysisBroken("C05.P1: statement `%s` outside the fragment" % render(st_)[:60])

    def decstring_rejects(none, cc, en):
        env = dict(none=none, c=cc, errno=en, depth=0, locals={})
        for v in DEC.walk():
            if v["k"] == "VarDecl":
                env["locals"].setdefault(v["declId"], None)
        body = [x for x in DEC.roots if x is not None and x["k"] == "CompoundStmt"]
        try:
            run_stmts(kids(body[-1]), env)
        except _Ret as r_:
            return r_.v
        raise AnalysisBroken("C05.P1: decstring has a path without a return")
    wrong = []
    uses_errno = any("__errno_location" in render(x) or render(x) == "errno" for x in DEC.walk() if x["k"] in ("CallExpr", "UnaryOperator", "DeclRefExpr"))
    for none in (0, 1):
        for c in range(256):
            for en in ((0, 34) if uses_errno else (0,)):
                cc = c - 256 if c >= 128 else c       # plain char is signed on the target
                rej = decstring_rejects(none, cc, en)
                want = bool(none) or not (chr(c).isdigit() and c < 128 or c == ord("."))
                if bool(rej) != want:
                    wrong.append((none, c, rej, en))
    p1.check(not wrong, "decstring-cases", short_loc(DEC.loc), "512 (nothing parsed, last character) cases: accepted iff something was parsed "
             "and the token ends in a digit or '.' (so 'inf', 'nan', 'infinity' are rejected)",
             "decstring %s a token ending in %r%s" % ("accepts" if wrong and not wrong[0][2] else "rejects", chr(wrong[0][1]) if wrong else "",
                                                       " when strtod reported ERANGE, which it does for every subnormal (finite) value"
                                                       if wrong and wrong[0][3] else ""))
    sd = [n for n in DEC.walk() if n["k"] == "CallExpr" and n.get("callee", "").endswith("strtod")]
    p1.check(len(sd) == 1 and [render(a) for a in call_args(sd[0])] == ["buf", "&be"], "decstring-strtod", short_loc(DEC.loc),
             "the value and the end pointer come from strtod(buf, &be)")
    dc = [n for n in RD.walk() if n["k"] == "CallExpr" and n.get("callee") == "mp::decstring"]
    okr_ = False
    # shape-free: some `return ...Bad_Line` is reached exactly under  !binary && decstring(...)
    for r_ in RD.walk():
        if r_["k"] == "ReturnStmt" and "Bad_Line" in render(r_):
            fa_ = norm_facts(RD, r_, loop_conditions=False)
            feasible_ = not any((t, not pol) in fa_ for t, pol in fa_)           # `c && !c` guards nothing
            if len(dc) == 1 and feasible_ and ("binary", False) in fa_ and any(t.startswith("decstring(") and pol is True for t, pol in fa_):
                okr_ = True
    p1.check(okr_, "dense-reader-rejects", short_loc(RD.loc), "a dense value line rejected by decstring yields NLW2_SOLRead_Bad_Line")
    vrn = one("mp::VecReader::ReadNext", lambda f: "double" in f.full and "pair" not in f.full)
    rdcall = [n for n in vrn.walk() if n["k"] == "CallExpr" and n.get("callee") == "mp::Read"]
    p1.check(len(rdcall) == 1 and any(x["k"] == "BinaryOperator" and x.get("op") == "=" and render(kids(x)[0]) == "n_" and cv(kids(x)[1]) == 0 for x in vrn.walk()),
             "error-stops-vector", short_loc(vrn.loc), "a rejected line ends the vector with the error status")
    return rep
