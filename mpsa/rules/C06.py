"""C06 - inferred bounds and integrality of auxiliary variables never cut off a value
(constant-range, provenance and replacement-guard clauses).

T1 constant ranges: every argument-independent narrow_result_bounds(lo, hi) of a PreprocessConstraint
   overload is folded (Pi(), Infty(), n = number of arguments) and must contain the mathematical range of
   that function type from a reference table;
F1 integrality provenance: a literal var::INTEGER result type occurs only for logical / counting
   constraint types; elsewhere the type is computed from the arguments;
G1 replacement guards: an expression is replaced by a variable (set_result_var) or a constant
   (narrow_result_bounds(c, c)) only under the guards of the enumerated table (after inlining locals);
W1 result bounds are only ever intersected: PreprocessInfo::narrow_result_bounds uses max/min with the old
   bounds, and no overload writes the bounds directly;
B1 interval helpers: the linear bound sum takes the lower bound for non-negative and the upper bound for
   negative coefficients (and vice versa); products take min/max over the four corner products; squares
   include 0 when the domain crosses it; min/max array helpers fold with the right operation;
D1 downward propagation: the bounds a PropagateResult overload hands to an argument variable are from the table
   of sound bounds of its constraint kind (not: [1-ub, 1-lb]; and: [lb, 1]; or: [0, ub]; logical arguments
   [0, 1]; otherwise unbounded).
"""
import math
import re
from ..cfg import xrender, norm_facts, expand_locals, Facts, kids, strip, walk, cv, render, call_args, call_object
from ..cfg import short_loc as _short_loc
from ..facts import export_many, AnalysisBroken

LEVEL = "other"
TECHNIQUE = ("static analysis: constant folding of the range arguments against a reference table of function "
             "ranges, provenance (dataflow) rule for literal integrality, guard rules with branch facts after "
             "inlining single-assignment locals, who-may-write rule on the bound fields, structural rules on "
             "the interval helpers")
LEVEL_TEXT = ("Decided: the argument-independent clauses - constant result ranges contain the function's range, "
              "integrality is literal only for 0/1 and counting results, replacements by a variable or constant "
              "happen only under the conditions that make them exact, bounds are only intersected, the interval "
              "helpers pick the right corner per coefficient sign, bounds pushed down from a result to its arguments are "
              "sound for the constraint kind.  Not decided: numeric soundness of the "
              "data-dependent ranges (pow, div, quadratic, piecewise-linear) for all argument domains, incl. "
              "rounding; the deliberate restriction of log's argument to x >= 1e-6."
              "  Also decided (round 7): the result bounds of a quotient with a sign-definite denominator contain all corner quotients (sample boxes); fractional right-hand sides are rounded in the direction that keeps the integer solutions.")
LEVEL_NOTE = "Trusted: clang 14 front end/CFG, tool/mpx.cc, the rule module and its reference table of function ranges."
DESIGN_REF = "DESIGN.md section 4, C06"
EXPLANATION = ("Unit: the visitor flat-converter unit (43 PreprocessConstraint instantiations, helpers, PreprocessInfo, "
               "BoundComputations, FlatModel bound helpers).  See the module docstring.")
ASSUMPTIONS = ["IEEE arithmetic: NaN bounds never narrow (std::max/std::min keep the first operand)",
               "argument variables of logical constraints are binary (asserted by the code)"]
TRUSTED = ["clang 14 front end + CFG builder", "tool/mpx.cc", "mpsa/rules/C06.py (reference ranges)"]

U = "solvers/visitor/visitor-modelapi-connect.cc"
_REPO = ["/repo"]
INF = float("inf")
PI = math.pi
# reference: mathematical range of the result, (lo, hi); 'n' = number of arguments
RANGES = {"Exp": (0.0, INF), "ExpA": (0.0, INF), "Sin": (-1.0, 1.0), "Cos": (-1.0, 1.0), "Asin": (-PI / 2, PI / 2),
          "Acos": (0.0, PI), "Atan": (-PI / 2, PI / 2), "Cosh": (1.0, INF), "Tanh": (-1.0, 1.0), "Acosh": (0.0, INF),
          "And": (0.0, 1.0), "Or": (0.0, 1.0), "Not": (0.0, 1.0), "AllDiff": (0.0, 1.0), "Implication": (0.0, 1.0),
          "Cond": (0.0, 1.0), "Count": (0.0, "n"), "NumberofConst": (0.0, "n"), "NumberofVar": (0.0, "n-1")}
LOGICAL = {"And", "Or", "Not", "AllDiff", "Implication", "Cond", "Count", "NumberofConst", "NumberofVar"}
UNBOUNDED_OK = {"Tan", "Sinh", "Asinh", "Atanh", "PL", "Log", "LogA"}     # no constant range may be claimed (unbounded functions)


def short_loc(l):
    return _short_loc((l or "").replace(_REPO[0].rstrip("/") + "/", "/repo/"))


def ctype(f):
    t = (f.params[0].get("t") or "")
    if "ConditionalConstraint" in t or t.startswith("mp::Cond"):
        return "Cond"
    t = t.replace("mp::", "").replace("&", "").strip()
    if t.endswith("Constraint"):
        t = t[:-len("Constraint")]
    return {"LinearFunctional": "Lin", "QuadraticFunctional": "Quad", "IfThen": "IfThen"}.get(t, t)


def fold(e, nsym=None):
    """constant value of a range argument: number, +-inf, or ('n', k) for size()+k; None if argument dependent"""
    e = strip(e)
    k = e["k"]
    if k == "FloatingLiteral":
        return float(e["v"])
    if k == "IntegerLiteral":
        return float(e["v"])
    if "cv" in e and k not in ("DeclRefExpr",):
        try:
            return float(e["cv"])
        except ValueError:
            pass
    if k in ("CStyleCastExpr", "CXXStaticCastExpr", "CXXFunctionalCastExpr"):
        return fold(kids(e)[0])
    if k == "UnaryOperator" and e.get("op") == "-":
        v = fold(kids(e)[0])
        return -v if isinstance(v, float) else None
    if k in ("CXXMemberCallExpr", "CallExpr"):
        nm = e.get("callee", "").split("::")[-1]
        if nm == "Pi" and not call_args(e):
            return PI
        if nm in ("Infty", "Inf") and not call_args(e):
            return INF
        if nm in ("MinusInfty", "MinusInf") and not call_args(e):
            return -INF
        if nm == "size" and "GetArguments()" in render(e):
            return ("n", 0.0)
    if k == "BinaryOperator" and e.get("op") in ("+", "-", "*", "/"):
        a, b = fold(kids(e)[0]), fold(kids(e)[1])
        if isinstance(a, float) and isinstance(b, float):
            try:
                return {"+": a + b, "-": a - b, "*": a * b, "/": a / b}[e["op"]]
            except ZeroDivisionError:
                return None
        if isinstance(a, tuple) and isinstance(b, float) and e["op"] in ("+", "-"):
            return ("n", a[1] + (b if e["op"] == "+" else -b))
    return None


def run(rep, ctx):
    repo = ctx["repo"]
    _REPO[0] = repo
    jobs = [dict(unit=U, fn=[r"mp::ConstraintPreprocessors::.*", r"mp::PreprocessInfo::.*", r"mp::BoundComputations::.*",
                             r"mp::FlatModel::(lb_array|lb_max_array|ub_array|ub_min_array|common_type|is_binary_var)",
                             r"mp::FlatModel::(lb_array|lb_max_array|ub_array|ub_min_array|common_type|is_binary_var)::.*"], repo=repo)]
    F = Facts(export_many(jobs))
    rep.note_units([U])
    funcs = [f for f in F.funcs if not f.is_dependent() and f.cfg is not None]
    rep.note_funcs(funcs)
    over = [f for f in funcs if f.qn == "mp::ConstraintPreprocessors::PreprocessConstraint"]
    if len(over) < 30:
        raise AnalysisBroken("only %d PreprocessConstraint instantiations found" % len(over))

    def ncalls(f, name):
        return [c for c in f.walk() if c["k"] == "CXXMemberCallExpr" and c.get("callee", "").endswith("PreprocessInfo::" + name)]

    import re as _re

    def norm(t):
        t = t.replace(" ", "")
        t = _re.sub(r"\((?:const)?mp::[A-Za-z_0-9:<>,]*\*\)", "", t)       # CRTP casts
        t = t.replace("this->", "").replace("std::", "").replace("mp::", "").replace("var::", "")
        t = _re.sub(r"(?<![0-9.])([0-9]+)\.0(?![0-9])", r"\1", t)
        return t

    def locals_map(f):
        m = {}
        for v in f.walk():
            if v["k"] == "VarDecl" and kids(v) and v.get("name"):
                wr = [n for n in f.walk() if n["k"] in ("BinaryOperator", "CompoundAssignOperator", "UnaryOperator") and
                      (n.get("op") in ("++", "--") or (n.get("op", "").endswith("=") and n.get("op") not in ("==", "!=", "<=", ">="))) and
                      strip(kids(n)[0]).get("declId") == v.get("declId")]
                if not wr:
                    m[v["name"]] = norm(render(kids(v)[0]))
        return m

    def inline(f, e, depth=0):
        t = norm(render(strip(e)))
        m = locals_map(f)
        for _ in range(5):
            t2 = t
            for nm, init in m.items():
                t2 = _re.sub(r"(?<![A-Za-z0-9_.>])%s(?![A-Za-z0-9_(])" % _re.escape(nm), init, t2)
            if t2 == t:
                break
            t = t2
        return t

    def guards(f, n):
        out = []
        for cid, pol in f.cfg.facts_at(n):
            par = f.parent.get(cid)
            while par is not None and par["k"] in ("ImplicitCastExpr", "ParenExpr", "ExprWithCleanups"):
                par = f.parent.get(par["i"])
            if par is not None and par["k"] in ("ForStmt", "WhileStmt", "CXXForRangeStmt"):
                continue
            c = strip(f.nodes[cid])
            if c["k"] == "BinaryOperator" and c.get("op") in ("&&", "||"):
                continue
            while c["k"] == "UnaryOperator" and c.get("op") == "!":
                pol = not pol
                c = strip(kids(c)[0])
            out.append(("" if pol else "!") + "(" + inline(f, c) + ")")
        return sorted(set(out))

    # ---- T1 ---------------------------------------------------------------------------
    t1 = rep.rule("C06.T1", "RANGE", "constant result ranges contain the function's mathematical range", floor=18)
    seen_types = set()
    for f in over:
        ty = ctype(f)
        seen_types.add(ty)
        for c in ncalls(f, "narrow_result_bounds"):
            a = call_args(c)
            lo, hi = fold(a[0]), fold(a[1])
            if lo is None or hi is None:
                continue            # argument dependent: not decided here
            g = guards(f, c)
            key = "%s|%s|%s" % (ty, short_loc(c.get("l")).split(":")[-1], "cond" if g else "always")
            if g and lo == hi:
                continue            # a constant replacement: G1
            if ty in UNBOUNDED_OK or ty not in RANGES:
                t1.fail(key, short_loc(c.get("l")), "%s: a constant result range [%s, %s] is claimed for a function whose range is not in the "
                        "reference table (unbounded or data dependent)" % (ty, lo, hi))
                continue
            rlo, rhi = RANGES[ty]
            def ge(x, y):      # x >= y with symbolic n (n >= 0; NumberofVar has n >= 1)
                if isinstance(x, tuple) and isinstance(y, str):
                    off = {"n": 0.0, "n-1": -1.0}[y]
                    return x[1] >= off
                if isinstance(x, float) and isinstance(y, str):
                    return x == INF
                if isinstance(x, tuple):
                    return False
                return x >= y
            ok = isinstance(lo, float) and lo <= rlo and ge(hi, rhi)
            t1.check(ok, key, short_loc(c.get("l")), "%s: result narrowed to [%s, %s], mathematical range [%s, %s]" % (ty, lo, hi, rlo, rhi),
                     "%s: result narrowed to [%s, %s], which does not contain the function's range [%s, %s]: values of the expression are cut off"
                     % (ty, lo, hi, rlo, rhi))
    for ty in ("Exp", "Sin", "Cos", "Asin", "Acos", "Atan", "Cosh", "Tanh", "And", "Or", "Not", "Count", "NumberofVar"):
        if ty not in seen_types:
            raise AnalysisBroken("C06.T1: no PreprocessConstraint overload for %s found" % ty)

    # ---- F1 ---------------------------------------------------------------------------
    f1 = rep.rule("C06.F1", "FLOW", "a literal integer result type only for logical and counting constraints; elsewhere computed from the arguments", floor=15)
    COMPUTED_OK = ("common_type(", "var_type(", ".type()", "get_result_type()", ".type_")
    for f in over + [g for g in funcs if g.qn.startswith("mp::ConstraintPreprocessors::") and g.name != "PreprocessConstraint"]:
        ty = ctype(f) if f.name == "PreprocessConstraint" else f.name
        for c in ncalls(f, "set_result_type"):
            a = strip(call_args(c)[0])
            key = "%s|%s" % (ty, short_loc(c.get("l")).split(":")[-1])
            if "cv" in a or a["k"] == "DeclRefExpr" and a.get("dk") == "EnumConstant":
                lit = a.get("name") or str(a.get("cv"))
                f1.check(ty in LOGICAL, key, short_loc(c.get("l")), "%s: literal result type %s (0/1 or counting result)" % (ty, lit),
                         "%s: the result is declared %s unconditionally although the function is not integer valued on integer arguments only"
                         % (ty, lit))
            else:
                t = norm(render(a))
                f1.check(any(x in t for x in COMPUTED_OK), key, short_loc(c.get("l")), "%s: result type computed from the arguments: %s" % (ty, t[:70]),
                         "%s: result type `%s` is not derived from the argument types" % (ty, t[:70]))

    # ---- F2: the helpers the computed types rest on -------------------------------------------------
    f2 = rep.rule("C06.F2", "TABLE", "common_type is INTEGER only if every argument is an integer variable or fixed at an integer value; is_binary_var only for {0,1}-valued variables", floor=2)

    def truth(e, env):
        """evaluate a boolean expression over atoms; env maps atom text -> bool"""
        e = strip(e)
        if e["k"] == "BinaryOperator" and e.get("op") in ("&&", "||"):
            a, b = truth(kids(e)[0], env), truth(kids(e)[1], env)
            return (a and b) if e["op"] == "&&" else (a or b)
        if e["k"] == "UnaryOperator" and e.get("op") == "!":
            return not truth(kids(e)[0], env)
        t = norm(render(e)).replace(" ", "")
        if t not in env:
            raise KeyError(t)
        return env[t]
    cts = [g for g in funcs if g.qn == "mp::FlatModel::common_type"]
    if not cts:
        raise AnalysisBroken("C06.F2: FlatModel::common_type not found")
    for g in cts[:3]:
        # the per-element predicate "keeps INTEGER": from the loop form (the type is demoted when the test holds) or from
        # std::all_of / none_of with a lambda whose verdict selects INTEGER
        ifs = [n for n in g.walk() if n["k"] == "IfStmt"]
        asg = [n for n in g.walk() if n["k"] == "BinaryOperator" and n.get("op") == "=" and "CONTINUOUS" in render(kids(n)[1])]
        rets = [r for r in g.walk() if r["k"] == "ReturnStmt"]
        pred = None            # (expression node, True if the expression says "integral", False if it says "demote")
        ok = False
        if len(ifs) == 1 and len(asg) == 1 and len(rets) == 1 and any(n["k"] in ("CXXForRangeStmt", "ForStmt", "WhileStmt") for n in g.walk()) and \
                any(x["i"] == asg[0]["i"] for x in walk(ifs[0])):
            init = [v for v in g.walk() if v["k"] == "VarDecl" and kids(v) and "INTEGER" in render(kids(v)[0])]
            tgt = strip(kids(asg[0])[0])
            if len(init) == 1 and tgt.get("declId") == init[0]["declId"] and strip(kids(rets[0])[0]).get("declId") == init[0]["declId"]:
                pred, ok = (kids(ifs[0])[0], False), True
        if not ok:
            algo = [c for c in g.walk() if c["k"] == "CallExpr" and (c.get("callee") or "").split("::")[-1] in ("all_of", "none_of", "any_of") and len(call_args(c)) == 3]
            lam = [h for h in F.funcs if h.qn == g.qn + "::(lambda)::operator()" and not h.is_dependent()]
            if len(algo) == 1 and lam and len(rets) == 1:
                lrets = [r for r in lam[0].walk() if r["k"] == "ReturnStmt"]
                e_ret = strip(expand_locals(g, kids(rets[0])[0], 0, True))
                kind_ = algo[0]["callee"].split("::")[-1]
                if len(lrets) == 1 and e_ret["k"] == "ConditionalOperator" and any(x["i"] == algo[0]["i"] for x in walk(kids(e_ret)[0])):
                    c_, a_, b_ = kids(e_ret)
                    neg = strip(c_)["k"] == "UnaryOperator" and strip(c_).get("op") == "!"
                    int_if_true = "INTEGER" in render(a_) and "CONTINUOUS" in render(b_)
                    int_if_false = "CONTINUOUS" in render(a_) and "INTEGER" in render(b_)
                    if int_if_true or int_if_false:
                        algo_true_means_integer = (int_if_true != neg)
                        # all_of(P): true <=> every element satisfies P;  none_of(P)/any_of(P): P marks the demoting elements
                        if kind_ == "all_of" and algo_true_means_integer:
                            pred, ok = (kids(lrets[0])[0], True), True
                        elif kind_ == "none_of" and algo_true_means_integer:
                            pred, ok = (kids(lrets[0])[0], False), True
                        elif kind_ == "any_of" and not algo_true_means_integer:
                            pred, ok = (kids(lrets[0])[0], False), True
        bad = None
        if ok:
            try:
                for a in (False, True):
                    for b in (False, True):
                        for c in (False, True):
                            env = {"is_integer_var(v)": a, "is_fixed(v)": b, "is_integer_value(fixed_value(v))": c}
                            val = truth(pred[0], env)
                            demoted = (not val) if pred[1] else val
                            integral = a or (b and c)
                            if not integral and not demoted:
                                bad = "an argument that is %san integer variable, %sfixed%s keeps the result type INTEGER" % ("" if a else "not ", "" if b else "not ", (" at an integer value" if c else " at a fractional value") if b else "")
            except KeyError as ke:
                ok = False
                bad = "unrecognised atom %s" % ke
        key = "common_type|%s" % ("list" if "initializer_list" in g.full else "array" if "std::array" in g.full else "vector")
        f2.check(ok and bad is None, key, short_loc(g.loc), "common_type: the type is demoted to CONTINUOUS for every argument that is neither an integer variable nor fixed at an integer value",
                 "common_type: %s: the result variable of min/max/if-then-else is declared integer although the expression takes a fractional value there" % (bad or "unexpected shape"))
    ib = [g for g in funcs if g.qn == "mp::FlatModel::is_binary_var"]
    for g in ib[:1]:
        rets = [r for r in g.walk() if r["k"] == "ReturnStmt"]
        ok = len(rets) == 1
        bad = None
        if ok:
            try:
                import itertools
                atoms = ["0==lb(v)", "1==ub(v)", "is_integer_var(v)", "is_fixed(v)", "0==fixed_value(v)", "1==fixed_value(v)"]
                for vals in itertools.product((False, True), repeat=6):
                    env = dict(zip(atoms, vals))
                    if env["0==fixed_value(v)"] and env["1==fixed_value(v)"]:
                        continue
                    got = truth(kids(rets[0])[0], env)
                    want = (env["0==lb(v)"] and env["1==ub(v)"] and env["is_integer_var(v)"]) or (env["is_fixed(v)"] and (env["0==fixed_value(v)"] or env["1==fixed_value(v)"]))
                    if got and not want:
                        bad = "is_binary_var is true for %s" % {k: v for k, v in env.items()}
            except KeyError as ke:
                ok = False
                bad = "unrecognised atom %s" % ke
        f2.check(ok and bad is None, "is_binary_var", short_loc(g.loc), "is_binary_var: integer variable with bounds [0,1], or fixed at 0 or 1", bad or "unexpected shape")

    # ---- R1: result range of x^a by cases -----------------------------------------------------------
    def resolve(tab, name, depth=0):
        t = tab.get(name)
        while t in tab and depth < 5:
            t, depth = tab[t], depth + 1
        return t
    r1 = rep.rule("C06.R1", "RANGE", "x^a: on every path the result bounds contain the range of the power over the argument domain (even exponent with a zero-crossing domain: [0, max]; otherwise the two end values)", floor=5)
    from ..conlit import Interp, Unsupported
    pw = [g for g in over if g.params and "PowConstraintId" in (g.params[0].get("ct") or "")]
    if len(pw) != 1:
        raise AnalysisBroken("C06.R1: PreprocessConstraint(PowConstraint&): %d instantiations" % len(pw))
    g = pw[0]
    try:
        em = Interp(g, {}).run()
    except Unsupported as u:
        raise AnalysisBroken("C06.R1: the power preprocessor left the analysable fragment: %s" % u)
    inits = {v["name"]: norm(render(kids(v)[0])).replace(" ", "") for v in g.walk() if v["k"] == "VarDecl" and kids(v)}
    okd = inits.get("lbx_neg") in ("m.lb(arg)<0", "m.lb(arg)<0.0") and inits.get("ubx_pos") in ("m.ub(arg)>0", "m.ub(arg)>0.0") and "is_integer_value(pwr)" in inits.get("pow_int", "") and \
        resolve(inits, "pwr") == "c.GetParameters()[0]" and resolve(inits, "arg") == "c.GetArguments()[0]"
    r1.check(okd, "case-atoms", short_loc(g.loc), "lbx_neg = lb(arg) < 0, ubx_pos = ub(arg) > 0, pow_int = is_integer_value(pwr)", str(inits))
    A = "pow(this.GetModel().lb(args[0]),params[0])"
    B = "pow(this.GetModel().ub(args[0]),params[0])"

    def evalb(t, a, b):
        t = t.replace(A, "(%r)" % a).replace(B, "(%r)" % b)
        if _re.search(r"[A-Za-z_]", t.replace("min", "").replace("max", "")):
            return None
        return eval(t, {"__builtins__": {}}, {"min": min, "max": max})
    npaths = 0
    for conds, each, dsc in em:
        if not (isinstance(dsc, tuple) and dsc[:2] == ("call", "narrow_result_bounds")):
            continue
        cd = dict((t, p) for t, p in conds)
        lo, hi = dsc[2], dsc[3]
        key = "path|" + ",".join("%s=%s" % (nm_, {True: "T", False: "F", None: "-"}[([p for t, p in conds if tag_ in t] or [None])[0]])
                                  for nm_, tag_ in (("int>=0", "pow_int&&pwr>=0"), ("even", "is_integer_value(pwr/2)"), ("crossing", "lbx_neg&&ubx_pos")))
        if cd.get("0==fabs(pwr)") is True:
            r1.check((lo, hi) == ("1", "1"), "zero-exponent", short_loc(g.loc), "x^0: result fixed to 1")
            continue
        npaths += 1
        skip = [p for t, p in conds if t.replace(" ", "") in ("!pow_int&&lbx_neg||pwr<0&&lbx_neg", "(!pow_int&&lbx_neg)||(pwr<0&&lbx_neg)")]
        if skip != [False]:
            r1.fail(key, short_loc(g.loc), "result bounds are narrowed on a path that does not exclude (fractional or negative exponent with a negative lower bound): %s" % conds)
            continue
        even = [p for t, p in conds if "is_integer_value(pwr/2)" in t]
        cross = cd.get("lbx_neg&&ubx_pos")
        bad = None
        if even == [True] and cross is True:
            # lb < 0 < ub, even exponent >= 2: A, B > 0, range [0, max(A, B)]
            for a, b in ((1.0, 4.0), (4.0, 1.0), (9.0, 9.0), (81.0, 16.0)):
                l, h = evalb(lo, a, b), evalb(hi, a, b)
                if l is None or h is None:
                    raise AnalysisBroken("C06.R1: unrecognised bound expression %s / %s" % (lo, hi))
                if l > 0.0 or h < max(a, b):
                    bad = "lb^a = %g, ub^a = %g: bounds [%g, %g] do not contain [0, %g]" % (a, b, l, h, max(a, b))
            want = "[0, max(lb^a, ub^a)]"
        else:
            for a, b in ((1.0, 4.0), (4.0, 1.0), (-8.0, 1.0), (-8.0, -1.0), (0.25, 0.04), (2.0, 2.0)):
                l, h = evalb(lo, a, b), evalb(hi, a, b)
                if l is None or h is None:
                    raise AnalysisBroken("C06.R1: unrecognised bound expression %s / %s" % (lo, hi))
                if l > min(a, b) or h < max(a, b):
                    bad = "lb^a = %g, ub^a = %g: bounds [%g, %g] do not contain both end values" % (a, b, l, h)
            want = "[min(lb^a, ub^a), max(lb^a, ub^a)]"
        r1.check(bad is None, key, short_loc(g.loc), "result bounds contain %s" % want,
                 "x^a with %s: %s - a value the expression takes is cut off from the result variable" % ("an even exponent and a domain crossing 0" if want.startswith("[0") else "a monotone case", bad))
    if npaths < 4:
        raise AnalysisBroken("C06.R1: only %d narrowing paths" % npaths)

    # ---- G1 ---------------------------------------------------------------------------
    g1 = rep.rule("C06.G1", "GUARD", "replacement of an expression by a variable or a constant only under the exactness guards", floor=10)
    helpers = {g.name: g for g in funcs if g.qn.startswith("mp::ConstraintPreprocessors::") and g.name in ("FixEqualityResult", "ReuseEqualityBinaryVar", "CheckEmptySubCon")}
    TABLE = {   # (type, kind, value) -> required guard atoms (all must be present)
        ("Pow", "const", (1.0, 1.0)): ["(0==fabs(c.GetParameters()[0]))"],
        ("Pow", "var", "arg"): ["(1==c.GetParameters()[0])"],
        ("Abs", "var", "argvar"): ["(lb(c.GetArguments()[0])>=0)"],
        ("Abs", "var", "neg"): ["(ub(c.GetArguments()[0])<=0)"],
        ("And", "const", (0.0, 0.0)): ["(count_fixed_01(con.GetArguments()).first)"],
        ("And", "const", (1.0, 1.0)): ["((int)con.GetArguments().size()==count_fixed_01(con.GetArguments()).second)"],
        ("Or", "const", (1.0, 1.0)): ["(count_fixed_01(con.GetArguments()).second)"],
        ("Or", "const", (0.0, 0.0)): ["((int)con.GetArguments().size()==count_fixed_01(con.GetArguments()).first)"],
    }
    found = set()
    for f in over:
        ty = ctype(f)
        for c in ncalls(f, "narrow_result_bounds"):
            a = call_args(c)
            lo, hi = fold(a[0]), fold(a[1])
            if lo is None or lo != hi or not isinstance(lo, float):
                continue
            g = guards(f, c)
            if not g:
                continue
            want = TABLE.get((ty, "const", (lo, hi)))
            key = "%s|const %s|%s" % (ty, lo, short_loc(c.get("l")).split(":")[-1])
            if want is None:
                g1.fail(key, short_loc(c.get("l")), "%s: the result is fixed to %s under %s - a replacement that is not in the table of exact cases" % (ty, lo, g))
                continue
            found.add((ty, "const", (lo, hi)))
            g1.check(all(w in g for w in want), key, short_loc(c.get("l")), "%s = %s only under %s" % (ty, lo, want),
                     "%s: the result is fixed to %s under %s; the exact case is %s" % (ty, lo, g, want))
        for c in ncalls(f, "set_result_var"):
            g = guards(f, c)
            arg = inline(f, call_args(c)[0])
            key = "%s|var|%s" % (ty, short_loc(c.get("l")).split(":")[-1])
            if ty == "Pow":
                want, val = TABLE[("Pow", "var", "arg")], "c.GetArguments()[0]"
                g1.check(all(w in g for w in want) and arg == val, key, short_loc(c.get("l")), "x^a is replaced by x only when a == 1",
                         "Pow: replaced by `%s` under %s" % (arg, g))
                found.add(("Pow", "var", "arg"))
            elif ty == "Abs":
                if arg == "c.GetArguments()[0]":
                    want = TABLE[("Abs", "var", "argvar")]
                    g1.check(all(w in g for w in want), key, short_loc(c.get("l")), "|x| is replaced by x only when lb(x) >= 0", "Abs: replaced by x under %s" % g)
                    found.add(("Abs", "var", "argvar"))
                else:
                    want = TABLE[("Abs", "var", "neg")]
                    neg = [x for x in f.walk() if x["k"] == "VarDecl" and x.get("name") == "res"]
                    a0_ = strip(call_args(c)[0])
                    hlp_ = getattr(F, "_by_id", {}).get(a0_.get("calleeId")) if a0_["k"] in ("CallExpr", "CXXMemberCallExpr") else None
                    if not neg and hlp_ is not None and hlp_.cfg is not None and len(call_args(a0_)) == 1 and \
                            inline(f, call_args(a0_)[0]) == "c.GetArguments()[0]" and hlp_.params:
                        # -x is built by a helper taking x: its result object and what it returns
                        rets_ = [r_ for r_ in hlp_.walk() if r_["k"] == "ReturnStmt" and kids(r_)]
                        neg = [x for x in hlp_.walk() if x["k"] == "VarDecl" and kids(x) and
                               any(y["k"] == "DeclRefExpr" and y.get("declId") == hlp_.params[0]["declId"] for y in walk(x))]
                        if len(rets_) == 1 and len(neg) == 1 and render(kids(rets_[0])[0]).replace(" ", "") == neg[0]["name"] + ".get_var()":
                            arg = "helper(" + neg[0]["name"] + ").get_var()"
                            for y in walk(neg[0]):
                                if y["k"] == "DeclRefExpr" and y.get("declId") == hlp_.params[0]["declId"]:
                                    y["name"] = "argvar"           # the parameter stands for the caller's argvar
                        else:
                            neg = []
                    def has_minus_one(n_):
                        for x in walk(n_):
                            if x.get("cv") in ("-1", "-1.0") or (x["k"] == "UnaryOperator" and x.get("op") == "-" and
                                                                 strip(kids(x)[0])["k"] == "FloatingLiteral" and float(strip(kids(x)[0])["v"]) == 1.0):
                                return True
                        return False
                    okn = bool(neg) and has_minus_one(neg[0]) and any(x.get("name") == "argvar" for x in walk(neg[0])) and arg.endswith("get_var()") \
                        and any(x.get("callee", "").endswith("LinTerms::LinTerms") or "LinearFunctionalConstraint" in (x.get("t") or "") for x in walk(neg[0]))
                    g1.check(all(w in g for w in want) and okn, key, short_loc(c.get("l")), "|x| is replaced by the new variable -x only when ub(x) <= 0",
                             "Abs: replaced by `%s` under %s" % (arg, g))
                    found.add(("Abs", "var", "neg"))
            elif ty == "Cond":
                # a non-normalised comparison is replaced by the result of the negated (equivalent) comparison
                okc = "AssignResultVar2Args" in arg and any("IsNormalized" in x and x.startswith("!") for x in g)
                g1.check(okc, key, short_loc(c.get("l")), "a non-normalised comparison is replaced by the result variable of its negated-terms form")
            else:
                g1.fail(key, short_loc(c.get("l")), "%s: expression replaced by variable `%s` under %s - not in the table of exact cases" % (ty, arg, g))
    for k_ in TABLE:
        if k_ not in found:
            raise AnalysisBroken("C06.G1: table case %s no longer occurs in the code: re-read and re-freeze" % (k_,))
    # helpers of the equality comparisons
    fe = [g for g in funcs if g.name == "FixEqualityResult"]
    for f in fe[:1]:
        cs = ncalls(f, "narrow_result_bounds")
        got = sorted((fold(call_args(c)[0]), tuple(guards(f, c))) for c in cs)
        want_atoms = {0.0: [["(ComputeBoundsAndType(c.GetConstraint().GetBody()).lb()>c.GetConstraint().rhs()||"], ["!is_integer(", "INTEGER=="]],
                      1.0: [["lb()==c.GetConstraint().rhs()", "ub()==c.GetConstraint().rhs()"]]}
        ok = len(cs) == 3
        rnd = [(render(call_args(c)[0]), [norm(render(f.nodes[cid])) for cid, pol in f.cfg.facts_at(c) if pol is True]) for c in cs]
        txt = " ".join(" ".join(x[1]) for x in rnd)
        ok = ok and "bndsNType.lb()>rhs||bndsNType.ub()<rhs" in txt and "bndsNType.lb()==rhs&&bndsNType.ub()==rhs" in txt and \
            "INTEGER==bndsNType.type_&&!is_integer(con.rhs())" in txt
        vals = sorted(fold(call_args(c)[0]) for c in cs)
        ok = ok and vals == [0.0, 0.0, 1.0]
        if not ok:
            # written differently: the decision is evaluated on (body lower bound, upper bound, rhs, body type) samples
            from ..cfg import MiniInt as _MI
            ints = [x for x in f.walk() if x["k"] == "DeclRefExpr" and x.get("name") == "INTEGER" and cv(x) is not None]
            okv = bool(ints)
            INTV = int(cv(ints[0])) if ints else 0
            for L_, U_, R_, T_ in ((0.0, 5.0, 7.0, 0), (0.0, 5.0, -1.0, 0), (3.0, 3.0, 3.0, 0), (3.0, 3.0, 3.0, 1), (0.0, 5.0, 2.5, 1), (0.0, 5.0, 2.5, 0), (0.0, 5.0, 2.0, 1),
                                   (2.0, 5.0, 2.0, 0), (0.0, 2.0, 2.0, 1)):
                rec_, box = [], {}

                def atom(t_, n_, env_):
                    if n_["k"] in ("CXXMemberCallExpr", "CallExpr"):
                        cn_ = (n_.get("callee") or "").split("::")[-1]
                        if cn_ == "narrow_result_bounds":
                            rec_.append(tuple(box["mi"].expr(a_, env_, 0) for a_ in call_args(n_)))
                            return 0
                        if cn_ == "rhs":
                            return R_
                        if cn_ == "lb" and not call_args(n_):
                            return L_
                        if cn_ == "ub" and not call_args(n_):
                            return U_
                        if cn_ in ("type", "get_result_type") and not call_args(n_):
                            return INTV if T_ else INTV + 1
                        if cn_ == "is_integer" and len(call_args(n_)) == 1:
                            return int(float(box["mi"].expr(call_args(n_)[0], env_, 0)).is_integer())
                    if n_["k"] == "MemberExpr" and n_.get("name") == "type_":
                        return INTV if T_ else INTV + 1
                    return None
                mi = _MI(F, atom)
                box["mi"] = mi
                try:
                    ret_ = mi.call(f, [("obj", None, None), ("obj", None, None)])
                except AnalysisBroken:
                    okv = False
                    break
                if L_ > R_ or U_ < R_:
                    want_ = ([(0.0, 0.0)], 1)
                elif L_ == R_ and U_ == R_:
                    want_ = ([(1.0, 1.0)], 1)
                elif T_ and not float(R_).is_integer():
                    want_ = ([(0.0, 0.0)], 1)
                else:
                    want_ = ([], 0)
                if (rec_, int(bool(ret_))) != want_:
                    okv = False
                    rnd = [("sample body in [%g, %g], rhs %g, %s body" % (L_, U_, R_, "integer" if T_ else "continuous"), ["narrowed to %s, returned %s" % (rec_, ret_)])]
                    break
            ok = okv
        g1.check(ok, "FixEqualityResult", short_loc(f.loc), "body == rhs is false if rhs is outside the body's range or fractional for an integer body, "
                 "true if the body is fixed at rhs", "cases: %s" % rnd)
    re_ = [g for g in funcs if g.name == "ReuseEqualityBinaryVar"]
    for f in re_[:1]:
        sv = ncalls(f, "set_result_var")
        nb = ncalls(f, "narrow_result_bounds")
        def gtxt(c):
            # branch facts in canonical form (inverted tests and early returns give the same facts), `rhs` named or not
            return " ".join(("" if pol else "!") + _re.sub(r"\(mp::[^)]*\)this->GetModel\(\)\.", "m.", t_).replace("c.GetConstraint().", "con.").replace("con.rhs()", "rhs").replace("con.GetBody()", "body")
                            for t_, pol in norm_facts(f, c, canon=True))
        ok = len(sv) == 2 and len(nb) == 1
        if ok:
            a0, a1 = sorted(sv, key=lambda c: c["i"])
            ok = "m.is_binary_var(var)" in gtxt(a0) and "1==rhs" in gtxt(a0) and render(call_args(a0)[0]) == "var" and \
                "0==fabs(rhs)" in gtxt(a1) and "MakeComplementVar" in render(call_args(a1)[0]) and \
                "1==body.size()" in gtxt(a0) and fold(call_args(nb[0])[0]) == 0.0 and "m.is_binary_var(var)" in gtxt(nb[0])
        g1.check(ok, "ReuseEqualityBinaryVar", short_loc(f.loc), "binary v == 1 is v, v == 0 is the complement, any other constant is false")
    cf = [g for g in funcs if g.name == "count_fixed_01"]
    for f in cf[:1]:
        incs = [(render(kids(n)[0]).replace(" ", ""), [norm(render(f.nodes[cid])) for cid, pol in f.cfg.facts_at(n) if pol is True])
                for n in f.walk() if n["k"] == "UnaryOperator" and n.get("op") == "++" and "result." in render(n)]
        ok = sorted(i[0] for i in incs) == ["result.first", "result.second"] and all(
            ("ub(x)<=0" in " ".join(g_) if i == "result.first" else "lb(x)>=1" in " ".join(g_)) for i, g_ in incs)
        g1.check(ok, "count_fixed_01", short_loc(f.loc), "first counts arguments fixed at 0 (ub <= 0), second those fixed at 1 (lb >= 1)", str(incs))

    # ---- W1 ---------------------------------------------------------------------------
    w1 = rep.rule("C06.W1", "WHO", "result bounds are only intersected", floor=3)
    nrb = [f for f in funcs if f.qn == "mp::PreprocessInfo::narrow_result_bounds"]
    if not nrb:
        raise AnalysisBroken("PreprocessInfo::narrow_result_bounds not found")
    f = nrb[0]
    asg = {render(kids(n)[0]): render(kids(n)[1]).replace(" ", "").replace("std::", "") for n in f.walk() if n["k"] == "BinaryOperator" and n.get("op") == "="}
    p0, p1 = f.params[0]["name"], f.params[1]["name"]
    w1.check(asg == {"lb_": "max(lb_,%s)" % p0, "ub_": "min(ub_,%s)" % p1}, "narrow-intersects", short_loc(f.loc),
             "narrow_result_bounds: lb_ = max(lb_, l), ub_ = min(ub_, u)", "narrow_result_bounds assigns %s" % asg)
    direct = []
    for g in funcs:
        if not g.qn.startswith("mp::ConstraintPreprocessors::"):
            continue
        pnames = {p["declId"] for p in g.params if "PreprocessInfo" in (p.get("t") or "")}
        for n in g.walk():
            if n["k"] == "MemberExpr" and n.get("name") in ("lb_", "ub_", "type_", "result_var_") and kids(n) and strip(kids(n)[0]).get("declId") in pnames:
                direct.append("%s:%s" % (g.name, short_loc(n.get("l"))))
    w1.check(not direct, "no-direct-field-access", "", "no preprocessor touches the result fields except through the PreprocessInfo interface", str(direct[:3]))
    ng = [f for f in funcs if f.qn == "mp::PreprocessInfo::NegateBounds"]
    users = [g.name for g in funcs if g.qn.startswith("mp::ConstraintPreprocessors::") and any(c.get("callee", "").endswith("::NegateBounds") for c in g.walk() if c["k"] == "CXXMemberCallExpr")]
    w1.check(not users, "no-negate-in-preprocessors", "", "NegateBounds is not used by the preprocessors")

    # ---- B1 ---------------------------------------------------------------------------
    b1 = rep.rule("C06.B1", "TABLE", "interval helpers pick the right corner per coefficient sign and fold with the right operation", floor=8)
    lin = [f for f in funcs if f.qn == "mp::BoundComputations::ComputeBoundsAndType" and f.params and "LinTerms" in (f.params[0].get("t") or "") and "Quad" not in (f.params[0].get("t") or "")]
    for f in lin[:1]:
        # shape, not text: the right-hand side is coefficient * (lb | ub of the variable); the guard is the sign test of the coefficient
        def corner(e):
            e = expand_locals(f, e, 0, True)
            names = [(c.get("callee") or "").split("::")[-1] for c in walk(e) if c["k"] == "CXXMemberCallExpr"]
            b = [x for x in names if x in ("lb", "ub")]
            top = strip(e)
            return ("c*model.%s(v)" % b[0]) if len(b) == 1 and "coef" in names and top["k"] == "BinaryOperator" and top.get("op") == "*" else norm(render(e))

        def sign_of(fa):
            for t, pol in fa:
                m_ = re.match(r"^.*coef\(.*\)(>=|<)0(\.0)?$", t)
                if m_:
                    return pol if m_.group(1) == ">=" else (not pol)
            return None
        adds = [(render(kids(n)[0]), corner(kids(n)[1]), norm_facts(f, n, loop_conditions=False, all_locals=True))
                for n in f.walk() if n["k"] == "CompoundAssignOperator" and n.get("op") == "+="]
        want = {("result.lb_", True): "c*model.lb(v)", ("result.ub_", True): "c*model.ub(v)", ("result.lb_", False): "c*model.ub(v)", ("result.ub_", False): "c*model.lb(v)"}
        got = {}
        for tgt, rhs, fa in adds:
            sg = sign_of(fa)
            if sg is not None:
                got[(tgt, sg)] = rhs
        b1.check(got == want, "linear-corners", short_loc(f.loc), "c >= 0: lb += c*lb(v), ub += c*ub(v); c < 0: lb += c*ub(v), ub += c*lb(v)", str(got))
        ty = [n for n in f.walk() if n["k"] == "IfStmt" and "CONTINUOUS" in render(kids(n)[1])]
        b1.check(len(ty) == 1 and "INTEGER!=model.var_type(v)||!is_integer(c)" in norm(render(kids(ty[0])[0])),
                 "linear-type", short_loc(f.loc), "the sum is integer only if every variable is integer and every coefficient integral")
    quad = [f for f in funcs if f.qn == "mp::BoundComputations::ComputeBoundsAndType" and f.params and "QuadTerms" in (f.params[0].get("t") or "") and "AndLin" not in (f.params[0].get("t") or "")]
    for f in quad[:1]:
        adds = [(render(kids(n)[0]), norm(render(kids(n)[1])), [(norm(render(f.nodes[cid])), pol) for cid, pol in f.cfg.facts_at(n)])
                for n in f.walk() if n["k"] == "CompoundAssignOperator" and n.get("op") == "+="]
        want = {("result.lb_", True): "coef*prodBnd.first", ("result.ub_", True): "coef*prodBnd.second", ("result.lb_", False): "coef*prodBnd.second",
                ("result.ub_", False): "coef*prodBnd.first"}
        got = {}
        for tgt, rhs, fa in adds:
            pos = [pol for t, pol in fa if t == "coef>=0"]
            if pos:
                got[(tgt, pos[0])] = rhs
        b1.check(got == want, "quadratic-corners", short_loc(f.loc), "coef >= 0: [lb, ub] += coef*[first, second]; coef < 0: swapped", str(got))
        ty = [n for n in f.walk() if n["k"] == "IfStmt" and "CONTINUOUS" in render(kids(n)[1])]
        badq = None
        if len(ty) == 1:
            import itertools

            class _QEnv(dict):
                """atoms of the type test by what they ask, whatever names the term's parts carry: which variable of the
                product (var1 / var2 of term i) is tested for integrality, or the coefficient"""
                def __init__(self, i1, i2, ic):
                    self.v = (i1, i2, ic)

                def _cls(self, t):
                    which = 0 if re.search(r"(var1\(i\)|\bv1\b)", t) else 1 if re.search(r"(var2\(i\)|\bv2\b)", t) else None
                    if "var_type(" in t and "INTEGER" in t and which is not None:
                        return (not self.v[which]) if "!=" in t else self.v[which]
                    if "is_integer_var(" in t and which is not None:
                        return self.v[which]
                    if re.match(r"^is_integer\((coef|qt\.coef\(i\))\)$", t):
                        return self.v[2]
                    raise KeyError(t)

                def __contains__(self, t):
                    try:
                        self._cls(t)
                        return True
                    except KeyError:
                        return False

                def __getitem__(self, t):
                    return self._cls(t)
            for i1, i2, ic in itertools.product((False, True), repeat=3):
                env = _QEnv(i1, i2, ic)
                try:
                    dem = truth(expand_locals(f, kids(ty[0])[0], 0, True), env)
                except KeyError as ke:
                    raise AnalysisBroken("C06.B1: unrecognised atom %s in the type test of the quadratic terms" % ke)
                if not (i1 and i2 and ic) and not dem:
                    badq = "a product with %s first variable, %s second variable and %s coefficient keeps the type INTEGER" % (
                        "an integer" if i1 else "a continuous", "an integer" if i2 else "a continuous", "an integral" if ic else "a fractional")
        b1.check(len(ty) == 1 and badq is None, "quadratic-type", short_loc(f.loc), "a sum of products is integer only if both variables of every product are integer and every coefficient is integral",
                 "type of quadratic terms: %s - the result variable of the expression is declared integer although the expression takes fractional values" % (badq or "unexpected shape"))
    pb = [f for f in funcs if f.qn == "mp::BoundComputations::ProductBounds"]
    for f in pb[:1]:
        il = [x for x in f.walk() if x["k"] == "InitListExpr" and len(kids(x)) == 4]
        corners = sorted(render(x).replace(" ", "") for x in kids(il[0])) if il else []
        b1.check(corners == ["lx*ly", "lx*uy", "ux*ly", "ux*uy"] and any(c.get("callee", "").endswith("min_element") for c in f.walk() if c["k"] == "CallExpr")
                 and any(c.get("callee", "").endswith("max_element") for c in f.walk() if c["k"] == "CallExpr"), "product-corners", short_loc(f.loc),
                 "x*y for x != y: min and max over the four corner products", str(corners))
        # the square case, in ProductBounds itself or in a helper it calls for x == y (arguments traced back to lb(x), ub(x))
        def square_form(g, amap):
            sq_ = [n for n in g.walk() if n["k"] == "ConditionalOperator"]
            if len(sq_) != 1:
                return False
            m_ = re.match(r"^([A-Za-z_]\w*)<=0&&([A-Za-z_]\w*)>=0$", norm(render(kids(sq_[0])[0])))
            if not m_:
                return False
            A, B = m_.group(1), m_.group(2)
            if cv(kids(sq_[0])[1]) != 0 or norm(render(kids(sq_[0])[2])) != "min(%s*%s,%s*%s)" % (A, A, B, B):
                return False
            mx_ = [c for c in g.walk() if c["k"] == "CallExpr" and c.get("callee", "").endswith("::max") and norm(render(c)).endswith("max(%s*%s,%s*%s)" % (A, A, B, B))]
            return len(mx_) == 1 and amap(A) == "lb" and amap(B) == "ub"

        def local_kind(name):
            vd = [v for v in f.walk() if v["k"] == "VarDecl" and v.get("name") == name and kids(v)]
            t_ = norm(render(kids(vd[0])[0])) if vd else ""
            return "lb" if t_.endswith(".lb(x)") else "ub" if t_.endswith(".ub(x)") else None
        oks = square_form(f, local_kind)
        mx = [1]
        if not oks:
            for c_ in f.walk():
                g_ = getattr(F, "_by_id", {}).get(c_.get("calleeId")) if c_["k"] in ("CallExpr", "CXXMemberCallExpr") else None
                if g_ is not None and g_ is not f and g_.cfg is not None and len(call_args(c_)) == len(g_.params):
                    amap_ = {p_["name"]: local_kind(norm(render(a_))) for p_, a_ in zip(g_.params, call_args(c_))}
                    same = any(t_ in ("x==y", "y==x") and pol for t_, pol in norm_facts(f, c_)) or any(t_ in ("x!=y", "y!=x") and not pol for t_, pol in norm_facts(f, c_))
                    if same and square_form(g_, lambda nm: amap_.get(nm)):
                        oks = True
        b1.check(oks and len(mx) == 1, "square-bounds", short_loc(f.loc), "x*x: lower bound 0 iff the domain contains 0, else min(lx^2, ux^2); upper max(lx^2, ux^2)")
    for nm, init, op, acc in (("lb_array", "Inf", "min", "lb"), ("lb_max_array", "MinusInf", "max", "lb"), ("ub_array", "MinusInf", "max", "ub"), ("ub_min_array", "Inf", "min", "ub")):
        fs = [f for f in funcs if f.qn == "mp::FlatModel::" + nm]
        if not fs:
            raise AnalysisBroken("FlatModel::%s not found" % nm)
        f = fs[0]
        v = [x for x in f.walk() if x["k"] == "VarDecl" and x.get("name") == "result"]
        a = [n for n in f.walk() if n["k"] == "BinaryOperator" and n.get("op") == "=" and render(kids(n)[0]) == "result"]
        ok = len(v) == 1 and render(kids(v[0])[0]).endswith(init + "()") and len(a) == 1 and \
            norm(render(kids(a[0])[1])) == "%s(result,%s(v))" % (op, acc)
        if not ok:
            # another spelling of the fold (an algorithm with a lambda, ...): evaluated on modelled variable lists
            from ..cfg import MiniInt as _MI
            LBS, UBS = {0: -3.0, 1: 2.0, 2: -7.5, 3: 4.0}, {0: 5.0, 1: 2.5, 2: -1.0, 3: 9.0}
            okv = True
            for lst in ([0, 1, 2, 3], [1], [2, 0], []):
                box = {}

                def atom(t_, n_, env_):
                    if n_["k"] in ("CXXMemberCallExpr", "CallExpr"):
                        cn_ = (n_.get("callee") or "").split("::")[-1]
                        if cn_ in ("Inf", "Infty"):
                            return 1e300
                        if cn_ in ("MinusInf", "MinusInfty"):
                            return -1e300
                        if cn_ in ("lb", "ub") and len(call_args(n_)) == 1:
                            return (LBS if cn_ == "lb" else UBS)[int(box["mi"].expr(call_args(n_)[0], env_, 0))]
                    return None
                mi = _MI(F, atom, seq=lambda t_, n_, env_, lst=lst: list(lst))
                box["mi"] = mi
                try:
                    got_ = mi.call(f, [("obj", None, None)])
                except AnalysisBroken:
                    okv = False
                    break
                tab = LBS if acc == "lb" else UBS
                want_ = (min if op == "min" else max)([tab[i_] for i_ in lst] + [1e300 if init == "Inf" else -1e300])
                clamp_ = lambda x_: float("inf") if x_ >= 1e300 else (float("-inf") if x_ <= -1e300 else x_)
                okv = okv and isinstance(got_, (int, float)) and clamp_(got_) == clamp_(want_)
            ok = okv
        b1.check(ok, "fold|%s" % nm, short_loc(f.loc), "%s folds %s over %s(v) starting from %s" % (nm, op, acc, init))
    # which helper feeds which bound of Min / Max
    for f in over:
        ty = ctype(f)
        if ty in ("Min", "Max"):
            c = ncalls(f, "narrow_result_bounds")
            got = [norm(render(x)).replace("m.", "") for x in call_args(c[0])] if len(c) == 1 else []
            want = {"Min": ["lb_array(args)", "ub_min_array(args)"], "Max": ["lb_max_array(args)", "ub_array(args)"]}[ty]
            b1.check(got == want, "%s-bounds" % ty, short_loc(f.loc), "%s: [%s, %s]" % (ty, want[0], want[1]), str(got))
        if ty == "IfThen":
            c = ncalls(f, "narrow_result_bounds")
            t = norm(render(c[0])) if c else ""
            b1.check("min(lb(args[1]),lb(args[2]))" in t and "max(ub(args[1]),ub(args[2]))" in t, "IfThen-bounds", short_loc(f.loc),
                     "if-then-else: [min of the branches' lower bounds, max of their upper bounds]", t[:120])
        if ty == "Abs":
            c = [x for x in ncalls(f, "narrow_result_bounds")]
            t = norm(render(c[0])) if c else ""
            b1.check(len(c) == 1 and cv(call_args(c[0])[0]) == 0 and "max(-lb,ub)" in t, "Abs-bounds", short_loc(f.loc), "|x| on a zero-crossing domain: [0, max(-lb, ub)]", t[:100])
    # ---- Q1: quotient bounds evaluated on sample boxes ----------------------------------------------------------------
    q1 = rep.rule("C06.Q1", "RANGE", "x / y with finite bounds and a denominator that does not change sign: the result bounds contain all four corner quotients "
                  "(evaluated on sample boxes of every sign pattern)", floor=1)
    from ..cfg import MiniInt as _MIq
    dv = [f for f in over if "DivConstraintId" in f.full or (f.params and "DivConstraint" in ((f.params[0].get("t") or "") + (f.params[0].get("ct") or "")))]
    if not dv:
        raise AnalysisBroken("C06.Q1: PreprocessConstraint(DivConstraint) not found")
    f = dv[0]
    badq = []
    BOXES = [((1.0, 4.0), (2.0, 4.0)), ((-4.0, -1.0), (2.0, 4.0)), ((1.0, 4.0), (-4.0, -2.0)), ((-4.0, -1.0), (-4.0, -2.0)), ((-3.0, 5.0), (0.5, 2.0)),
             ((-3.0, 5.0), (-2.0, -0.5)), ((0.0, 0.0), (1.0, 3.0)), ((2.0, 2.0), (-8.0, -0.25)), ((-6.0, -6.0), (3.0, 3.0))]
    for (l1_, u1_), (l2_, u2_) in BOXES:
        rec_, box = [], {}
        LB_, UB_ = {0: l1_, 1: l2_}, {0: u1_, 1: u2_}

        def atom(t_, n_, env_):
            k_ = n_["k"]
            if k_ in ("CXXMemberCallExpr", "CallExpr"):
                cn_ = (n_.get("callee") or "").split("::")[-1]
                if cn_ == "narrow_result_bounds":
                    rec_.append(tuple(box["mi"].expr(a_, env_, 0) for a_ in call_args(n_)))
                    return 0
                if cn_ in ("set_result_type", "set_result_var"):
                    return 0               # other effects of the preprocessor are judged by other rules (F1, G1)
                if cn_ in ("lb", "ub") and len(call_args(n_)) == 1:
                    return (LB_ if cn_ == "lb" else UB_)[int(box["mi"].expr(call_args(n_)[0], env_, 0))]
                if cn_ in ("PracticallyMinusInf", "MinusInfty"):
                    return -1e20
                if cn_ in ("PracticallyInf", "Infty"):
                    return 1e20
                if "numeric_limits" in (n_.get("callee") or "") and cn_ in ("max", "min", "lowest") and not call_args(n_):
                    return {"max": 1.7976931348623157e308, "min": 2.2250738585072014e-308, "lowest": -1.7976931348623157e308}[cn_]
            if k_ == "CXXOperatorCallExpr" and n_.get("op") == "[]" and render(call_args(n_)[0]).replace(" ", "").endswith("GetArguments()"):
                return int(box["mi"].expr(call_args(n_)[1], env_, 0))
            if k_ == "MemberExpr" and n_.get("name") in ("first", "second") and kids(n_) and strip(kids(n_)[0])["k"] == "DeclRefExpr":
                vd_ = [v for v in f.walk() if v["k"] == "VarDecl" and v.get("declId") == strip(kids(n_)[0]).get("declId") and kids(v)]
                mm_ = [c for v in vd_ for c in walk(kids(v)[0]) if c["k"] == "CallExpr" and (c.get("callee") or "").split("::")[-1] == "minmax"]
                il_ = [x for c in mm_ for x in walk(c) if x["k"] == "InitListExpr"]
                if il_:
                    vals_ = [box["mi"].expr(e_, env_, 0) for e_ in kids(il_[0])]
                    return min(vals_) if n_["name"] == "first" else max(vals_)
            return None
        mi = _MIq(F, atom)
        box["mi"] = mi
        try:
            mi.call(f, [("obj", None, None), ("obj", None, None)])
        except AnalysisBroken as e_:
            if "without a return" not in str(e_):
                raise AnalysisBroken("C06.Q1: PreprocessConstraint(Div): %s" % e_)
        corners = [l1_ / l2_, l1_ / u2_, u1_ / l2_, u1_ / u2_]
        for lo_, hi_ in rec_:
            if lo_ > min(corners) + 1e-12 or hi_ < max(corners) - 1e-12:
                badq.append("x in [%g, %g], y in [%g, %g]: result narrowed to [%g, %g], the quotient ranges over [%g, %g]" % (l1_, u1_, l2_, u2_, lo_, hi_, min(corners), max(corners)))
    q1.check(not badq, "div-corners", short_loc(f.loc), "9 sample boxes: the narrowed result range contains every corner quotient",
             "%s - a value the quotient takes is cut off from the result variable" % "; ".join(badq[:2]))

    # ---- D1: bounds pushed down from a result to its arguments ---------------------------------------------
    d1 = rep.rule("C06.D1", "TABLE", "bounds handed down from a result to an argument variable hold for every value the argument can take: "
                  "not: [1-ub, 1-lb]; and: [lb, 1]; or: [0, ub]; logical arguments [0, 1]; everything else unbounded", floor=12)
    Fd = Facts(export_many([dict(unit=U, fn=[r"mp::ConstraintPropagatorsDown::.*"], repo=repo)]))
    props = [f for f in Fd.funcs if not f.is_dependent() and f.cfg is not None and f.qn.startswith("mp::ConstraintPropagatorsDown::")]
    if len(props) < 20:
        raise AnalysisBroken("C06.D1: only %d down-propagators" % len(props))
    INF_LO, INF_HI = {"-inf"}, {"+inf"}
    LOGIC = ({"0", "-inf"}, {"1", "+inf"})
    KINDS = [(r"NotConstraintId", "not", ({"1-ub", "0", "-inf"}, {"1-lb", "1", "+inf"}),
              "not(a) in [lb, ub] means a in [1-ub, 1-lb]"),
             (r"AndConstraintId", "and", ({"lb", "0", "-inf"}, {"1", "+inf"}),
              "a conjunction >= lb forces every argument >= lb; a false conjunction (ub = 0) needs only ONE false argument, so ub is no bound of an argument"),
             (r"OrConstraintId", "or", ({"0", "-inf"}, {"ub", "1", "+inf"}),
              "a disjunction <= ub forces every argument <= ub; a true disjunction (lb = 1) needs only ONE true argument, so lb is no bound of an argument"),
             (r"ImplicationConstraintId", "implication", LOGIC, "condition and branches of an implication are logical values in [0, 1]"),
             (r"ComplementarityConstraint<", "complementarity", ({"lb", "-inf"}, {"ub", "+inf"}),
              "frozen: the 4-argument overload forwards its bounds; it is reached only from the root overload, which passes infinite bounds (checked)")]

    def normb(f, e):
        t = _re.sub(r"\s+", "", render(strip(e))).replace("this->", "")
        t = _re.sub(r"(static_cast<Impl\*>\(this\)->|static_cast<constImpl\*>\(this\)->)", "", t)
        if t.endswith("MinusInfty()"):
            return "-inf"
        if t.endswith("Infty()"):
            return "+inf"
        c_ = cv(e)
        if c_ is not None and float(c_) in (0.0, 1.0):
            return "%d" % int(float(c_))
        names = {p_.get("declId"): k_ for k_, p_ in zip(("con", "lb", "ub", "ctx"), f.params)} if len(f.params) == 4 else {}
        e0 = strip(e)
        if e0["k"] == "DeclRefExpr" and e0.get("declId") in names:
            return names[e0["declId"]]
        if e0["k"] == "BinaryOperator" and e0.get("op") == "-" and cv(kids(e0)[0]) is not None and float(cv(kids(e0)[0])) == 1.0:
            r_ = strip(kids(e0)[1])
            if r_["k"] == "DeclRefExpr" and r_.get("declId") in names:
                return "1-" + names[r_["declId"]]
        return t
    seen_d = set()
    for f in sorted(props, key=lambda g: g.full):
        name = f.qn.split("::")[-1]
        t0 = ((f.params[0].get("ct") or f.params[0].get("t") or "") if f.params else "").replace("const ", "").replace(" &", "")
        if name == "PropagateResult":
            kind, allowed, why = "other", (INF_LO, INF_HI), "nothing is known about how the arguments relate to the result's bounds"
            for pat, k_, al_, wy_ in KINDS:
                if _re.search(pat, t0):
                    kind, allowed, why = k_, al_, wy_
            m_ = _re.search(r"mp::([A-Za-z_0-9]+)ConstraintId", t0)
            label = (m_.group(1)) if m_ else _re.sub(r"mp::|std::", "", t0)[:60]
            if kind == "complementarity" and len(f.params) == 1:
                allowed = (INF_LO, INF_HI)
        elif name == "PropagateIfThenResultIntoCondition":
            kind, allowed, why, label = "ifthen-condition", LOGIC, "the condition of if-then-else is a logical value", name
        elif name in ("PropagateResult2LinTerms", "PropagateResult2QuadTerms"):
            kind, allowed, why, label = "terms", (INF_LO, INF_HI), "bounds of a sum say nothing about one term's variable", name
        elif name in ("PropagateResult2Vars", "PropagateResult2Args", "PropagateResult2QuadAndLinTerms"):
            continue                      # forwarders of the bounds they were given
        else:
            continue
        if (name, label) in seen_d:
            continue
        seen_d.add((name, label))
        ord_ = {}
        for c in f.walk():
            if c["k"] not in ("CXXMemberCallExpr", "CallExpr"):
                continue
            cn = (c.get("callee") or "").split("::")[-1]
            a = call_args(c)
            consumes = (cn == "PropagateResultOfInitExpr" and len(a) == 4) or cn == "PropagateResult2Vars" or \
                (cn == "PropagateResult2Args" and len(a) == 4 and not _re.search(r"LinTerms|QuadTerms", (strip(a[0]).get("ct") or strip(a[0]).get("t") or ""))) or \
                (cn == "PropagateResult" and len(a) == 4 and kind == "complementarity")
            if not consumes:
                continue
            lo, hi = normb(f, a[1]), normb(f, a[2])
            tgt = _re.sub(r"\s+", "", render(a[0]))[:30]
            ord_[(cn, tgt)] = ord_.get((cn, tgt), 0) + 1
            key = "down|%s|%s(%s)#%d" % (label, cn, tgt, ord_[(cn, tgt)])
            d1.check(lo in allowed[0] and hi in allowed[1], key, short_loc(c.get("l")),
                     "%s: argument bounds [%s, %s]" % (label, lo, hi),
                     "%s hands the bounds [%s, %s] down to `%s`; sound are lower %s / upper %s (%s): an argument's variable is narrowed to values it need not have, which cuts feasible points off" %
                     (label, lo, hi, tgt, sorted(allowed[0]), sorted(allowed[1]), why))
    # ---- K1: rounding of a fractional right-hand side in the preprocessor (the rule of C01.K2, which reads the same code) ---
    # A comparison of an integer-valued body with a fractional constant is replaced by one with a rounded constant; rounding the
    # wrong way makes the preprocessor fix the comparison's result (and bounds derived from it) at a value it does not have.
    from .C01 import rule_K2 as _k2
    _k2(rep, repo, rid="C06.K1")
    return rep
