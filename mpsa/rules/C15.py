"""C15 - an interrupt is never lost and never delivered with inconsistent state.

A signal handler runs to completion between two statements of the single
application thread, so the observable states are exactly the prefixes of the
store sequences of constructor, SetHandler and destructor - finite objects that
a typestate run over the CFG enumerates completely (DESIGN 4/C15).
"""
from ..cfg import xrender, reach_calls, Facts, kids, strip, walk, cv, render, short_loc, call_args
from ..facts import export_many, AnalysisBroken
from .. import units

LEVEL = "proof"
TECHNIQUE = ("static analysis: typestate (publication protocol) and dominance rules over "
             "the clang CFG of SignalHandler's constructor/SetHandler/destructor/handler, "
             "counter abstraction for the exit threshold, who-may-write and "
             "async-signal-safety call rules")
LEVEL_TEXT = ("The property quantifies over delivery points between statements of straight-line "
              "single-threaded code; the rules enumerate every store prefix on every CFG path, so "
              "each obligation is decided for all schedules of 1..3 signals.")
LEVEL_NOTE = ("Trusted: clang 14 front end/CFG, tool/mpx.cc, the rule module. Assumes signals are "
              "handled on the application thread (one thread stores, the handler interleaves "
              "only between statements) and lock-free std::atomic<T*> / sig_atomic_t accesses.")
DESIGN_REF = "DESIGN.md section 4, C15"
EXPLANATION = (
    "Decides the statement for the listed schedules: (W1) only constructor, destructor, "
    "SetHandler and HandleSigInt write the handler state, which is private; (P1) in every "
    "function storing handler_/data_ the publication order null-handler -> data -> handler "
    "holds on every path (typestate), so no callback is ever paired with another "
    "registration's data; (P2) the handler loads handler_ once into a local, tests it, "
    "loads data_ afterwards and calls through the local; (P3) the stop counter is "
    "incremented on every non-exiting path before the callback and the re-arming, _exit "
    "depends only on the counter threshold and the counter abstraction gives "
    "termination on exactly the third delivery, Stop() reads stop_ != 0; (P4) every "
    "store the handler reads precedes the first signal() installation in the "
    "constructor; (P5) the destructor null-stores handler_ and zero-stores the message "
    "size on every path; (W2) the handler's callees are async-signal-safe; (T1) types "
    "and member order (backend outlives the SignalHandler).")
ASSUMPTIONS = [
    "signals are delivered to the application thread; the handler runs to completion "
    "between two statements (POSIX single-threaded delivery model)",
    "std::atomic of pointer / unsigned and sig_atomic_t accesses are indivisible",
]
TRUSTED = ["clang 14 front end + CFG builder", "tool/mpx.cc exporter", "mpsa/cfg.py", "mpsa/rules/C15.py"]

SH = "mp::internal::SignalHandler"
STATE = ("handler_", "data_", "stop_", "signal_message_ptr_", "signal_message_size_")
WRITERS = {"SignalHandler", "~SignalHandler", "SetHandler", "HandleSigInt"}
SAFE = {"write", "_write", "_exit", "signal", "std::signal"}


def ref_name(n):
    n = strip(n)
    if n is not None and n["k"] in ("DeclRefExpr", "MemberExpr") and \
            n.get("qn", "").startswith(SH + "::"):
        return n.get("name")
    return None


_FACTS = [None]


def is_null(n, depth=0):
    n = strip(n)
    if n is None:
        return False
    if n["k"] in ("CXXNullPtrLiteralExpr", "GNUNullExpr"):
        return True
    if n["k"] == "DeclRefExpr" and cv(n) is None and depth < 3 and _FACTS[0] is not None and "const" in (n.get("ct") or n.get("t") or ""):
        # a named constant: `const InterruptHandler NO_HANDLER = 0;`
        v = _FACTS[0].vars.get(n.get("qn"))
        if v and v.get("init") and "const" in (v.get("t") or v.get("ct") or "const"):
            return is_null(v["init"][0], depth + 1)
    return cv(n) == 0


def accesses(f):
    """List of (node, var, kind, rhs) for every access of a state variable;
    kind in store/inc/load."""
    out = []
    claimed = set()
    for n in f.walk():
        k = n["k"]
        if k == "CXXOperatorCallExpr" and n.get("op") == "=":
            a = call_args(n)
            v = ref_name(a[0]) if a else None
            if v in STATE:
                out.append((n, v, "store", a[1]))
                claimed.add(strip(a[0])["i"])
        elif k == "BinaryOperator" and n.get("op") == "=":
            v = ref_name(kids(n)[0])
            if v in STATE:
                out.append((n, v, "store", kids(n)[1]))
                claimed.add(strip(kids(n)[0])["i"])
        elif k == "CompoundAssignOperator":
            v = ref_name(kids(n)[0])
            if v in STATE:
                out.append((n, v, "inc", kids(n)[1]))
                claimed.add(strip(kids(n)[0])["i"])
        elif k == "UnaryOperator" and n.get("op") in ("++", "--"):
            v = ref_name(kids(n)[0])
            if v in STATE:
                out.append((n, v, "inc" if n["op"] == "++" else "dec", None))
                claimed.add(strip(kids(n)[0])["i"])
        elif k == "CXXMemberCallExpr" and n.get("callee", "").split("::")[-1] in (
                "store", "exchange", "fetch_add", "fetch_sub", "compare_exchange_strong",
                "compare_exchange_weak"):
            me = strip(kids(n)[0])
            v = ref_name(kids(me)[0]) if kids(me) else None
            if v in STATE:
                a = call_args(n)
                out.append((n, v, "store", a[0] if a else None))
                claimed.add(strip(kids(me)[0])["i"])
    for n in f.walk():
        if n["k"] in ("DeclRefExpr", "MemberExpr") and n.get("qn", "").startswith(SH + "::") \
                and n.get("name") in STATE and n["i"] not in claimed:
            out.append((n, n["name"], "load", None))
    return out


def run(rep, ctx):
    repo = ctx["repo"]
    jobs = [dict(unit="src/solver.cc", fn=[SH + "::.*"], repo=repo, closure=2,
                 var=[SH + "::.*", r"mp::(internal::)?(\(anon\)::)?[A-Za-z_0-9]+"], rec=[SH]),
            dict(unit="solvers/visitor/main.cc", fn=[r"mp::BackendApp::.*", SH + "::.*"],
                 rec=[r"mp::BackendApp", SH], repo=repo),
            dict(unit="solvers/visitor/visitorbackend.cc",
                 fn=[r"mp::StdBackend::(SetupInterrupter|SetupTimerAndInterrupter|RunFromNLFile|InputStdExtras|InputExtras|ReadNL|Solve|SolveAndReport|SolveAndReportIntermediateResults)",
                     r"mp::VisitorBackend::SetInterrupter"], repo=repo)]
    if ctx["tier"] == "thorough":
        for u, k in units.UNITS.items():
            if k in ("mp", "test", "visitor") and u not in [j["unit"] for j in jobs]:
                jobs.append(dict(unit=u, fn=[SH + "::.*"], repo=repo))
    res = export_many(jobs)
    F = Facts(res)
    _FACTS[0] = F
    rep.note_units([j["unit"] for j in jobs])
    fs = {f.name: f for f in F.funcs if f.qn.startswith(SH + "::") and f.cfg}
    rep.note_funcs(F.funcs)
    for need in ("SignalHandler", "~SignalHandler", "SetHandler", "HandleSigInt", "Stop"):
        if need not in fs:
            raise AnalysisBroken("anchor %s::%s not found" % (SH, need))
    acc = {name: accesses(f) for name, f in fs.items()}

    # ---- W1 who writes -----------------------------------------------------
    w1 = rep.rule("C15.W1", "WHO",
                  "handler state is private static and written only by ctor, dtor, "
                  "SetHandler, HandleSigInt", floor=5)
    rec = F.records.get(SH)
    for v in STATE:
        writers = sorted(name for name, a in acc.items()
                         if any(x[1] == v and x[2] != "load" for x in a))
        w1.check(set(writers) <= WRITERS and writers, "writers|%s" % v, "src/solver.cc",
                 "%s written by %s" % (v, writers))
    if rec is not None:
        priv = {s["name"]: s.get("access") for s in rec.get("statics", [])}
        for v in STATE:
            if v in priv and priv[v] is not None:
                w1.check(priv[v] in ("private", 2), "private|%s" % v,
                         short_loc(rec.get("l")), "%s access %s" % (v, priv[v]))

    # ---- P1 publication typestate -----------------------------------------------
    p1 = rep.rule("C15.P1", "TYPESTATE",
                  "stores of handler_/data_: handler_:=null, data_:=x, handler_:=h on every "
                  "path (no callback is ever paired with another registration's data)", floor=2)
    for name, f in fs.items():
        a = [x for x in acc[name] if x[1] in ("handler_", "data_") and x[2] == "store"]
        if not a or name == "HandleSigInt":
            continue
        stores = {x[0]["i"]: x for x in a}
        masked = signal_masked(f, a)
        viol = []

        def tr(n, s):
            x = stores.get(n["i"])
            if x is None:
                return [s]
            _, v, _, rhs = x
            if v == "handler_":
                if is_null(rhs):
                    return ["S1"]
                if s == "S2":
                    return ["S0"]
                viol.append((n, "handler_ := %s while %s" % (
                    render(rhs), "a callback may still be registered with other data (S0)"
                    if s == "S0" else "data_ is stale (S1)")))
                return ["S0"]
            if v == "data_":
                if s == "S0":
                    viol.append((n, "data_ := %s while a callback may be registered (S0): a "
                                 "signal now pairs the registered callback with this data"
                                 % render(rhs)))
                    return ["S0"]
                return ["S2"]
            return [s]
        f.cfg.run_typestate(["S0"], tr)
        for n, v, _, rhs in a:
            bad = [m for (vn, m) in viol if vn["i"] == n["i"]]
            ok = not bad or masked
            p1.check(ok, "%s|%s:=%s" % (f.qn, v, "null" if is_null(rhs) else "value"),
                     short_loc(n.get("l")),
                     "%s: %s := %s respects the publication order%s" % (
                         name, v, render(rhs), " (signals masked)" if masked else ""),
                     "%s: %s" % (name, "; ".join(sorted(set(bad)))))

    # ---- P2 reader side ---------------------------------------------------------
    p2 = rep.rule("C15.P2", "PATH",
                  "HandleSigInt loads handler_ once into a local, tests it non-null, loads "
                  "data_ after it and calls through the local", floor=4)
    h = fs["HandleSigInt"]
    ha = acc["HandleSigInt"]
    hl = [x for x in ha if x[1] == "handler_"]
    dl = [x for x in ha if x[1] == "data_"]
    p2.check(len(hl) == 1 and hl[0][2] == "load", "single-load-of-handler_", short_loc(h.loc),
             "%d access(es) of handler_ in the handler" % len(hl))
    ind = [n for n in h.walk() if n["k"] == "CallExpr" and n.get("indirect")]
    p2.check(len(ind) == 1, "one-indirect-call", short_loc(h.loc),
             "%d indirect call(s) in the handler" % len(ind))
    if len(hl) == 1 and len(ind) == 1:
        call = ind[0]
        cal = strip(kids(call)[0])
        local = cal.get("declId") if cal["k"] == "DeclRefExpr" and cal.get("dk") == "Var" else None
        vd = [n for n in h.walk() if n["k"] == "VarDecl" and n.get("declId") == local]
        from_load = bool(vd) and any(x["i"] == hl[0][0]["i"] for x in walk(vd[0]))
        p2.check(local is not None and from_load, "call-through-local", short_loc(call.get("l")),
                 "callback invoked through local `%s` initialised from the single load"
                 % (cal.get("name")))
        tested = False
        for (cid, pol) in h.cfg.facts_at(call):
            c = strip(h.nodes[cid])
            if pol is True and c["k"] == "DeclRefExpr" and c.get("declId") == local:
                tested = True
        p2.check(tested, "null-test", short_loc(call.get("l")),
                 "indirect call is control-dependent on the local being non-null")
        other = []
        exit_guards = set()
        for n_ in h.walk():
            if n_["k"] == "CallExpr" and n_.get("callee") in ("_exit", "_Exit"):
                for (cid, pol) in h.cfg.facts_at(n_):
                    exit_guards.add((cid, not pol))
        for (cid, pol) in h.cfg.facts_at(call):
            if (cid, pol) in exit_guards:
                continue          # the complement of the condition under which the process terminates
            c = strip(h.nodes[cid])
            if c["k"] == "DeclRefExpr" and c.get("declId") == local:
                continue
            if c["k"] == "VarDecl" or any(x["k"] == "VarDecl" and x.get("declId") == local for x in walk(h.nodes[cid])):
                continue
            other.append(render(h.nodes[cid]))
        exits_ = [n["i"] for n in h.walk() if n["k"] == "CallExpr" and n.get("callee") in ("_exit", "_Exit")]
        skip = h.cfg.path_avoiding(None, "exit", [hl[0][0]["i"]] + exits_, from_entry=True)
        p2.check(not other and skip is None, "callback-on-every-delivery", short_loc(call.get("l")),
                 "every delivery that does not terminate the process loads handler_ and calls it if it is set (no other condition)",
                 "the callback is %s: a signal delivered when that does not hold is counted but the callback registered at that moment is not invoked" %
                 ("invoked only under `%s`" % "`, `".join(other) if other else "skipped on some surviving path"))
        okd = len(dl) == 1 and dl[0][2] == "load" and h.cfg.dominates(hl[0][0], dl[0][0]) \
            and any(x["i"] == dl[0][0]["i"] for a in call_args(call) for x in walk(a))
        p2.check(okd, "data-after-handler", short_loc(call.get("l")),
                 "data_ loaded once, after handler_, as the callback argument")

    # ---- P3 counter -------------------------------------------------------------
    p3 = rep.rule("C15.P3", "RANGE",
                  "++stop_ precedes callback and re-arming on every path; _exit depends only "
                  "on the threshold; third delivery terminates; Stop() is stop_ != 0", floor=5)
    incs = [x for x in ha if x[1] == "stop_" and x[2] == "inc"]
    sigs = [n for n in h.walk() if n["k"] == "CallExpr" and n.get("callee") in ("signal", "std::signal")]
    exits = [n for n in h.walk() if n["k"] == "CallExpr" and n.get("callee") in ("_exit", "_Exit")]
    p3.check(len(incs) == 1 and incs[0][0]["k"] == "UnaryOperator", "single-increment",
             short_loc(h.loc), "%d increment(s) of stop_ by 1" % len(incs))
    if len(incs) == 1:
        inc = incs[0][0]
        for n in ind:
            p3.check(h.cfg.dominates(inc, n), "inc-before-callback", short_loc(n.get("l")),
                     "++stop_ dominates the callback call")
        for n in sigs:
            p3.check(h.cfg.dominates(inc, n), "inc-before-rearm", short_loc(n.get("l")),
                     "++stop_ dominates std::signal re-arming")
        own_sig = h.params[0]["declId"] if h.params else None
        p3.check(len(sigs) >= 1 and all(strip(call_args(s)[0]).get("declId") == own_sig and
                                        render(call_args(s)[1]).split("::")[-1] == "HandleSigInt" for s in sigs),
                 "rearm-same-signal", short_loc(h.loc), "handler re-arms signal(sig, HandleSigInt)")
        # every path that does not _exit executes the increment
        w = h.cfg.path_avoiding(None, "exit", [inc["i"]] + [e["i"] for e in exits], from_entry=True)
        p3.check(w is None, "inc-on-every-surviving-path", short_loc(inc.get("l")),
                 "no path from entry to return avoids ++stop_", "path avoiding ++stop_: %s" % w)
        # threshold
        c0 = None
        for x in acc["SignalHandler"]:
            if x[1] == "stop_" and x[2] == "store":
                c0 = cv(x[3])
        K = None
        test_before = None
        if len(exits) == 1:
            fs_ = [(cid, pol) for (cid, pol) in h.cfg.facts_at(exits[0])]
            conds = []
            for cid, pol in fs_:
                c = strip(h.nodes[cid])
                if c["k"] == "BinaryOperator" and ref_name(kids(c)[0]) == "stop_" and pol is True:
                    kk = cv(kids(c)[1])
                    if c["op"] == ">" and kk is not None:
                        K = kk
                    elif c["op"] == ">=" and kk is not None:
                        K = kk - 1
                    test_before = h.cfg.dominates(c, inc) and not h.cfg.dominates(inc, c)
                conds.append(render(c))
            p3.check(K is not None and len(fs_) == 1, "exit-guard", short_loc(exits[0].get("l")),
                     "_exit is control-dependent exactly on %s" % conds)
        else:
            p3.fail("exit-guard", short_loc(h.loc), "%d _exit calls in the handler" % len(exits))
        if K is not None and c0 is not None:
            n_exit = K - c0 + 2 if test_before else K - c0 + 1
            p3.check(n_exit == 3 and c0 == 0, "third-delivery-exits", short_loc(h.loc),
                     "constructor stores stop_=%d, threshold stop_>%d tested %s the increment: "
                     "delivery number %d terminates the process" % (
                         c0, K, "before" if test_before else "after", n_exit))
        else:
            p3.fail("third-delivery-exits", short_loc(h.loc), "threshold K=%s, initial c0=%s" % (K, c0))
    st = fs["Stop"]
    rets = st.find(lambda n: n["k"] == "ReturnStmt")
    ok = len(rets) == 1
    if ok:
        e = strip(kids(rets[0])[0])
        if e["k"] in ("CallExpr", "CXXMemberCallExpr") and not call_args(e):
            # a named predicate without arguments (InterruptPending()): its one-line body is what Stop() returns
            from ..cfg import _pure_predicate
            g_ = getattr(F, "_by_id", {}).get(e.get("calleeId"))
            b_ = _pure_predicate(g_) if g_ is not None else None
            if b_ is not None:
                e = strip(b_)
        ok = e["k"] == "BinaryOperator" and e["op"] == "!=" and ref_name(kids(e)[0]) == "stop_" \
            and cv(kids(e)[1]) == 0
    p3.check(ok, "Stop-reads-counter", short_loc(st.loc), "Stop() returns stop_ != 0")

    # ---- P4 installation order -------------------------------------------------------
    p4 = rep.rule("C15.P4", "PATH",
                  "in the constructor every store read by the handler and set_interrupter(this) "
                  "precede the first std::signal installation", floor=4)
    c = fs["SignalHandler"]
    # installations made by the constructor itself or by a helper it calls (arguments resolved into the constructor's terms)
    reached = list(reach_calls(F, c, lambda n: n["k"] == "CallExpr" and n.get("callee") in ("signal", "std::signal")))
    inst = []
    for anchor, call, res, _own in reached:
        if anchor not in inst:
            inst.append(anchor)
    if not inst:
        raise AnalysisBroken("no std::signal call in the SignalHandler constructor")
    signos = set()
    for anchor, call, res, _own in reached:
        a = call_args(call)
        hd = render(res(a[1]))
        sg = cv(res(a[0]))
        signos.add(sg)
        p4.check(hd.split("::")[-1] == "HandleSigInt" and sg in (2, 15),
                 "installs|%s" % render(a[0]), short_loc(call.get("l")),
                 "signal(%s, %s)" % (render(a[0]), hd))
    p4.check(signos >= {2, 15}, "installs-SIGINT-and-SIGTERM",
             short_loc(c.loc), "both SIGINT(2) and SIGTERM(15) are installed")
    pre = [(x[0], "%s = %s" % (x[1], render(x[3]))) for x in acc["SignalHandler"] if x[2] == "store"]
    for n in c.calls(name="set_interrupter"):
        pre.append((n, "set_interrupter(%s)" % render(call_args(n)[0])))
    have = {x[1] for x in acc["SignalHandler"] if x[2] == "store"}
    for v in ("stop_", "signal_message_ptr_", "signal_message_size_"):
        if v not in have:
            p4.fail("store-missing|%s" % v, short_loc(c.loc), "constructor does not initialise %s" % v)
    for n, txt in pre:
        late = [s for s in inst if c.cfg.before(s, n)]
        p4.check(not late, "before-install|%s" % txt.split(" ")[0].split("(")[0], short_loc(n.get("l")),
                 "`%s` precedes every std::signal call" % txt,
                 "`%s` can execute after signal() at %s: a signal handled in between is lost / "
                 "sees uninitialised state" % (txt, ", ".join(short_loc(s.get("l")) for s in late)))

    # ---- P5 teardown --------------------------------------------------------------
    p5 = rep.rule("C15.P5", "PATH",
                  "destructor: handler_ null-stored, signal_message_size_ zero-stored and stop_ "
                  "set non-zero on every path", floor=3)
    d = fs["~SignalHandler"]
    da = acc["~SignalHandler"]
    for v, want in (("handler_", "null"), ("signal_message_size_", "zero"), ("stop_", "nonzero")):
        st_ = [x for x in da if x[1] == v and x[2] == "store"]
        good = [x for x in st_ if (is_null(x[3]) if want != "nonzero" else (cv(x[3]) not in (None, 0)))]
        ok = bool(good) and d.cfg.path_avoiding(None, "exit", [x[0]["i"] for x in good],
                                                from_entry=True) is None
        # the last store on every path must be a good one
        badlast = [x for x in st_ if x not in good and
                   d.cfg.path_avoiding(d.cfg.position(x[0]), "exit", [g[0]["i"] for g in good]) is not None]
        p5.check(ok and not badlast, "dtor|%s" % v, short_loc(d.loc),
                 "%s is stored %s on every path of the destructor" % (v, want))

    # ---- W2 async-signal-safety --------------------------------------------------------
    w2 = rep.rule("C15.W2", "WHO",
                  "callees of HandleSigInt are async-signal-safe: write, _exit, signal, atomic "
                  "loads, the one indirect callback", floor=3)
    for n in h.walk():
        if n["k"] in ("CallExpr", "CXXMemberCallExpr", "CXXOperatorCallExpr", "CXXConstructExpr"):
            if n.get("indirect"):
                continue
            cal = n.get("callee", "?")
            ok = cal in SAFE or cal.startswith("std::atomic::") or cal.startswith("std::__atomic_base::")
            w2.check(ok, "callee|%s" % cal, short_loc(n.get("l")),
                     "handler calls %s" % cal, "handler calls %s, which is not async-signal-safe" % cal)
        if n["k"] in ("CXXNewExpr", "CXXDeleteExpr", "CXXThrowExpr"):
            w2.fail("construct|%s" % n["k"], short_loc(n.get("l")), "%s in a signal handler" % n["k"])

    # ---- T1 types, member order, registration path -----------------------------------------
    t1 = rep.rule("C15.T1", "TABLE",
                  "stop_ is volatile sig_atomic_t, handler_/data_ are atomics; BackendApp "
                  "destroys the SignalHandler before the backend; registration goes through "
                  "SetupInterrupter -> interrupter()", floor=5)
    vs = F.vars
    def vt(n):
        v = vs.get(SH + "::" + n)
        return (v or {}).get("t", "")
    t1.check("volatile" in vt("stop_") and "sig_atomic_t" in vt("stop_"), "type|stop_",
             "src/solver.cc", "stop_ : %s" % vt("stop_"))
    for n in ("handler_", "data_", "signal_message_ptr_", "signal_message_size_"):
        t1.check("atomic<" in vt(n), "type|%s" % n, "src/solver.cc", "%s : %s" % (n, vt(n)))
    ba = F.records.get("mp::BackendApp")
    if ba is None:
        raise AnalysisBroken("record mp::BackendApp not found")
    idx = {f_["name"]: f_["index"] for f_ in ba["fields"]}
    types = {f_["name"]: f_["t"] for f_ in ba["fields"]}
    be = [n for n, t in types.items() if "BasicBackend" in t]
    sg = [n for n, t in types.items() if "SignalHandler" in t]
    t1.check(len(be) == 1 and len(sg) == 1 and idx[be[0]] < idx[sg[0]], "member-order",
             short_loc(ba.get("l")),
             "backend member %s declared before signal-handler member %s (destroyed after it)" % (be, sg))
    su = [f for f in F.by_qn("mp::StdBackend::SetupInterrupter") if f.cfg]
    if not su:
        raise AnalysisBroken("StdBackend::SetupInterrupter instantiation not found")
    calls = su[0].calls(name="SetInterrupter")
    ok = len(calls) == 1 and xrender(su[0], call_args(calls[0])[0], True).replace("this->", "").startswith("interrupter()")
    t1.check(ok, "registration-uses-installed-interrupter", short_loc(su[0].loc),
             "SetupInterrupter calls SetInterrupter(interrupter())")
    return rep


def signal_masked(f, stores):
    """Accepted alternative idiom: all stores bracketed by sigprocmask /
    pthread_sigmask block ... restore on all paths."""
    masks = [n for n in f.walk() if n["k"] == "CallExpr" and
             n.get("callee") in ("sigprocmask", "pthread_sigmask")]
    if len(masks) < 2:
        return False
    first, last = stores[0][0], stores[-1][0]
    return any(f.cfg.dominates(m, first) for m in masks) and \
        any(f.cfg.postdominates(m, last) for m in masks)
