"""C12 - the solver receives exactly the objective(s) the user selected.

G1 keep/skip pairing at both delivery sites (O and G segments);
R1 consistency of resulting_nobj / NeedObj / resulting_obj_index by complete
   case enumeration over the order types of (objno, #objectives, index), after
   checking that the three helpers depend on their inputs only through the
   atoms that define those order types;
P1 the out-of-range objno is rejected before the builder sizes the objectives,
   options are parsed before objno is read;
F1 option plumbing; F2 the objno echoed in the .sol file; P2 file order.
"""
import itertools, re
from ..cfg import eval_cases, norm_fact_nodes, reach_calls, expand_locals, norm_facts, xrender, Facts, kids, strip, walk, cv, render, short_loc, call_args, TRANSPARENT, MiniInt
from ..facts import export_many, AnalysisBroken
from .. import units

LEVEL = "other"
TECHNIQUE = ("static analysis: guard/flow rules over the CFG of the two objective delivery sites, "
             "exhaustive case enumeration over order types for the three selection helpers "
             "(justified by an atom-form check), path-order and forwarding rules")
LEVEL_TEXT = ("The selection logic is three one-line helpers plus two delivery sites; their agreement "
              "is decided for all (objno, number of objectives, index, multiobj) by enumerating every "
              "order type after verifying that the helpers read their inputs only through the "
              "comparisons that define the order type. What each kept objective contains is C01/C02."
              "  Also decided (added after the seeded rounds): the constant of the selected objective's expression is delivered whatever its sign.")
LEVEL_NOTE = ("Trusted: clang 14 front end/CFG, tool/mpx.cc, the rule module (incl. the small "
              "expression evaluator used for the case enumeration).")
DESIGN_REF = "DESIGN.md section 4, C12"
EXPLANATION = (
    "Decides: (G1) objective data (OnObj, OnLinearObjExpr) is delivered only under NeedObj(index) of "
    "the same index and with resulting_obj_index(index) of that index, the skipped branch still "
    "consuming the segment; (R1) for every multiobj setting, objno k, objective count n and index "
    "i (all order types enumerated) the number of kept indices equals resulting_nobj(n) and kept "
    "indices map bijectively onto [0, resulting_nobj) whenever the header check of P1 passed; (P1) "
    "SolverNLHandlerImpl::OnHeader parses options, then throws InvalidOptionValue(\"objno\") for "
    "objno > num_objs when specified, before Base::OnHeader; (F1) objno()/multiobj() forward the "
    "solver's values, multiobj is off whenever objno was given, SetObjNo/GetObjNo agree; (F2) the "
    "objno line of the .sol file prints objno()-1 of the value objno_used() forwarded unmodified; "
    "(P2) objectives are converted in increasing index order.")
ASSUMPTIONS = ["handlers other than NLProblemBuilder/SolverNLHandlerImpl are outside the statement"]
TRUSTED = ["clang 14 front end + CFG builder", "tool/mpx.cc", "mpsa/rules/C12.py"]

NPB = "mp::internal::NLProblemBuilder"


class Ev:
    """Concrete evaluator of the three helper bodies (ints/bools only)."""

    def __init__(self, F, env_calls):
        self.F, self.calls = F, env_calls

    def expr(self, n, env):
        n = strip(n)
        k = n["k"]
        if "cv" in n and k != "DeclRefExpr":
            return int(n["cv"])
        if k == "CXXBoolLiteralExpr":
            return 1 if n.get("v") == "1" else 0
        if k == "DeclRefExpr":
            return env[n["declId"]]
        if k in ("CStyleCastExpr", "CXXStaticCastExpr", "CXXFunctionalCastExpr") and kids(n):
            return self.expr(kids(n)[0], env)
        if k == "CXXMemberCallExpr" and not call_args(n):
            name = n.get("callee", "").split("::")[-1]
            if name in self.calls:
                return self.calls[name]
        if k in ("CXXMemberCallExpr", "CallExpr") and call_args(n) and n.get("calleeId") and getattr(self, "depth", 0) < 3:
            g_ = getattr(self.F, "_by_id", {}).get(n["calleeId"]) or getattr(self.F, "by_id", {}).get(n["calleeId"])
            if g_ is not None and g_.body is not None and len(g_.params) == len(call_args(n)):
                self.depth = getattr(self, "depth", 0) + 1
                try:
                    return self.run(g_, [self.expr(x, env) for x in call_args(n)])
                finally:
                    self.depth -= 1
        if k == "CallExpr" and n.get("callee", "").endswith("::min"):
            a = [self.expr(x, env) for x in call_args(n)]
            return min(a)
        if k == "CallExpr" and n.get("callee", "").endswith("::max"):
            return max(self.expr(x, env) for x in call_args(n))
        if k == "BinaryOperator":
            a, b = kids(n)
            op = n["op"]
            if op == "&&":
                return 1 if (self.expr(a, env) and self.expr(b, env)) else 0
            if op == "||":
                return 1 if (self.expr(a, env) or self.expr(b, env)) else 0
            x, y = self.expr(a, env), self.expr(b, env)
            return {"+": x + y, "-": x - y, "==": int(x == y), "!=": int(x != y), "<": int(x < y),
                    "<=": int(x <= y), ">": int(x > y), ">=": int(x >= y)}[op]
        if k == "UnaryOperator" and n.get("op") == "!":
            return 0 if self.expr(kids(n)[0], env) else 1
        if k == "ConditionalOperator":
            c, a, b = kids(n)
            return self.expr(a, env) if self.expr(c, env) else self.expr(b, env)
        raise AnalysisBroken("C12.R1: expression outside the fragment: %s" % render(n))

    def run(self, f, args):
        env = {p["declId"]: a for p, a in zip(f.params, args)}
        return self.stmts(kids(f.body), env)

    def stmts(self, ss, env):
        for s in ss:
            k = s["k"]
            if k == "ReturnStmt":
                return self.expr(kids(s)[0], env)
            if k == "IfStmt":
                ks = kids(s)
                if self.expr(ks[0], env):
                    r = self.stmts([ks[1]], env)
                elif len(ks) > 2:
                    r = self.stmts([ks[2]], env)
                else:
                    r = None
                if r is not None:
                    return r
            elif k == "CompoundStmt":
                r = self.stmts(kids(s), env)
                if r is not None:
                    return r
            elif s.get("mo") == "assert" or s.get("m") == "assert" or k == "NullStmt":
                continue
            else:
                raise AnalysisBroken("C12.R1: statement %s outside the fragment" % k)
        return None


def atoms_of(f):
    """comparison / call atoms of a helper body, rendered"""
    out = set()
    for n in f.walk():
        if n.get("mo") == "assert":
            continue
        if n["k"] == "BinaryOperator" and n.get("op") in ("==", "!=", "<", "<=", ">", ">="):
            if any(a.get("mo") == "assert" for a in f.ancestors(n)):
                continue
            out.add(render(n).replace(" ", ""))
    return out


def run(rep, ctx):
    repo = ctx["repo"]
    U = "solvers/visitor/model-mgr-with-std-pb.cc"
    fn = [NPB + r"::(NeedObj|resulting_nobj|resulting_obj_index|OnHeader|OnObj|OnLinearObjExpr|objno|multiobj)",
          r"mp::internal::SolverNLHandlerImpl::.*", r"mp::internal::NLReader::(Read|ReadLinearExpr)",
          r"mp::internal::NLReader::ObjHandler::.*",
          r"mp::BasicSolver::(objno_specified|is_objno_specified|multiobj|objno_used|GetObjNo|SetObjNo|notify_obj_added|notify_start_opts|notify_end_opts)",
          r"mp::SolutionAdapter::.*", r"mp::WriteSolFile", r"mp::SolutionWriterImpl::[A-Za-z]*Solution",
          r"mp::ProblemFlattener::ConvertStandardItems"]
    jobs = [dict(unit=U, fn=fn, repo=repo, closure=1, closure_roots=r"(SolverNLHandlerImpl::OnHeader|NLProblemBuilder::(OnHeader|NeedObj|resulting_nobj|resulting_obj_index)|SolutionWriterImpl::Handle(Feasible)?Solution|ObjHandler::(SkipExpr|OnLinearExpr|OnExpr))$"),
            dict(unit="src/solver.cc", fn=fn, repo=repo),
            dict(unit="solvers/visitor/visitor-modelapi-connect.cc",
                 fn=[r"mp::ProblemFlattener::ConvertStandardItems"], repo=repo)]
    F = Facts(export_many(jobs))
    F.by_id = {f.id: f for f in F.funcs if not f.is_dependent()}
    rep.note_units([j["unit"] for j in jobs])
    funcs = [f for f in F.funcs if not f.is_dependent() and f.cfg is not None]
    rep.note_funcs(funcs)

    def one(qn, pred=lambda f: True, need=True):
        c = [f for f in funcs if f.qn == qn and pred(f)]
        if not c and need:
            raise AnalysisBroken("anchor %s not found" % qn)
        return c[0] if c else None

    # ---- G1 ------------------------------------------------------------------
    g1 = rep.rule("C12.G1", "GUARD",
                  "objective data reaches the handler only under NeedObj(i) of the same i and as "
                  "resulting_obj_index(i); the skipped branch consumes the segment", floor=6)
    rd = one("mp::internal::NLReader::Read", lambda f: len(f.params) == 1 and "TextReader" in f.full
             and "SolverNLHandlerImpl" in f.full and "VarBoundHandler" not in f.full.split(">::")[0])
    oo = [c for c in rd.walk() if c["k"] == "CXXMemberCallExpr" and c.get("callee", "").endswith("::OnObj")]
    if len(oo) != 1:
        raise AnalysisBroken("expected one OnObj call in NLReader::Read, found %d" % len(oo))
    c = oo[0]
    a0 = strip(call_args(c)[0])
    idx = None
    if a0["k"] == "CXXMemberCallExpr" and a0.get("callee", "").endswith("::resulting_obj_index"):
        idx = strip(call_args(a0)[0])
    g1.check(idx is not None and idx["k"] == "DeclRefExpr", "O|resulting-index", short_loc(c.get("l")),
             "OnObj receives resulting_obj_index(%s)" % (render(idx) if idx else "?"))
    guarded = False
    for g, pol in norm_fact_nodes(rd, c, all_locals=False):
        if g["k"] == "CXXMemberCallExpr" and g.get("callee", "").endswith("::NeedObj") and pol is True and \
                idx is not None and strip(call_args(g)[0]).get("declId") == idx.get("declId"):
            guarded = True
    g1.check(guarded, "O|guard-same-index", short_loc(c.get("l")),
             "OnObj is control-dependent on NeedObj of the same index variable")
    exprs = [v for v in rd.walk() if v["k"] == "VarDecl" and v.get("name") == "expr"]
    g1.check(bool(exprs) and rd.cfg.dominates(exprs[0], c) and
             any(x.get("callee", "").endswith("::ReadNumericExpr") for x in walk(exprs[0])),
             "O|expression-consumed-before-test", short_loc(c.get("l")),
             "the objective expression is read before the keep/skip decision")
    rl = one("mp::internal::NLReader::ReadLinearExpr", lambda f: not f.params and "ObjHandler" in f.full
             and "TextReader" in f.full and "SolverNLHandlerImpl" in f.full and "VarBoundHandler" not in f.full.split(">::")[0])
    on = [x for x in rl.walk() if x["k"] == "CXXMemberCallExpr" and x.get("callee", "").endswith("ObjHandler::OnLinearExpr")]
    sk = [x for x in rl.walk() if x["k"] == "CXXMemberCallExpr" and x.get("callee", "").endswith("ObjHandler::SkipExpr")]
    ok = len(on) == 1 and len(sk) == 1 and \
        strip(call_args(on[0])[0]).get("declId") == strip(call_args(sk[0])[0]).get("declId")
    if ok:
        ok = any(g_["k"] == "CXXMemberCallExpr" and g_.get("i") == sk[0]["i"] and pol is False for g_, pol in norm_fact_nodes(rl, on[0], all_locals=False))
    g1.check(ok, "G|keep-branch", short_loc(rl.loc),
             "lh.OnLinearExpr(index, n) is reached only when lh.SkipExpr(index) of the same index is false")
    rls = [x for x in rl.walk() if x["k"] == "CXXMemberCallExpr" and x.get("callee", "").endswith("NLReader::ReadLinearExpr")]
    same = len(rls) == 2 and len({render(call_args(x)[0]) for x in rls}) == 1
    g1.check(same, "G|skip-consumes", short_loc(rl.loc),
             "both branches read the same number of terms (%s)" % ({render(call_args(x)[0]) for x in rls}))
    oh_skip = one("mp::internal::NLReader::ObjHandler::SkipExpr", lambda f: "SolverNLHandlerImpl" in f.full)
    r = [x for x in oh_skip.walk() if x["k"] == "ReturnStmt"]
    e = strip(expand_locals(oh_skip, kids(r[0])[0], 0, True)) if r else None       # a naming local is looked through
    ok = e is not None and e["k"] == "UnaryOperator" and e.get("op") == "!" and \
        strip(kids(e)[0]).get("callee", "").endswith("::NeedObj") and \
        strip(call_args(strip(kids(e)[0]))[0]).get("declId") == oh_skip.params[0]["declId"]
    g1.check(ok, "G|SkipExpr-is-not-NeedObj", short_loc(oh_skip.loc), "SkipExpr(i) returns !NeedObj(i)")
    oh_on = one("mp::internal::NLReader::ObjHandler::OnLinearExpr", lambda f: "SolverNLHandlerImpl" in f.full)
    calls = [x for x in oh_on.walk() if x["k"] == "CXXMemberCallExpr" and x.get("callee", "").endswith("::OnLinearObjExpr")]
    ok = False
    if len(calls) == 1:
        a = strip(expand_locals(oh_on, call_args(calls[0])[0], 0, True))
        ok = a["k"] == "CXXMemberCallExpr" and a.get("callee", "").endswith("::resulting_obj_index") and \
            strip(call_args(a)[0]).get("declId") == oh_on.params[0]["declId"]
    g1.check(ok, "G|resulting-index", short_loc(oh_on.loc),
             "OnLinearObjExpr receives resulting_obj_index(index) of the handler's own index")

    # ---- R1 ------------------------------------------------------------------------
    r1 = rep.rule("C12.R1", "RANGE",
                  "resulting_nobj, NeedObj and resulting_obj_index agree for every order type of "
                  "(multiobj, objno, #objectives, index)", floor=4)
    need = one(NPB + "::NeedObj")
    rno = one(NPB + "::resulting_nobj")
    rix = one(NPB + "::resulting_obj_index")
    ALLOWED = re.compile(r"^(objno\(\)>0|nobj_header>0|objno\(\)-1==(obj_index|index)|\(objno\(\)>0\)|\(nobj_header>0\))$")
    for f in (need, rno, rix):
        bad = [a for a in atoms_of(f) if not ALLOWED.match(a)]
        r1.check(not bad, "atoms|%s" % f.name, short_loc(f.loc),
                 "%s reads its inputs only through %s" % (f.name, sorted(atoms_of(f)) or ["multiobj()"]),
                 "%s contains comparison(s) %s outside the order-type atoms: the case enumeration "
                 "would not be exhaustive" % (f.name, bad))
    cases = viol = 0
    worst = None
    for multi, k, n in itertools.product((0, 1), range(0, 6), range(0, 5)):
        specified_ok = (k <= n) or (k == 1)      # P1: k > n only for the default objno (=1)
        if not specified_ok:
            continue
        ev = Ev(F, {"multiobj": multi, "objno": k})
        want = ev.run(rno, [n])
        kept = [i for i in range(n) if ev.run(need, [i])]
        idxs = [ev.run(rix, [i]) for i in kept]
        cases += 1
        exp_kept = list(range(n)) if multi else ([k - 1] if 1 <= k <= n else [])
        if len(kept) != want or sorted(idxs) != list(range(want)) or kept != exp_kept:
            viol += 1
            worst = worst or (multi, k, n, kept, want, idxs)
    r1.check(viol == 0, "order-types", short_loc(need.loc),
             "%d (multiobj, objno, n) cases: kept indices = selected objective(s), count = "
             "resulting_nobj(n), mapped onto [0, count)" % cases,
             "multiobj=%s objno=%s n=%s: kept %s but resulting_nobj=%s, indices %s" % (worst or ("?",) * 6))
    rep.extra["r1_cases"] = cases

    # ---- P1 -------------------------------------------------------------------------
    p1 = rep.rule("C12.P1", "PATH",
                  "OnHeader: options parsed, then objno > num_objs (specified) rejected, then "
                  "Base::OnHeader sizes the objectives", floor=3)
    oh = one("mp::internal::SolverNLHandlerImpl::OnHeader")
    base = [x for x in oh.walk() if x["k"] == "CXXMemberCallExpr" and x.get("callee", "").endswith("NLProblemBuilder::OnHeader")]
    if len(base) != 1:
        raise AnalysisBroken("Base::OnHeader call not found in SolverNLHandlerImpl::OnHeader")
    # the rejection: a throw mentioning objno, in OnHeader itself or in a helper it calls before Base::OnHeader,
    # executed exactly under  objno > h.num_objs && is_objno_specified()
    thr = []        # (anchor in OnHeader, throw node, owner function)
    for x in oh.walk():
        if x["k"] == "CXXThrowExpr" and "objno" in render(x):
            thr.append((x, x, oh))
    for c_ in oh.walk():
        if c_["k"] in ("CXXMemberCallExpr", "CallExpr"):
            g_ = getattr(F, "_by_id", {}).get(c_.get("calleeId"))
            if g_ is not None and g_ is not oh and g_.cfg is not None and g_.qn.startswith("mp::internal::SolverNLHandlerImpl::"):
                for x in g_.walk():
                    if x["k"] == "CXXThrowExpr" and "objno" in render(x):
                        thr.append((c_, x, g_))
    rej = False
    for anchor, t_, owner in thr:
        fa = norm_facts(owner, t_, canon=True, all_locals=True)
        big = any(pol is False and t.endswith("<solver_.objno_specified()") and "num_objs" in t for t, pol in fa) or \
            any(pol is True and t.startswith("h.num_objs<") and "objno_specified()" in t for t, pol in fa)
        spec = any(pol is True and t.endswith("is_objno_specified()") for t, pol in fa)
        only = all(("num_objs" in t or "is_objno_specified()" in t) for t, pol in fa)
        if owner is oh:
            ordered = any(pol is False and "num_objs" in render(oh.nodes[cid]) and "is_objno_specified()" in render(oh.nodes[cid])
                          for cid, pol in oh.cfg.facts_at(base[0])) or \
                (not oh.cfg.before(base[0], t_) and oh.cfg.path_avoiding(None, [base[0]["i"]], [oh.cfg.position(t_) and t_["i"]], from_entry=True) is not None)
        else:
            ordered = oh.cfg.dominates(anchor, base[0])
        if big and spec and only and ordered:
            rej = True
    p1.check(bool(thr) and rej, "reject-before-sizing", short_loc(base[0].get("l")),
             "Base::OnHeader is reached only if !(objno > h.num_objs && is_objno_specified()); otherwise "
             "InvalidOptionValue(\"objno\") is thrown")
    ah = [x for x in oh.walk() if x["k"] == "CXXOperatorCallExpr" and x.get("op") == "()" and "after_header_" in render(x)]
    rdno = [a_ for a_, c_, r_, o_ in reach_calls(F, oh, lambda x: x["k"] == "CXXMemberCallExpr" and x.get("callee", "").endswith("::objno_specified"), depth=1)]
    p1.check(bool(ah) and bool(rdno) and all(not oh.cfg.before(r_, ah[0]) for r_ in rdno), "options-before-objno",
             short_loc(oh.loc), "after_header_() (option parsing) precedes the read of objno")
    nob = one(NPB + "::OnHeader")
    addr = list(reach_calls(F, nob, lambda x: x["k"] == "CXXMemberCallExpr" and x.get("callee", "").endswith("::AddObjs"), depth=1))
    add = [c_ for a_, c_, r_, o_ in addr]
    okn = len(addr) == 1
    if okn:
        a_, c_, r_, o_ = addr[0]
        # the count handed to AddObjs, traced through a naming local and a helper parameter back to OnHeader's terms
        cnt_ = render(r_(expand_locals(o_, call_args(c_)[0], 0, True))).replace(" ", "").replace("this->", "")
        okn = cnt_ == "resulting_nobj(h.num_objs)"
    p1.check(okn, "builder-sized-with-resulting_nobj", short_loc(nob.loc),
             "the builder adds resulting_nobj(h.num_objs) objectives")

    # ---- F1 -------------------------------------------------------------------------
    f1 = rep.rule("C12.F1", "FLOW", "objno()/multiobj() plumbing between option, solver and NL handler", floor=6)

    def ret(f):
        r_ = [x for x in f.walk() if x["k"] == "ReturnStmt"]
        return render(kids(r_[0])[0]) if len(r_) == 1 else None
    for qn, want in (("mp::internal::SolverNLHandlerImpl::objno", "solver_.objno_specified()"),
                     ("mp::internal::SolverNLHandlerImpl::multiobj", "solver_.multiobj()"),
                     ("mp::BasicSolver::objno_specified", "abs(objno_)"),
                     ("mp::BasicSolver::is_objno_specified", "objno_ >= 0"),
                     ("mp::BasicSolver::multiobj", "multiobj_ && objno_ < 0"),
                     ("mp::BasicSolver::GetObjNo", "abs(objno_)")):
        f = one(qn)
        got = (ret(f) or "").replace("std::", "")
        if got != want:
            # written differently: the accessor is evaluated for stored option values of either sign and both multiobj settings
            wantf = {"abs(objno_)": lambda o, m: abs(o), "solver_.objno_specified()": lambda o, m: abs(o), "objno_ >= 0": lambda o, m: int(o >= 0),
                     "multiobj_ && objno_ < 0": lambda o, m: int(bool(m) and o < 0), "solver_.multiobj()": lambda o, m: int(bool(m) and o < 0)}[want]
            diff = []
            for o_ in (-7, -1, 0, 1, 4):
                for m_ in (0, 1):
                    box = {}

                    def atom(t_, n_, env_, o_=o_, m_=m_):
                        t_ = t_.replace("this->", "")
                        if t_ == "objno_":
                            return o_
                        if t_ == "multiobj_":
                            return m_
                        if n_["k"] == "CallExpr" and (n_.get("callee") or "") in ("std::abs", "abs") and len(call_args(n_)) == 1:
                            return abs(box["mi"].expr(call_args(n_)[0], env_, 0))
                        return None
                    mi = MiniInt(F, atom)
                    box["mi"] = mi
                    try:
                        v_ = mi.call(f, [("obj", None, None)] * len(f.params))
                    except AnalysisBroken as e_:
                        v_ = "not evaluable (%s)" % str(e_)[:60]
                    if v_ != wantf(o_, m_):
                        diff.append("objno_=%d multiobj_=%d: %s" % (o_, m_, v_))
            f1.check(not diff, "returns|%s" % qn.split("::")[-2] + "::" + qn.split("::")[-1], short_loc(f.loc),
                     "%s has the values of %s" % (qn, want), "%s returns `%s`, which is not `%s`: %s" % (qn, got, want, diff[:2]))
            continue
        f1.check(got == want, "returns|%s" % qn.split("::")[-2] + "::" + qn.split("::")[-1], short_loc(f.loc),
                 "%s returns %s" % (qn, got), "%s returns `%s`, expected `%s`" % (qn, got, want))
    so = one("mp::BasicSolver::SetObjNo")
    st = [x for x in so.walk() if x["k"] == "BinaryOperator" and x.get("op") == "=" and render(kids(x)[0]) == "objno_"]
    okso = len(st) == 1 and render(kids(st[0])[1]) == "value" and \
        ("value<0", False) in norm_facts(so, st[0], canon=True)
    f1.check(okso, "SetObjNo-stores-nonnegative", short_loc(so.loc), "SetObjNo stores the value after rejecting value < 0")
    ou = one("mp::BasicSolver::objno_used")
    def ou_atom(t, n):
        return {"opts_read_": "O", "obj_added_": "A"}.get(t)

    def ou_ret(e, value_of):
        e = strip(e) if e is not None else None
        while e is not None and e["k"] == "ConditionalOperator":
            c_, a_, b_ = kids(e)
            e = strip(a_ if value_of(c_) else b_)
        if e is None:
            return "?"
        if cv(e) == 0:
            return "zero"
        return "spec" if render(e).replace("this->", "").replace(" ", "") == "objno_specified()" else "?" + render(e)
    tab = eval_cases(ou, ["O", "A"], ou_atom, ou_ret)
    want_ou = {(False, False): "spec", (False, True): "spec", (True, False): "zero", (True, True): "spec"}
    f1.check(tab == want_ou, "objno_used", short_loc(ou.loc),
             "objno_used() = 0 once the options were read and no objective was added, objno_specified() otherwise (4 cases)",
             "objno_used() by (options read, objective added): %s" % tab)

    # ---- F2 -------------------------------------------------------------------------
    f2 = rep.rule("C12.F2", "FLOW", "the .sol objno line echoes objno_used() - 1", floor=4)
    ws = one("mp::WriteSolFile")
    pr = [x for x in ws.walk() if x["k"] == "CXXMemberCallExpr" and x.get("callee", "").endswith("::print")
          and any(y["k"] == "StringLiteral" and y.get("v", "").startswith("objno ") for y in walk(x))]
    f2.check(len(pr) == 1 and render(call_args(pr[0])[1]) == "sol.objno() - 1", "objno-line", short_loc(ws.loc),
             "objno line prints sol.objno() - 1")
    ctor = one("mp::SolutionAdapter::SolutionAdapter")
    init = [i for i in ctor.d.get("inits", []) if i.get("name") == "objno_"]
    pn = [p for p in ctor.params if init and strip(kids(init[0])[0]).get("declId") == p["declId"]]
    f2.check(bool(init) and bool(pn) and strip(kids(init[0])[0]).get("declId") == pn[0]["declId"],
             "adapter-stores-parameter", short_loc(ctor.loc), "SolutionAdapter::objno_ is the constructor parameter")
    acc = one("mp::SolutionAdapter::objno")
    f2.check(ret(acc) == "objno_", "adapter-accessor", short_loc(acc.loc), "SolutionAdapter::objno() returns objno_")
    if not pn:
        raise AnalysisBroken("SolutionAdapter::objno_ is not initialised from a constructor parameter")
    pos = [i for i, p in enumerate(ctor.params) if p["declId"] == pn[0]["declId"]][0]
    for h in [f for f in funcs if f.qn in ("mp::SolutionWriterImpl::HandleSolution", "mp::SolutionWriterImpl::HandleFeasibleSolution")]:
        cs = [c_ for a_, c_, r_, o_ in reach_calls(F, h, lambda x: x["k"] in ("CXXConstructExpr", "CXXTemporaryObjectExpr") and
                                                   x.get("callee", "").endswith("SolutionAdapter::SolutionAdapter") and len(kids(x)) > pos, depth=1)]
        if not cs:
            continue           # forwarding overload without an adapter of its own
        ok = all(render(kids(x)[pos]).replace("this->", "") == "solver_.objno_used()" for x in cs)
        f2.check(ok, "handler|%s" % h.name, short_loc(h.loc),
                 "%s passes solver_.objno_used() as the adapter's objno" % h.name)

    # ---- P2 -------------------------------------------------------------------------
    p2 = rep.rule("C12.P2", "PATH", "objectives are converted in increasing file order", floor=1)
    cs = [f for f in funcs if f.qn == "mp::ProblemFlattener::ConvertStandardItems"]
    if not cs:
        raise AnalysisBroken("ProblemFlattener::ConvertStandardItems instantiation not found")
    f = cs[0]
    okp = False
    from ..cfg import loop_shape as _ls
    for lp in f.find(lambda n: n["k"] in ("ForStmt", "WhileStmt")):
        sh_ = _ls(f, lp)
        if sh_ is None:
            continue
        body = [x for x in lp.get("c", []) if x is not None][-1]
        objc = [x for x in walk(body) if x["k"] == "CXXMemberCallExpr" and (x.get("callee") or "").split("::")[-1] == "obj" and call_args(x) and
                strip(call_args(x)[0]).get("declId") == sh_["var"]]
        if not objc:
            continue
        bnd_ = xrender(f, sh_["bound"], True).replace(" ", "").replace("this->", "")
        okp = sh_["dir"] == "up" and sh_["stepped"] and sh_["rel"] == "<" and sh_["start"] not in (None, "continues") and cv(sh_["start"]) == 0 and \
            bnd_.endswith("GetModel().num_objs()")
    p2.check(okp, "objective-loop", short_loc(f.loc),
             "for (i = 0; i < num_objs; ++i) Convert(GetModel().obj(i))")
    # ---- K1: the constant of the selected objective's nonlinear part -------------------------------------------------
    k1 = rep.rule("C12.K1", "GUARD", "the constant term of the objective's expression is delivered (as a fixed variable) for every non-zero constant, of either sign", floor=1)
    Fo = Facts(export_many([dict(unit="solvers/visitor/visitor-modelapi-connect.cc", fn=[r"mp::ProblemFlattener::Convert"], repo=repo)]))
    cvo = [g for g in Fo.funcs if g.qn == "mp::ProblemFlattener::Convert" and not g.is_dependent() and g.cfg is not None and g.params and
           "MutObjective" in ((g.params[0].get("t") or "") + (g.params[0].get("ct") or "") + g.full)]
    if not cvo:
        cvo = [g for g in Fo.funcs if g.qn == "mp::ProblemFlattener::Convert" and not g.is_dependent() and g.cfg is not None and
               any(c_["k"] == "CXXMemberCallExpr" and (c_.get("callee") or "").endswith("::nonlinear_expr") for c_ in g.walk())]
    if not cvo:
        raise AnalysisBroken("C12.K1: ProblemFlattener::Convert(MutObjective) not found")
    g = cvo[0]
    adds = [c_ for c_ in g.walk() if c_["k"] == "CXXMemberCallExpr" and (c_.get("callee") or "").split("::")[-1] == "add_term" and "constant_term()" in render(c_)]
    okk, whyk = len(adds) == 1, "%d add_term calls carrying the constant" % len(adds)
    if okk:
        a_ = call_args(adds[0])
        okk = cv(a_[0]) == 1 and "MakeFixedVar(" in render(a_[1])
        whyk = "the constant is added as `%s`" % render(adds[0])[:80]
    if okk:
        conds = [(g.nodes[cid], pol) for cid, pol in g.cfg.facts_at(adds[0]) if "constant_term()" in render(g.nodes[cid])]
        bad = []
        for c_ in (-2.5, -1e-30, 0.0, 1e-30, 3.0):
            box = {}

            def atom(t_, n_, env_, c_=c_):
                if n_["k"] == "CXXMemberCallExpr" and (n_.get("callee") or "").endswith("::constant_term"):
                    return c_
                if n_["k"] == "CallExpr" and (n_.get("callee") or "").split("::")[-1] in ("fabs", "abs") and len(call_args(n_)) == 1:
                    return abs(box["mi"].expr(call_args(n_)[0], env_, 0))
                return None
            mi = MiniInt(Fo, atom)
            box["mi"] = mi
            try:
                taken = all(bool(mi.expr(n_, {}, 0)) == bool(pol) for n_, pol in conds)
            except AnalysisBroken as e_:
                raise AnalysisBroken("C12.K1: guard of the objective constant: %s" % e_)
            if taken != (c_ != 0.0):
                bad.append((c_, taken))
        okk = not bad
        whyk = "(constant, delivered) = %s" % bad
    k1.check(okk, "objective-constant", short_loc(g.loc), "a non-zero constant of the objective expression reaches the solver, zero adds nothing",
             "%s: the solver receives the objective without (part of) its constant" % whyk)
    return rep
