"""C11 - solver option parsing is total, faithful and ordered.

S1 bounded scans (every cursor advance / look-ahead is guarded by a NUL test
   of the byte under the cursor; entry advances are justified at every call);
S2 lengths of the strings cut from the option text are non-negative;
P1 source order mp_options -> <exe|name>_options -> command line;
P2 unknown name / value-for-flag / name=? never reach Parse or SetValue, and
   the first two set has_errors_;
G1 lookup: exact name first, synonyms case-insensitively, wildcards on request;
T1 no silent narrowing of an integer value.
"""
from ..linrel import Lin, GE, LE, GT, LT, infeasible, entails
from ..cfg import MiniInt, reach_calls, expand_locals, norm_facts, xrender, Facts, kids, strip, walk, cv, render, short_loc, call_args, TRANSPARENT, call_object
import re
from ..facts import export_many, AnalysisBroken
from .. import units

LEVEL = "other"
TECHNIQUE = ("static analysis: sentinel-scan rule over the CFG (branch facts with invalidation, "
             "predicate summaries, call-site preconditions), pointer-offset entailment for cut "
             "lengths, path-order and never-between rules, lookup and narrowing rules")
LEVEL_TEXT = ("Structural clauses of the statement decided for all inputs: the tokeniser can never "
              "move or look past the terminating NUL, cut lengths are non-negative, the three "
              "sources are parsed in the documented order (<name>_options exactly when no <exe>_options exists), the three no-change cases cannot reach a "
              "value parser, errors are accounted. Exact numeric conversion by strtol/strtod is "
              "library behaviour and is not decided."
              "  Also decided (added after the seeded rounds): numeric values are handed to strtod / strtol base 10 at the cursor, the cursor "
              "continues at that call's end pointer and the converted number is what is returned.")
LEVEL_NOTE = ("Trusted: clang 14 front end/CFG, tool/mpx.cc, the rule module. Not decided: that "
              "strtol/strtod return exactly the written value; options registered by drivers outside "
              "the repository.")
DESIGN_REF = "DESIGN.md section 4, C11"
EXPLANATION = (
    "Decides necessary structural clauses of C11 (not the value semantics of strtol/strtod): "
    "(S1) in every tokeniser function each `++s`, `s+k` and `s[k]` on a const char* cursor is "
    "dominated by a still-valid branch fact implying that the byte(s) before the new position are "
    "not NUL, or - for an advance at function entry - every call site establishes it; (S2) every "
    "std::string cut out of the option text has a provably non-negative length; (P1) "
    "BasicSolver::ParseOptions visits mp_options, then <exe>_options / <name>_options, then argv, "
    "clears has_errors_ once and returns !has_errors_; (P2) the unknown-name, flag-with-value and "
    "name=? paths of ParseOptionString cannot reach SolverOption::Parse before the next iteration, "
    "and the first two reach has_errors_ = true; (G1) FindOption tries the exact name first, "
    "compares synonyms with strcasecmp on both strings, and consults wildcards only on request; "
    "(T1) the int parser does not narrow a long silently.")
ASSUMPTIONS = ["option texts are NUL-terminated C strings (getenv / argv)",
               "isspace(0) is false; a quote character is not NUL"]
TRUSTED = ["clang 14 front end + CFG builder", "tool/mpx.cc", "mpsa/cfg.py", "mpsa/linrel.py", "mpsa/rules/C11.py"]

FN = [r"\(anon\)::Skip[A-Za-z]*", r"SkipNonSpaces", r"mp::BasicSolver::ParseOptionString",
      r"mp::BasicSolver::ParseOptions", r"mp::BasicSolver::ParseOptions::.*", r"mp::internal::OptionHelper::Parse", r"mp::internal::quoted",
      r"mp::TypedSolverOption::Parse", r"mp::SolverOptionManager::FindOption",
      r"mp::SolverOptionManager::FindOption::.*",
      r"mp::BasicSolver::HandleUnknownOption", r"mp::BasicSolver::ReportError",
      r"mp::SolverOptionManager::OptionNameLess::operator\(\)"]


def is_cursor_type(ct):
    return (ct or "").replace(" ", "") in ("constchar*", "constchar*&", "constchar*const")


def deref_of(n):
    """(declId, offset) if n reads the byte *(x+offset) of a cursor x."""
    n = strip(n)
    if n is None:
        return None
    if n["k"] == "UnaryOperator" and n.get("op") == "*":
        t = strip(kids(n)[0])
        if t["k"] == "DeclRefExpr":
            return t.get("declId"), 0
        if t["k"] == "BinaryOperator" and t.get("op") == "+":
            b, o = strip(kids(t)[0]), cv(kids(t)[1])
            if b["k"] == "DeclRefExpr" and o is not None:
                return b.get("declId"), o
    if n["k"] == "ArraySubscriptExpr":
        b, o = strip(kids(n)[0]), cv(kids(n)[1])
        if b is not None and b["k"] == "DeclRefExpr" and o is not None:
            return b.get("declId"), o
    return None


class NZ:
    """Which bytes are known non-NUL from a branch fact."""

    def __init__(self, F, f):
        self.F, self.f = F, f
        self.local_byte = {}     # local char variable -> (cursor, offset) it was read from
        for n in f.walk():
            if n["k"] == "VarDecl" and kids(n) and n.get("ct") in ("char", "const char"):
                d = deref_of(kids(n)[0])
                if d:
                    self.local_byte[n["declId"]] = d

    def implies(self, n, pol, depth=0):
        """set of (cursor, offset) known non-NUL if condition n has truth `pol`."""
        n = strip(n)
        if n is None:
            return set()
        k = n["k"]
        d = deref_of(n)
        if d is not None:
            return {d} if pol else set()
        if k == "DeclRefExpr" and n.get("declId") in self.local_byte:
            return {self.local_byte[n["declId"]]} if pol else set()
        if k == "UnaryOperator" and n.get("op") == "!":
            return self.implies(kids(n)[0], not pol, depth)
        if k == "BinaryOperator":
            op = n["op"]
            a, b = kids(n)
            if op in ("==", "!="):
                da, db = deref_of(a), deref_of(b)
                ca, cb = cv(a), cv(b)
                for dd, cc in ((da, cb), (db, ca)):
                    if dd is not None and cc is not None:
                        eq = (op == "==") == pol       # the byte equals cc
                        if (eq and cc != 0) or (not eq and cc == 0):
                            return {dd}
                        return set()
                # comparison of two bytes: *s == quote tells nothing by itself
                return set()
            if op == "&&":
                if pol:
                    return self.implies(a, True, depth) | self.implies(b, True, depth)
                return self.implies(a, False, depth) & self.implies(b, False, depth)
            if op == "||":
                if pol:
                    return self.implies(a, True, depth) & self.implies(b, True, depth)
                return self.implies(a, False, depth) | self.implies(b, False, depth)
        if k == "CallExpr" and depth < 2:
            cal = n.get("callee", "")
            args = call_args(n)
            if cal.split("::")[-1] in ("isspace", "isalpha", "isdigit", "isalnum") and args:
                d = deref_of(args[0])
                return {d} if (d and pol) else set()       # is*(0) is false
            g = self.F.by_id.get(n.get("calleeId"))
            if g is not None and len(g.params) == len(args) and g.d.get("ret") == "bool":
                # predicate summary: single return expression over *param
                st = kids(g.body) if g.body else []
                if len(st) == 1 and st[0]["k"] == "ReturnStmt":
                    sub = NZ(self.F, g).implies(kids(st[0])[0], pol, depth + 1)
                    out = set()
                    for (pd, off) in sub:
                        for p, a in zip(g.params, args):
                            if p["declId"] == pd:
                                a = strip(a)
                                if a["k"] == "DeclRefExpr":
                                    out.add((a.get("declId"), off))
                    return out
        return set()


def known_nonzero(F, f, node):
    """(cursor, offset) pairs known non-NUL right before `node` on every path
    (must-dataflow over semantic facts; a write to the cursor kills its facts)."""
    fb = f.__dict__.get("_nz_before")
    if fb is None:
        nz = NZ(F, f)

        def kill(n, fact):
            return fact[0] in f.cfg.written_decls(n)
        fb = f.cfg.semantic_must(lambda c, pol: nz.implies(c, pol), kill)
        f.__dict__["_nz_before"] = fb
    return fb(node)


def run(rep, ctx):
    repo = ctx["repo"]
    jobs = [dict(unit="src/solver.cc", fn=FN, repo=repo, closure=1,
                 closure_roots=r"(OptionHelper::Parse|BasicSolver::ParseOptionString|SolverOptionManager::FindOption|Skip[A-Za-z]*)$"),
            dict(unit="src/option.cc", fn=FN, repo=repo),
            dict(unit="test/solver-test.cc", fn=[r"mp::TypedSolverOption::Parse",
                                                  r"mp::internal::OptionHelper::Parse"], repo=repo)]
    if ctx["tier"] == "thorough":
        for u, k in units.UNITS.items():
            if k == "visitor":
                jobs.append(dict(unit=u, fn=[r"mp::TypedSolverOption::Parse"], repo=repo))
    F = Facts(export_many(jobs))
    F.by_id = {}
    for f in F.funcs:
        if not f.is_dependent():
            F.by_id.setdefault(f.id, f)
    rep.note_units([j["unit"] for j in jobs])
    funcs = [f for f in F.funcs if not f.is_dependent() and f.cfg is not None]
    rep.note_funcs(funcs)

    # ---- S1 -------------------------------------------------------------------
    s1 = rep.rule("C11.S1", "SCAN",
                  "every advance / look-ahead of a const char* cursor is guarded by a valid NUL "
                  "test of the byte(s) it steps over", floor=10)
    entry_needs = {}     # function id -> (param index) needing *p != 0 at entry
    seen_sites, ordn = set(), {}
    sites = 0
    for f in funcs:
        cursors = {p["declId"]: p["name"] for p in f.params if is_cursor_type(p.get("ct"))}
        for n in f.walk():
            if n["k"] == "VarDecl" and is_cursor_type(n.get("ct")):
                cursors[n["declId"]] = n["name"]
        if not cursors:
            continue
        pidx = {p["declId"]: i for i, p in enumerate(f.params)}
        for n in f.walk():
            need = None    # (cursor, highest offset that must be non-NUL)
            what = None
            if n["k"] == "UnaryOperator" and n.get("op") in ("++",):
                t = strip(kids(n)[0])
                if t["k"] == "DeclRefExpr" and t.get("declId") in cursors:
                    need, what = (t["declId"], 0), "++%s" % t["name"]
            elif n["k"] == "BinaryOperator" and n.get("op") == "+" and is_cursor_type(n.get("ct")):
                b, o = strip(kids(n)[0]), cv(kids(n)[1])
                par = f.parent.get(n["i"])
                # s + k used as a new position (not merely as the end of a range that
                # was itself derived from checks): require bytes s[0..k-1] non-NUL
                if b["k"] == "DeclRefExpr" and b.get("declId") in cursors and o and o > 0 \
                        and not _is_string_range_arg(f, n):
                    need, what = (b["declId"], o - 1), "%s + %d" % (b["name"], o)
            elif n["k"] == "ArraySubscriptExpr":
                b, o = strip(kids(n)[0]), cv(kids(n)[1])
                if b is not None and b["k"] == "DeclRefExpr" and b.get("declId") in cursors and o and o > 0:
                    need, what = (b["declId"], o - 1), "%s[%d]" % (b["name"], o)
            elif n["k"] == "CompoundAssignOperator" and n.get("op") == "+=":
                t = strip(kids(n)[0])
                if t["k"] == "DeclRefExpr" and t.get("declId") in cursors:
                    o = cv(kids(n)[1])
                    if o is None:
                        s1.fail("%s|%s" % (f.qn, render(n)), short_loc(n.get("l")),
                                "cursor advanced by a non-constant amount")
                        continue
                    need, what = (t["declId"], o - 1), render(n)
            if need is None:
                continue
            sites += 1
            kn = known_nonzero(F, f, n)
            missing = [o for o in range(need[1] + 1) if (need[0], o) not in kn]
            loc_key = (f.qn, n.get("l"))
            if loc_key in seen_sites:
                continue             # another instantiation of the same template code
            seen_sites.add(loc_key)
            ordn[(f.qn, what)] = ordn.get((f.qn, what), 0) + 1
            key = "%s|%s#%d" % (f.qn, what, ordn[(f.qn, what)])
            if not missing:
                s1.ok(key, short_loc(n.get("l")),
                      "%s: `%s` is guarded: byte(s) %s[0..%d] known non-NUL" % (
                          f.name, what, cursors[need[0]], need[1]))
                continue
            # entry advance on a parameter: precondition for the callers
            if need[0] in pidx and missing == [0] and _first_touch(f, n, need[0]):
                entry_needs.setdefault(f.id, []).append((pidx[need[0]], n, key))
                continue
            s1.fail(key, short_loc(n.get("l")),
                    "%s: `%s` is not dominated by a NUL test of %s[%s]: on a string ending there the "
                    "cursor moves past the terminating NUL (read beyond the buffer)" % (
                        f.name, what, cursors[need[0]], ",".join(map(str, missing))))
    # call-site preconditions
    for fid, needs in entry_needs.items():
        g = F.by_id[fid]
        callers = [(f, c) for f in funcs for c in f.walk()
                   if c["k"] == "CallExpr" and c.get("calleeId") == fid]
        for (pi, node, key) in needs:
            if not callers:
                s1.fail(key, short_loc(node.get("l")),
                        "%s advances its cursor at entry without a NUL test and has no visible "
                        "call site establishing it" % g.name)
                continue
            bad = []
            for (f, c) in callers:
                a = strip(call_args(c)[pi])
                ok = a["k"] == "DeclRefExpr" and (a.get("declId"), 0) in known_nonzero(F, f, c)
                if not ok:
                    bad.append("%s at %s" % (f.name, short_loc(c.get("l"))))
            s1.check(not bad, key, short_loc(node.get("l")),
                     "%s: entry advance justified at all %d call site(s) (argument byte known non-NUL)"
                     % (g.name, len(callers)),
                     "%s: entry advance not justified at call site(s) %s" % (g.name, bad))
    rep.extra["cursor_sites"] = sites

    # ---- S2 --------------------------------------------------------------------
    s2 = rep.rule("C11.S2", "RANGE",
                  "strings cut from the option text have non-negative length "
                  "(pointer-offset entailment with cursor-function summaries)", floor=3)
    for f in funcs:
        if f.qn == "mp::internal::OptionHelper::Parse" and "string" in f.full:
            string_lengths(F, f, s2)

    # ---- P1 ---------------------------------------------------------------------
    p1 = rep.rule("C11.P1", "PATH",
                  "ParseOptions: mp_options, then <exe>_options / <name>_options, then argv; "
                  "has_errors_ cleared once at entry; result is !has_errors_", floor=6)
    po = [f for f in funcs if f.qn == "mp::BasicSolver::ParseOptions"]
    if not po:
        raise AnalysisBroken("BasicSolver::ParseOptions not found")
    f = po[0]
    # ParseOptionString calls made by ParseOptions itself or through a local helper / lambda; the argument is
    # resolved into ParseOptions' own terms (helper parameters replaced, named values looked through)
    reached = list(reach_calls(F, f, lambda c: c["k"] == "CXXMemberCallExpr" and c.get("callee") == "mp::BasicSolver::ParseOptionString"))
    src = {}
    calls = []
    for anchor, c, res, owner in reached:
        a = strip(call_args(c)[0])
        txt = render(res(expand_locals(owner, a, 0, True))).replace(" ", "")
        if owner is f and a["k"] == "DeclRefExpr":
            vd = [v for v in f.walk() if v["k"] == "VarDecl" and v.get("declId") == a.get("declId")]
            txt = render(kids(vd[0])[0]).replace(" ", "") if vd and kids(vd[0]) else txt
        kind = "?"
        if "getenv" in txt and "mp_options" in txt:
            kind = "mp_options"
        elif "getenv" in txt and "exe_basename" in txt:
            kind = "exe_options"
        elif "getenv" in txt and "name_" in txt:
            kind = "name_options"
        elif "argv" in txt:
            kind = "argv"
        src.setdefault(kind, []).append(anchor)
        calls.append(anchor)
    for need in ("mp_options", "exe_options", "name_options", "argv"):
        p1.check(len(src.get(need, [])) == 1, "source|%s" % need, short_loc(f.loc),
                 "%d ParseOptionString call(s) fed from %s" % (len(src.get(need, [])), need))
    p1.check("?" not in src, "no-other-source", short_loc(f.loc),
             "ParseOptionString calls with unclassified sources: %d" % len(src.get("?", [])))
    order = ["mp_options", "exe_options", "name_options", "argv"]
    for i, a in enumerate(order):
        for b in order[i + 1:]:
            for ca in src.get(a, []):
                for cb in src.get(b, []):
                    p1.check(not f.cfg.before(cb, ca), "order|%s<%s" % (a, b), short_loc(cb.get("l")),
                             "%s is never parsed after %s" % (a, b),
                             "%s can be parsed after %s: later source would not override" % (a, b))
    # <name>_options is the fall-back for <exe>_options: it is parsed exactly when no <exe>_options variable was found
    if len(src.get("exe_options", [])) == 1 and len(src.get("name_options", [])) == 1:
        ce, cn = src["exe_options"][0], src["name_options"][0]
        fe_ = set(norm_facts(f, ce, canon=True))
        fn_ = norm_facts(f, cn, canon=True)
        bools = {v["name"]: v for v in f.walk() if v["k"] == "VarDecl" and (v.get("ct") or v.get("t") or "") in ("bool", "_Bool") and v.get("name")}
        flags_ = [(t, pol) for t, pol in fn_ if t in bools]
        okfb, whyfb = True, "no path parses both"
        if flags_:
            for t, pol in flags_:
                v = bools[t]
                init = cv(kids(v)[0]) if kids(v) else None
                wr = [n for n in f.walk() if n["k"] == "BinaryOperator" and n.get("op") == "=" and strip(kids(n)[0]).get("declId") == v["declId"]]
                other = [n for n in f.walk() if n["k"] in ("CompoundAssignOperator", "UnaryOperator") and n.get("op") not in ("!",) and kids(n) and
                         strip(kids(n)[0]).get("declId") == v["declId"]]
                # the flag says "an <exe>_options variable was found": initialised to the opposite of the tested value, and
                # switched exactly where <exe>_options is parsed
                def switched(n):
                    rhs = strip(kids(n)[1])
                    if cv(rhs) is not None:
                        return bool(cv(rhs)) != bool(pol) and set(norm_facts(f, n, canon=True)) == fe_
                    # flag = helper(...): the helper call that parses <exe>_options, returning "found and parsed"
                    hit = [(c_, o_) for a_, c_, r_, o_ in reached if a_["i"] == ce["i"] and o_ is not f]
                    if rhs["i"] != ce["i"] or len(hit) != 1:
                        return False
                    c_, o_ = hit[0]
                    rets_ = [r_ for r_ in o_.walk() if r_["k"] == "ReturnStmt" and kids(r_)]
                    if not rets_ or any(cv(kids(r_)[0]) is None for r_ in rets_):
                        return False
                    for r_ in rets_:
                        found = bool(cv(kids(r_)[0])) != bool(pol)
                        if found and not o_.cfg.dominates(c_, r_):
                            return False
                        if not found and o_.cfg.before(c_, r_):
                            return False
                    return True
                good = init is not None and bool(init) == bool(pol) and bool(wr) and not other and all(switched(n) for n in wr)
                if not good:
                    okfb = False
                    whyfb = "the fall-back is guarded by `%s%s`, but `%s` is not switched exactly where <exe>_options is found and parsed" % ("" if pol else "!", t, t)
        else:
            okfb = not f.cfg.before(ce, cn) and not f.cfg.before(cn, ce)
            whyfb = "both <exe>_options and <name>_options can be parsed in one run"
        p1.check(okfb, "name-options-is-fallback", short_loc(cn.get("l")), "<name>_options is parsed exactly when no <exe>_options variable exists",
                 "%s: a user's <name>_options is dropped (or both variables are applied)" % whyfb)
    flag_sets = [n for n in f.walk() if n["k"] == "CompoundAssignOperator" and n.get("op") == "|="
                 and "FROM_COMMAND_LINE" in render(n)]
    for n in flag_sets:
        ok = all(not f.cfg.before(n, c) for k in order[:3] for c in src.get(k, [])) and \
            all(f.cfg.dominates(n, c) for c in src.get("argv", []))
        p1.check(ok, "command-line-flag", short_loc(n.get("l")),
                 "FROM_COMMAND_LINE is set after the environment sources and before the argv loop")
    if not flag_sets:
        p1.fail("command-line-flag", short_loc(f.loc), "flags |= FROM_COMMAND_LINE not found")
    clears = [n for n in f.walk() if n["k"] == "BinaryOperator" and n.get("op") == "=" and
              strip(kids(n)[0]).get("name") == "has_errors_"]
    p1.check(len(clears) == 1 and cv(kids(clears[0])[1]) == 0 and
             all(f.cfg.dominates(clears[0], c) for c in calls), "errors-cleared-once",
             short_loc(f.loc), "has_errors_ = false once, before every source")
    rets = f.find(lambda n: n["k"] == "ReturnStmt")
    p1.check(len(rets) == 1 and render(kids(rets[0])[0]) == "!has_errors_", "result",
             short_loc(f.loc), "returns !has_errors_")

    # ---- P2 -----------------------------------------------------------------------
    p2 = rep.rule("C11.P2", "PATH",
                  "unknown name, value given to a flag and name=? never reach SolverOption::Parse "
                  "in that iteration; the first two set has_errors_", floor=6)
    ps = [g for g in funcs if g.qn == "mp::BasicSolver::ParseOptionString"]
    if not ps:
        raise AnalysisBroken("BasicSolver::ParseOptionString not found")
    g = ps[0]
    # ---- D1: delegating Parse overrides pass the tokeniser's arguments on unchanged ----------------------
    d1 = rep.rule("C11.D1", "FLOW", "an option's Parse that delegates to another Parse forwards the cursor and the from-command-line flag unchanged", floor=3)
    dx = export_many([dict(unit="src/solver.cc", fn=[r"mp::.*::Parse"], repo=repo)])
    Fd = Facts(dx)
    seen_d = set()
    for g_ in Fd.funcs:
        if g_.is_dependent() or g_.cfg is None or len(g_.params) != 2 or "bool" not in (g_.params[1].get("ct") or ""):
            continue
        if not (g_.d.get("overrides") or g_.qn.endswith("TypedSolverOption::Parse")):
            continue
        dels = [c for c in g_.walk() if c["k"] in ("CXXMemberCallExpr", "CallExpr") and (c.get("callee") or "").split("::")[-1] == "Parse" and len(call_args(c)) >= 1]
        if not dels:
            continue
        key = re.sub(r"mp::|std::", "", g_.full)[:70]
        if key in seen_d:
            continue
        seen_d.add(key)
        okd = True
        why = ""
        for c in dels:
            a = call_args(c)
            refs = [strip(x).get("declId") for x in a]
            if len(a) < 2 or refs[0] != g_.params[0]["declId"] or refs[1] != g_.params[1]["declId"]:
                okd = False
                why = "calls %s(%s)" % ((c.get("callee") or "").replace("mp::", ""), ", ".join(render(x) for x in a))
        d1.check(okd, "forward|" + key, short_loc(g_.loc), "%s forwards (cursor, flag) to the Parse it delegates to" % key,
                 "%s %s: the from-command-line flag (or the cursor) is not passed on, so a value with a blank or a quote given on the command line is split differently when the option is reached through this object" % (key, why))

    # ---- B1: the option-name copy stays inside its buffer ------------------------------------------------
    b1 = rep.rule("C11.B1", "RANGE", "every element written in the option-name buffer lies below the size the buffer was resized to", floor=2)
    gb = ps[0]
    bufs = [v for v in gb.walk() if v["k"] == "VarDecl" and "MemoryBuffer<" in (v.get("ct") or "")]
    if len(bufs) != 1:
        raise AnalysisBroken("C11.B1: %d MemoryBuffer locals in ParseOptionString" % len(bufs))
    bid = bufs[0]["declId"]

    def aff_(e):
        e = strip(e)
        c_ = cv(e)
        if c_ is not None and e["k"] != "DeclRefExpr":
            return {"": float(c_)} if c_ else {}
        if e["k"] == "BinaryOperator" and e.get("op") in ("+", "-"):
            a_, b_ = aff_(kids(e)[0]), aff_(kids(e)[1])
            out = dict(a_)
            for t_, v_ in b_.items():
                out[t_] = out.get(t_, 0.0) + (v_ if e["op"] == "+" else -v_)
            return {t_: v_ for t_, v_ in out.items() if v_}
        return {render(e).replace(" ", ""): 1.0}
    resz = [c for c in gb.walk() if c["k"] == "CXXMemberCallExpr" and (c.get("callee") or "").split("::")[-1] == "resize" and strip(call_object(c)).get("declId") == bid]
    subs = [n for n in gb.walk() if n["k"] == "CXXOperatorCallExpr" and n.get("op") == "[]" and strip(call_args(n)[0]).get("declId") == bid]
    writes = [n for n in subs if (gb.parent.get(n["i"]) or {}).get("k") == "BinaryOperator" and gb.parent[n["i"]].get("op") == "=" and kids(gb.parent[n["i"]])[0] is n]
    if not writes:
        raise AnalysisBroken("C11.B1: no element write into the name buffer")
    growers = [c for c in gb.walk() if c["k"] == "CXXMemberCallExpr" and (c.get("callee") or "").split("::")[-1] in ("append", "push_back", "reserve", "clear") and strip(call_object(c)).get("declId") == bid]
    for w in writes:
        idx = call_args(w)[1]
        ia = aff_(idx)
        dom = [r for r in resz if gb.cfg.dominates(r, w)]
        ok = False
        why = "no dominating resize()"
        if dom and not [g_ for g_ in growers if gb.cfg.before(dom[-1], g_) and gb.cfg.before(g_, w)]:
            size = aff_(call_args(dom[-1])[0])
            diff = dict(size)
            for t_, v_ in ia.items():
                diff[t_] = diff.get(t_, 0.0) - v_
            diff = {t_: v_ for t_, v_ in diff.items() if v_}
            if set(diff) <= {""} and diff.get("", 0.0) >= 1:
                ok = True                      # index = size - k, k >= 1
            else:
                # loop index bounded by a fact  i < N  with N <= size - 1 ... N < size
                for cid, pol in gb.cfg.facts_at(w):
                    cn = strip(gb.nodes[cid])
                    if pol and cn["k"] == "BinaryOperator" and cn.get("op") == "<" and aff_(kids(cn)[0]) == ia:
                        bound = aff_(kids(cn)[1])
                        d2 = dict(size)
                        for t_, v_ in bound.items():
                            d2[t_] = d2.get(t_, 0.0) - v_
                        d2 = {t_: v_ for t_, v_ in d2.items() if v_}
                        if set(d2) <= {""} and d2.get("", 0.0) >= 0:
                            ok = True
                why = "index %s is not shown to be below the size %s" % (render(idx), render(call_args(dom[-1])[0]))
        elif dom:
            why = "the buffer is changed again between resize() and the write"
        b1.check(ok, "write|%s" % render(idx).replace(" ", "")[:30], short_loc(w.get("l")), "name[%s] lies below the resized length" % render(idx),
                 "ParseOptionString writes name[%s]: %s - for names filling the buffer's capacity the terminating NUL lands one element past it" % (render(idx), why))

    parses = [c for c in g.walk() if c["k"] == "CXXMemberCallExpr" and
              c.get("callee", "").split("::")[-1] in ("Parse", "SetValue")]
    if not parses:
        raise AnalysisBroken("no SolverOption::Parse call in ParseOptionString")
    loop_head = [c for c in g.walk() if c["k"] == "CallExpr" and c.get("callee", "").endswith("SkipSpaces")]
    loop_head = sorted(loop_head, key=lambda c: c["i"])[:1]
    starts = []
    for c in g.walk():
        if c["k"] == "CXXMemberCallExpr" and c.get("callee", "").endswith("::HandleUnknownOption"):
            starts.append(("unknown-name", c))
        if c["k"] == "CXXMemberCallExpr" and c.get("callee", "").endswith("::ReportError"):
            starts.append(("value-for-flag", c))
    # name=? : the echo branch is the true branch of (flags & NO_OPTION_ECHO) == 0 under *s == '?'
    for n in g.walk():
        if n["k"] == "UnaryOperator" and n.get("op") == "++" and render(n) == "++s":
            fs = g.cfg.valid_facts_at(n) | g.cfg.facts_at(n)
            if any("'?'" in render(g.nodes[cid]) and pol is True for cid, pol in fs):
                starts.append(("name=?", n))
    kinds = {k for k, _ in starts}
    for need in ("unknown-name", "value-for-flag", "name=?"):
        if need not in kinds:
            p2.fail("path|%s" % need, short_loc(g.loc), "no %s path found in ParseOptionString" % need)
    for kind, c in starts:
        w = g.cfg.path_avoiding(g.cfg.position(c), [p["i"] for p in parses],
                                [x["i"] for x in loop_head])
        p2.check(w is None, "no-parse-after|%s" % kind, short_loc(c.get("l")),
                 "after the %s diagnosis no Parse/SetValue call is reachable before the next iteration" % kind,
                 "after the %s diagnosis a value parser is still reachable (blocks %s): the option "
                 "would change" % (kind, w))
    qtests = [n for n in g.walk() if n["k"] == "BinaryOperator" and n.get("op") == "==" and
              "'?'" in render(n)]
    # Parse calls: after the name=? test; opt non-null; under '=' not a flag
    for c in parses:
        p2.check(bool(qtests) and all(g.cfg.dominates(q, c) for q in qtests),
                 "parse-after-question-test|%d" % parses.index(c), short_loc(c.get("l")),
                 "the value parser runs only after the `?` test of the same iteration")
        fs = g.cfg.facts_at(c)
        nonnull = any(_atom_truth(g.nodes[cid], pol, lambda t: t == "opt") is True for cid, pol in fs)
        p2.check(nonnull, "parse-needs-known-option|%d" % parses.index(c), short_loc(c.get("l")),
                 "opt->Parse is reached only with a found option")
        eq = [pol for cid, pol in fs if render(g.nodes[cid]) == "equal_sign"]
        if eq and eq[0] is True:
            notflag = any(_atom_truth(g.nodes[cid], pol, lambda t: t.endswith("is_flag()")) is False
                          for cid, pol in fs)
            p2.check(notflag, "no-value-for-flag|%d" % parses.index(c), short_loc(c.get("l")),
                     "with '=' the value is parsed only for non-flag options")
    # error accounting
    re_ = [h for h in funcs if h.qn == "mp::BasicSolver::ReportError" and
           any(n["k"] == "BinaryOperator" and "has_errors_" in render(n) for n in h.walk())]
    okre = False
    for h in re_:
        st = [n for n in h.walk() if n["k"] == "BinaryOperator" and n.get("op") == "=" and
              strip(kids(n)[0]).get("name") == "has_errors_" and cv(kids(n)[1]) == 1]
        if st and h.cfg.path_avoiding(None, "exit", [st[0]["i"]], from_entry=True) is None:
            okre = True
    p2.check(okre, "ReportError-sets-has_errors_", "include/mp/solver-base.h",
             "ReportError stores has_errors_ = true on every path")
    hu = [h for h in funcs if h.qn == "mp::BasicSolver::HandleUnknownOption"]
    okhu = bool(hu) and all(
        (lambda cs: cs and h.cfg.path_avoiding(None, "exit", [c["i"] for c in cs], from_entry=True) is None)(
            [c for c in h.walk() if c["k"] == "CXXMemberCallExpr" and c.get("callee", "").endswith("::ReportError")])
        for h in hu)
    p2.check(okhu, "HandleUnknownOption-reports", "include/mp/solver-base.h",
             "HandleUnknownOption calls ReportError on every path")

    # ---- G1 -------------------------------------------------------------------------
    g1 = rep.rule("C11.G1", "GUARD",
                  "FindOption: exact name first; synonyms compared case-insensitively on both "
                  "strings; wildcards only when requested", floor=3)
    fo = [h for h in funcs if h.qn == "mp::SolverOptionManager::FindOption"]
    if not fo:
        raise AnalysisBroken("SolverOptionManager::FindOption not found")
    h = fo[0]
    find = [c for c in h.walk() if c["k"] == "CXXMemberCallExpr" and c.get("callee", "").endswith("::find")]
    wc = [c for c in h.walk() if c["k"] == "CXXMemberCallExpr" and c.get("callee", "").endswith("::wc_match")]
    loops = [n for n in h.walk() if n["k"] in ("ForStmt", "CXXForRangeStmt", "WhileStmt")]
    scan_calls = wc + [c for c in h.walk() if c["k"] == "CXXMemberCallExpr" and c.get("callee", "").endswith("::inline_synonyms")]
    g1.check(len(find) == 1 and loops and scan_calls and all(h.cfg.dominates(find[0], c) for c in scan_calls),
             "exact-name-first", short_loc(h.loc), "options_.find(name) precedes the synonym/wildcard scan")
    for c in wc:
        fs = h.cfg.facts_at(c)
        g1.check(any(render(h.nodes[cid]) == "wildcardvalues" and pol is True for cid, pol in fs),
                 "wildcard-on-request", short_loc(c.get("l")), "wc_match is consulted only if wildcardvalues")
    if not wc:
        g1.fail("wildcard-on-request", short_loc(h.loc), "wc_match call not found")
    lam = [x for x in funcs if x.qn.startswith("mp::SolverOptionManager::FindOption::") and x.d.get("isLambda")]
    okci = False
    for x in lam:
        for c in x.walk():
            if c["k"] == "CallExpr" and c.get("callee") in ("strcasecmp", "_stricmp"):
                a = [render(y) for y in call_args(c)]
                okci = ("name_str" in a[0] and "syn" in a[1]) or ("syn" in a[0] and "name_str" in a[1])
    g1.check(okci, "synonyms-case-insensitive", short_loc(h.loc),
             "synonyms are compared with strcasecmp(name, synonym)")

    # ---- T1 --------------------------------------------------------------------------
    t1 = rep.rule("C11.T1", "GUARD",
                  "OptionHelper<int>::Parse does not narrow the parsed long silently", floor=1)
    ip = [x for x in funcs if x.qn == "mp::internal::OptionHelper::Parse" and "<int>" in x.full]
    if not ip:
        raise AnalysisBroken("OptionHelper<int>::Parse not found")
    x = ip[0]
    for r in x.find(lambda n: n["k"] == "ReturnStmt"):
        e = kids(r)[0]
        narrow = [c for c in walk(e) if c["k"] in ("ImplicitCastExpr", "CStyleCastExpr", "CXXStaticCastExpr")
                  and c.get("ck") == "IntegralCast" and c.get("ct") == "int"
                  and strip(kids(c)[0], casts=False).get("ct") in ("long", "long long")]
        if not narrow:
            t1.ok("int-parse-return", short_loc(r.get("l")), "no long->int narrowing in the return")
            continue
        v = strip(kids(narrow[0])[0])
        fs = x.cfg.valid_facts_at(r)
        lo = hi = False
        for cid, pol in fs:
            c = strip(expand_locals(x, x.nodes[cid]))          # a one-line range predicate (FitsInInt(value)) is looked through
            while c is not None and c["k"] == "UnaryOperator" and c.get("op") == "!":
                c = strip(kids(c)[0])
            txt = render(c)
            if v.get("name") and v["name"] in txt and c["k"] == "BinaryOperator":
                if any(t in txt for t in ("INT_MAX", "2147483647", "max()")):
                    hi = True
                if any(t in txt for t in ("INT_MIN", "-2147483648", "-2147483647", "min()", "lowest()")):
                    lo = True
                if "||" in txt or "&&" in txt:
                    lo = lo or hi
                    hi = lo
        t1.check(lo and hi, "int-parse-return", short_loc(r.get("l")),
                 "the long->int conversion of `%s` is dominated by a range check" % render(v),
                 "`return %s` converts long to int with no range check: an integer value beyond "
                 "INT_MAX silently becomes a different number" % render(v))

    # ---- N1 --------------------------------------------------------------------------
    # which spellings a numeric value may have (sign, exponent, inf, out-of-range -> +-HUGE_VAL / range error) is the
    # grammar of the C library converter the helper hands the cursor to; the cursor must come back from the same call
    n1 = rep.rule("C11.N1", "WHO-MAY-CALL",
                  "a numeric option value is converted by the C library's strtod (real) / strtol base 10 (integer) applied to the "
                  "cursor, the cursor continues at the end pointer of that call and the result is the converted number", floor=6)
    for ty, conv, base in (("double", "strtod", None), ("int", "strtol", 10)):
        pf = [x for x in funcs if x.qn == "mp::internal::OptionHelper::Parse" and "<%s>" % ty in x.full and x.unit == "src/solver.cc"]
        if not pf:
            raise AnalysisBroken("OptionHelper<%s>::Parse not found" % ty)
        x = pf[0]
        cur = x.params[0]
        allconv = list(reach_calls(F, x, lambda c: c["k"] == "CallExpr" and re.match(r"^(std::)?(strto[a-z]+|ato[a-z]+|from_chars|sto[a-z]+|sscanf|__isoc99_sscanf)$", c.get("callee") or ""), 2))
        good = [t for t in allconv if re.match(r"^(std::)?%s$" % conv, t[1].get("callee") or "")]
        key = "%s-converter" % ty
        if len(good) != 1 or len(allconv) != 1:
            n1.fail(key, short_loc(x.loc), "OptionHelper<%s>::Parse converts the text with %s, expected exactly one call of %s"
                    % (ty, sorted({t[1].get("callee") for t in allconv}) or "no library converter", conv))
            n1.fail("%s-cursor" % ty, short_loc(x.loc), "no %s call whose end pointer the cursor could take" % conv)
            n1.fail("%s-result" % ty, short_loc(x.loc), "no %s call whose value could be returned" % conv)
            continue
        anchor, call, res, owner = good[0]
        a = call_args(call)
        a0 = strip(res(strip(a[0])))
        okarg = a0["k"] == "DeclRefExpr" and a0.get("declId") == cur["declId"]
        if base is not None:
            okarg = okarg and len(a) == 3 and cv(strip(a[2])) == base
        n1.check(okarg, key, short_loc(call.get("l")), "%s(%s%s) reads the text at the cursor" % (conv, cur["name"], ", &end, %d" % base if base else ", &end"),
                 "%s is applied to `%s`%s" % (conv, render(a0), "" if base is None else " with base `%s`" % render(a[2])))
        # the end pointer: the variable whose address is the second argument, in the terms of the function that makes the call
        # (Parse itself, or a helper Parse hands the cursor to by reference)
        a1 = strip(a[1])
        endd = None
        if a1["k"] == "UnaryOperator" and a1.get("op") == "&":
            e_ = strip(kids(a1)[0])
            if e_["k"] == "DeclRefExpr":
                endd = e_.get("declId")

        def is_cursor(lhs):
            """lhs (an expression of the calling function) denotes Parse's cursor"""
            l_ = strip(res(strip(lhs)))
            return l_["k"] == "DeclRefExpr" and l_.get("declId") == cur["declId"]
        asg = [n for g_ in ({owner.id: owner, x.id: x}).values() for n in g_.walk() if n["k"] == "BinaryOperator" and n.get("op") == "=" and
               (is_cursor(kids(n)[0]) if g_ is owner else (strip(kids(n)[0])["k"] == "DeclRefExpr" and strip(kids(n)[0]).get("declId") == cur["declId"]))]
        okasg = [n for n in asg if endd and strip(kids(n)[1])["k"] == "DeclRefExpr" and strip(kids(n)[1]).get("declId") == endd
                 and any(n.get("i") == m_.get("i") for m_ in owner.walk()) and owner.cfg.dominates(call, n)]
        direct = endd is not None and is_cursor(kids(a1)[0]) if a1["k"] == "UnaryOperator" else False     # strtod(s, const_cast<char**>(&s))
        rets_o = list(owner.find(lambda n: n["k"] == "ReturnStmt"))
        rets = list(x.find(lambda n: n["k"] == "ReturnStmt"))
        okc = direct and not asg or (len(asg) == len(okasg) and okasg and all(any(owner.cfg.dominates(n, r) for n in okasg) for r in rets_o)
                                     and (owner is x or all(x.cfg.dominates(anchor, r) for r in rets)))
        n1.check(bool(okc), "%s-cursor" % ty, short_loc(call.get("l")), "before every return the cursor is set to the end pointer of the %s call" % conv,
                 "the cursor `%s` is not (only) set to the end pointer of the %s call before every return" % (cur["name"], conv))

        def source(fn_, e):
            """the expression a returned value comes from: casts and locals written exactly once (initialiser or one assignment) are looked through"""
            e = strip(e)
            for _ in range(6):
                if e["k"] in ("CXXStaticCastExpr", "CStyleCastExpr", "CXXFunctionalCastExpr"):
                    e = strip(kids(e)[-1])
                elif e["k"] == "DeclRefExpr" and e.get("dk") == "Var":
                    vd = [v_ for v_ in fn_.walk() if v_["k"] == "VarDecl" and v_.get("declId") == e.get("declId")]
                    wr = [n for n in fn_.walk() if n["k"] in ("BinaryOperator", "CompoundAssignOperator", "UnaryOperator")
                          and (n.get("op") in ("=", "++", "--") or n["k"] == "CompoundAssignOperator")
                          and strip(kids(n)[0])["k"] == "DeclRefExpr" and strip(kids(n)[0]).get("declId") == e.get("declId")]
                    adr = [n for n in fn_.walk() if n["k"] == "UnaryOperator" and n.get("op") == "&" and strip(kids(n)[0]).get("declId") == e.get("declId")]
                    if len(vd) != 1 or adr:
                        break
                    if kids(vd[0]) and not wr:
                        e = strip(kids(vd[0])[0])
                    elif not kids(vd[0]) and len(wr) == 1 and wr[0]["k"] == "BinaryOperator" and wr[0].get("op") == "=":
                        e = strip(kids(wr[0])[1])
                    else:
                        break
                else:
                    break
            return e
        okr = bool(rets) and bool(rets_o)
        why = ""
        for fn_, rr_, tgt in ((owner, rets_o, call),) + (((x, rets, anchor),) if owner is not x else ()):
            for r in rr_:
                e = source(fn_, kids(r)[0]) if kids(r) else {"k": "none"}
                if e.get("i") != tgt.get("i"):
                    okr = False
                    why = "`return %s`" % (render(kids(r)[0]) if kids(r) else "")
        n1.check(okr, "%s-result" % ty, short_loc(call.get("l")), "the returned number is the value of the %s call" % conv,
                 "%s does not return the value of the %s call" % (why, conv))

    class _OOB(Exception):
        pass

    def _oob(a_):
        raise _OOB("reads offset %d, outside the text" % a_)

    def _v1():
        # ---- V1 --------------------------------------------------------------------------
        v1 = rep.rule("C11.V1", "RANGE", "a quoted string value is exactly the bytes between the quotes (closed) or up to the end of the "
                      "text (unterminated): case enumeration over (length, last byte is the quote)", floor=3)
        sq = [x for x in funcs if x.name == "SkipToMatchingQuote"]
        sp_ = [x for x in funcs if x.qn == "mp::internal::OptionHelper::Parse" and "string" in x.full and x.unit == "src/solver.cc"]
        if not sq or not sp_:
            raise AnalysisBroken("C11.V1: SkipToMatchingQuote / OptionHelper<std::string>::Parse not found")
        q = sq[0]
        par = q.params[0]["name"]
        # case evaluation on modelled texts (the pointer is an index into a NUL-terminated string)
        cases = [("'abc' x", 5), ('"a"', 3), ("'abc", 4), ("''", 2), ("'", 1), ('"it\'s" y', 6), ("'a\"b", 4)]
        wrong = []
        for text, want_pos in cases:
            buf = text + "\0"
            mi = MiniInt(F, lambda t_, n_, env_: None, mem=lambda a_, buf=buf: ord(buf[a_]) if 0 <= a_ < len(buf) else _oob(a_))
            try:
                got = mi.call(q, [0])
            except _OOB as e_:
                got = str(e_)
            except AnalysisBroken as e_:
                if "does not terminate" in str(e_):
                    got = "does not stop"
                else:
                    raise AnalysisBroken("C11.V1: SkipToMatchingQuote: %s" % e_)
            if got != want_pos:
                wrong.append((text, got, want_pos))
        okq = not wrong
        shape = wrong
        v1.check(okq, "scan-postcondition", short_loc(q.loc),
                 "SkipToMatchingQuote returns the position after the closing quote, or the end of the text if there is none (%d modelled texts)" % len(cases),
                 "SkipToMatchingQuote: (text, returned offset, expected) = %s" % shape)
        g = sp_[0]

        def parse_cases():
            """OptionHelper<std::string>::Parse on the modelled texts: the byte range of the returned value"""
            bad = []
            for text, want_pos in cases:
                buf = text + "\0"
                closed = want_pos >= 2 and text[want_pos - 1] == text[0]
                want = (1, want_pos - 1 if closed else want_pos)
                box = {}

                def atom(t_, n_, env_):
                    if n_["k"] in ("CXXConstructExpr", "CXXTemporaryObjectExpr") and "basic_string" in (n_.get("callee") or n_.get("ct") or ""):
                        a_ = [x for x in kids(n_) if x is not None and strip(x)["k"] != "CXXDefaultArgExpr"]
                        if len(a_) == 2:
                            b0 = box["mi"].expr(a_[0], env_, 0)
                            e0 = box["mi"].expr(a_[1], env_, 0)
                            ptr = "*" in (strip(a_[1]).get("ct") or strip(a_[1]).get("t") or "")
                            return b0 * 1000 + (e0 if ptr else b0 + e0)
                    return None
                mi = MiniInt(F, atom, mem=lambda a_, buf=buf: ord(buf[a_]) if 0 <= a_ < len(buf) else _oob(a_))
                box["mi"] = mi
                try:
                    got = mi.call(g, [0, 0])
                    got = (got // 1000, got % 1000) if isinstance(got, int) else got
                except _OOB as e_:
                    got = str(e_)
                except AnalysisBroken as e_:
                    raise AnalysisBroken("C11.V1: OptionHelper<std::string>::Parse: %s" % e_)
                if got != want:
                    bad.append("the value of `%s` is the bytes %s of the text, expected %s" % (text, got, want))
            return bad
        endv = [v_ for v_ in g.walk() if v_["k"] == "VarDecl" and v_.get("name") == "end" and kids(v_)]
        rets = [r_ for r_ in g.find(lambda n: n["k"] == "ReturnStmt") if endv and any(x.get("declId") == endv[0]["declId"] for x in walk(r_))]
        if len(endv) != 1 or len(rets) != 1:
            raise AnalysisBroken("C11.V1: the quoted branch of OptionHelper<std::string>::Parse is not `end = c ? a : b; return string(start+1, end)`")
        co = strip(kids(endv[0])[0])
        if co["k"] != "ConditionalOperator":
            # another way of computing the end: the returned [begin, end) is evaluated on the modelled texts instead
            bad = parse_cases()
            v1.check(not bad, "cut-form", short_loc(endv[0].get("l")), "value = [start+1, end) with end = the closing quote, or the end of an unterminated text", "; ".join(bad[:2]))
            v1.check(not bad, "cut-cases", short_loc(endv[0].get("l")), "%d modelled texts: the value is exactly the quoted bytes" % len(cases), "; ".join(bad[:2]))
            rep.extra["v1_cases"] = len(cases)
            return
        cnd, ea, eb = kids(co)
        cur = g.params[0]["name"]
        okshape = render(ea).replace(" ", "") == cur + "-1" and render(eb).replace(" ", "") == cur
        ra = [render(a).replace(" ", "") for x in walk(rets[0]) if x["k"] in ("CXXConstructExpr", "CXXTemporaryObjectExpr") and
              x.get("callee", "").startswith("std::basic_string") for a in kids(x)][:2]
        v1.check(okshape and ra == ["start+1", "end"], "cut-form", short_loc(endv[0].get("l")),
                 "value = [start+1, end) with end = closing ? s-1 : s", "end = %s ? %s : %s; returned string(%s)" % (render(cnd), render(ea), render(eb), ra))
        consts = [cv(x) for x in walk(cnd) if x["k"] == "IntegerLiteral"]

        def evc(n, d, m):
            n = strip(n)
            r_ = render(n).replace(" ", "")
            if r_ == "%s-start" % cur:
                return d
            if r_ in ("%s[-1]==*start" % cur, "*start==%s[-1]" % cur, "%s[-1]==start[0]" % cur):
                return int(m)
            if n["k"] == "IntegerLiteral":
                return int(n["v"])
            if n["k"] == "BinaryOperator":
                a_, b_ = kids(n)
                op = n["op"]
                if op == "&&":
                    return int(bool(evc(a_, d, m)) and bool(evc(b_, d, m)))
                if op == "||":
                    return int(bool(evc(a_, d, m)) or bool(evc(b_, d, m)))
                x_, y_ = evc(a_, d, m), evc(b_, d, m)
                return {"<": int(x_ < y_), "<=": int(x_ <= y_), ">": int(x_ > y_), ">=": int(x_ >= y_), "==": int(x_ == y_), "!=": int(x_ != y_),
                        "-": x_ - y_, "+": x_ + y_}[op]
            if n["k"] == "UnaryOperator" and n.get("op") == "!":
                return int(not evc(kids(n)[0], d, m))
            raise AnalysisBroken("C11.V1: condition atom `%s` outside the fragment" % r_)
        bad = []
        top = max([c for c in consts if c is not None] + [2]) + 4
        for L in range(0, top):
            # closed: s - start = L + 2, last byte is the quote
            if not evc(cnd, L + 2, True):
                bad.append("a closed quoted value of length %d keeps its closing quote" % L)
            # unterminated: s - start = L + 1; the last byte is the (opening) quote only when L == 0
            if evc(cnd, L + 1, L == 0):
                bad.append("an unterminated quoted value of length %d loses its last byte" % L)
        v1.check(not bad, "cut-cases", short_loc(endv[0].get("l")), "%d (length, closed/unterminated) cases: the value is exactly the quoted bytes" % (2 * top),
                 "; ".join(bad[:2]))
        rep.extra["v1_cases"] = 2 * top

    try:
        _v1()
    except AnalysisBroken as ab:
        if any(not i_['ok'] for rl_ in rep.rules for i_ in rl_.instances):
            rep.extra['analysis_incomplete'] = str(ab)
        else:
            raise
    return rep


def _atom_truth(n, pol, pred):
    """Truth value of the atom selected by pred(rendered text) implied by condition
    n having polarity pol (negations unwrapped); None if n is not that atom."""
    n = strip(n)
    while n is not None and n["k"] == "UnaryOperator" and n.get("op") == "!":
        n = strip(kids(n)[0])
        pol = not pol
    if n is not None and pred(render(n)):
        return pol
    return None


def strip_first(loop):
    """first evaluated part of a for statement (its init / condition)"""
    ks = kids(loop)
    return ks[0] if ks else loop


def _is_string_range_arg(f, n):
    """s + k used as the begin of std::string(s + k, end): checked by S2."""
    for a in f.ancestors(n):
        if a["k"] in ("CXXConstructExpr", "CXXTemporaryObjectExpr") and "basic_string" in a.get("callee", ""):
            return True
        if a["k"] not in TRANSPARENT and a["k"] not in ("CXXFunctionalCastExpr",):
            return False
    return False


def _first_touch(f, node, decl):
    """node is the first use of cursor `decl` on every path from entry (so the
    needed fact can only come from the caller)."""
    for n in f.walk():
        if n["i"] == node["i"]:
            continue
        if n["k"] == "DeclRefExpr" and n.get("declId") == decl:
            par = f.parent.get(n["i"])
            # the operand of the advance itself
            if par is not None and par["i"] == node["i"]:
                continue
            if f.cfg.dominates(n, node) and f.cfg.position(n) != f.cfg.position(node):
                # an earlier read (e.g. `char quote = s[0]`) does not test for NUL
                anc = [a["k"] for a in f.ancestors(n)]
                if "IfStmt" in anc or "WhileStmt" in anc:
                    return False
    return True


# ---- S2: pointer offsets --------------------------------------------------------------
def cursor_summary(F, g):
    """Minimum number of increments between entry and any return of a cursor
    function (all writes to the cursor are increments and it returns the cursor)."""
    if g is None or g.cfg is None or not g.params or not is_cursor_type(g.params[0].get("ct")):
        return None
    p = g.params[0]["declId"]
    incs = set()
    for n in g.walk():
        if n["k"] == "UnaryOperator" and n.get("op") == "++" and strip(kids(n)[0]).get("declId") == p:
            incs.add(n["i"])
        elif n["k"] in ("BinaryOperator", "CompoundAssignOperator") and n.get("op", "").endswith("=") \
                and n.get("op") not in ("==", "!=", "<=", ">=") and strip(kids(n)[0]).get("declId") == p:
            return None          # other writes: no summary
    # returns: `return s`, `return ++s`, `return c ? s + 1 : s`
    def ret_extra(e):
        e = strip(e)
        if e["k"] == "DeclRefExpr" and e.get("declId") == p:
            return 0
        if e["k"] == "UnaryOperator" and e.get("op") == "++" and strip(kids(e)[0]).get("declId") == p:
            return 0             # counted as an increment element
        if e["k"] == "BinaryOperator" and e.get("op") == "+" and strip(kids(e)[0]).get("declId") == p \
                and (cv(kids(e)[1]) or -1) >= 0:
            return cv(kids(e)[1])
        if e["k"] == "ConditionalOperator":
            a, b = ret_extra(kids(e)[1]), ret_extra(kids(e)[2])
            return None if a is None or b is None else min(a, b)
        return None
    best = None
    cfg = g.cfg
    # shortest path (weight = increments) from entry to each return statement
    import heapq
    dist = {cfg.entry: 0}
    pq = [(0, cfg.entry)]
    while pq:
        d, b = heapq.heappop(pq)
        if d > dist.get(b, 1 << 30):
            continue
        w = sum(1 for e in cfg.blocks[b]["el"] if e in incs)
        for s in cfg.succs(b):
            nd = d + w
            if nd < dist.get(s, 1 << 30):
                dist[s] = nd
                heapq.heappush(pq, (nd, s))
    for r in g.find(lambda n: n["k"] == "ReturnStmt"):
        ex = ret_extra(kids(r)[0])
        if ex is None:
            return None
        pos = cfg.position(r)
        if pos is None or pos[0] not in dist:
            continue
        b = pos[0]
        within = sum(1 for e in cfg.blocks[b]["el"][:pos[1] + 1] if e in incs)
        tot = dist[b] + within + ex
        best = tot if best is None else min(best, tot)
    return best


def string_lengths(F, f, rule):
    """Abstractly executes OptionHelper<string>::Parse over pointer offsets."""
    cons0 = []
    env = {}
    fresh = [0]
    for p in f.params:
        if is_cursor_type(p.get("ct")):
            env[p["declId"]] = Lin.var("s0")
    results = []

    def ev(e, env, cons):
        e = strip(e)
        if e["k"] == "DeclRefExpr" and e.get("declId") in env:
            return env[e["declId"]]
        c = cv(e)
        if c is not None:
            return Lin.const(c)
        if e["k"] == "BinaryOperator" and e.get("op") in ("+", "-"):
            a, b = ev(kids(e)[0], env, cons), ev(kids(e)[1], env, cons)
            if a is None or b is None:
                return None
            return a + b if e["op"] == "+" else a - b
        if e["k"] == "CallExpr":
            g = F.by_id.get(e.get("calleeId"))
            k = cursor_summary(F, g)
            a = ev(call_args(e)[0], env, cons) if call_args(e) else None
            if k is not None and a is not None:
                fresh[0] += 1
                r = Lin.var("r%d" % fresh[0])
                cons.append(GE(r, a + k))
                return r
        return None

    def cond(e, env, cons, pol):
        """constraints implied by condition e being pol (best effort)."""
        e = strip(e)
        out = []
        if e["k"] == "BinaryOperator":
            op = e["op"]
            if op == "&&" and pol:
                return cond(kids(e)[0], env, cons, True) + cond(kids(e)[1], env, cons, True)
            if op == "||" and not pol:
                return cond(kids(e)[0], env, cons, False) + cond(kids(e)[1], env, cons, False)
            if op in ("<", "<=", ">", ">=", "==", "!="):
                a, b = ev(kids(e)[0], env, cons), ev(kids(e)[1], env, cons)
                if a is not None and b is not None:
                    m = {"<": LT, "<=": LE, ">": GT, ">=": GE}
                    neg = {"<": ">=", "<=": ">", ">": "<=", ">=": "<"}
                    if op in m:
                        o2 = op if pol else neg[op]
                        out.append(m[o2](a, b))
                    elif (op == "==") == pol:
                        out += [GE(a, b), LE(a, b)]
        return out

    def exec_stmt(n, env, cons):
        """returns list of (env, cons) continuing states"""
        if n is None:
            return [(env, cons)]
        k = n["k"]
        if k == "CompoundStmt":
            sts = [(env, cons)]
            for s in kids(n):
                nxt = []
                for (e2, c2) in sts:
                    nxt += exec_stmt(s, e2, c2)
                sts = nxt
            return sts
        if k == "DeclStmt":
            env = dict(env)
            cons = list(cons)
            for v in kids(n):
                if v["k"] == "VarDecl" and kids(v):
                    init = strip(kids(v)[0])
                    if init["k"] == "ConditionalOperator":
                        out = []
                        for pol, br in ((True, kids(init)[1]), (False, kids(init)[2])):
                            c2 = cons + cond(kids(init)[0], env, cons, pol)
                            val = ev(br, env, c2)
                            e2 = dict(env)
                            if val is not None:
                                e2[v["declId"]] = val
                            out.append((e2, c2))
                        return out
                    val = ev(init, env, cons)
                    if val is not None:
                        env[v["declId"]] = val
            return [(env, cons)]
        if k == "IfStmt":
            ks = kids(n)
            out = []
            out += exec_stmt(ks[1], dict(env), cons + cond(ks[0], env, cons, True))
            if len(ks) > 2:
                out += exec_stmt(ks[2], dict(env), cons + cond(ks[0], env, cons, False))
            else:
                out.append((dict(env), cons + cond(ks[0], env, cons, False)))
            return out
        if k in ("BinaryOperator",) and n.get("op") == "=":
            t = strip(kids(n)[0])
            cons = list(cons)
            val = ev(kids(n)[1], env, cons)
            env = dict(env)
            if t["k"] == "DeclRefExpr" and val is not None:
                env[t["declId"]] = val
            elif t["k"] == "DeclRefExpr":
                env.pop(t["declId"], None)
            return [(env, cons)]
        if k == "ReturnStmt":
            cons = list(cons)
            for c in walk(n):
                if c["k"] in ("CXXConstructExpr", "CXXTemporaryObjectExpr") and "basic_string" in c.get("callee", ""):
                    a = kids(c)
                    a = [x for x in a if x["k"] != "CXXDefaultArgExpr"]
                    if len(a) == 2:
                        p0 = ev(a[0], env, cons)
                        second_is_ptr = is_cursor_type(strip(a[1], casts=False).get("ct")) or \
                            is_cursor_type(strip(a[1]).get("ct"))
                        v1 = ev(a[1], env, cons)
                        if p0 is None or v1 is None:
                            results.append((c, None, "operands not expressible as cursor offsets"))
                        elif second_is_ptr:
                            results.append((c, entails(cons, GE(v1, p0)), "%r >= %r" % (v1, p0)))
                        else:
                            results.append((c, entails(cons, GE(v1, Lin.const(0))), "%r >= 0" % (v1,)))
            return []
        return [(env, cons)]

    exec_stmt(f.body, env, cons0)
    by = {}
    for c, ok, txt in results:
        by.setdefault(c["i"], []).append((c, ok, txt))
    for i, lst in by.items():
        c = lst[0][0]
        allok = all(ok for _, ok, _ in lst)
        rule.check(allok, "mp::internal::OptionHelper<std::string>::Parse|%s" % render(c)[:60],
                   short_loc(c.get("l")),
                   "length of `%s` is non-negative on all %d path(s): %s" % (
                       render(c)[:70], len(lst), "; ".join(t for _, _, t in lst)),
                   "length of `%s` can be negative (%s not entailed): std::string would be built "
                   "with a huge size or read before the cut" % (
                       render(c)[:70], "; ".join(t for _, ok, t in lst if not ok)))
