"""C18 - expression equality is a structural equivalence consistent with hashing.

D1 static resolution of the visitor dispatch chain for every expr::Kind in both
   ExprComparator and ExprHasher (every kind the factory can build reaches a
   real handler in both; handled sets equal);
T1 field coverage: each comparator handler reads every data member of the
   expression's Impl on both operands; the hasher reads only compared members;
T2 symmetry: every cross comparison applies the same accessor chain to both;
T3 reflexivity: no built-in floating == / != in the comparator;
S1 string loops stop at the NUL; mp::Equal tests kind() first.
"""
import re
from ..cfg import MiniInt, norm_facts, Facts, kids, strip, walk, cv, render, short_loc, call_args, TRANSPARENT
from ..facts import export_many, AnalysisBroken
from .. import units

LEVEL = "proof"
TECHNIQUE = ("static analysis: resolved CRTP dispatch-chain enumeration over all expression "
             "kinds, accessor-to-field coverage tables extracted from the type-checked AST, "
             "operand-symmetry and floating-comparison rules on the comparator handlers")
LEVEL_TEXT = ("The kind set and the handler set are finite and enumerated completely from the "
              "instantiated visitors; reflexivity/symmetry/transitivity and hash consistency then "
              "follow by structural induction from: same accessor on both operands, symmetric "
              "reflexive transitive leaf comparisons, every Impl member compared, hasher reads a "
              "subset of the compared members."
              "  Also decided (added after the seeded rounds): strings are compared by content, not by address; called functions are compared by the identity of their handles.")
LEVEL_NOTE = ("Trusted: clang 14 front end, tool/mpx.cc, the rule module. std::hash<T> of the leaf "
              "types and strcmp are assumed to be functions of the compared value.")
DESIGN_REF = "DESIGN.md section 4, C18"
EXPLANATION = (
    "Decides: (D1) for every expr::Kind between FIRST_EXPR and LAST_EXPR the statically resolved "
    "dispatch chain of BasicExprVisitor::Visit ends in a handler declared in ExprComparator and "
    "in one declared in ExprHasher (no kind ends in VisitUnsupported); (T1) every comparator "
    "handler instantiation reads all data members of the expression's Impl record on the stored "
    "operand and on the parameter, and the hasher's handler for the same kinds reads only members "
    "the comparator compares; (T2) every comparison between the two operands uses the identical "
    "accessor chain on both sides with a symmetric operator (==, !=, Equal, strcmp); (T3) no "
    "built-in floating-point ==/!= occurs in the comparator (NaN would break reflexivity); "
    "(S1) character loops test the terminating NUL; mp::Equal compares kind() before dispatch.")
ASSUMPTIONS = ["std::hash of int/double/pointer/char and std::strcmp/memcmp depend only on the "
               "compared value", "factory invariants (non-null children) as asserted by the factory"]
TRUSTED = ["clang 14 front end", "tool/mpx.cc", "mpsa/rules/C18.py"]

VISITORS = {"cmp": "(anon)::ExprComparator", "hash": "(anon)::ExprHasher"}
EXPR_CLASSES = r"mp::(NumericConstant|Reference|BasicUnaryExpr|BasicBinaryExpr|BasicIfExpr|PLTerm|CallExpr|BasicIteratedExpr|LogicalConstant|LogicalCountExpr|StringLiteral|Function|BasicExpr|ExprBase)"
SYMM_OPS = ("==", "!=")
SYMM_CALLS = ("mp::Equal", "strcmp", "std::strcmp", "memcmp", "std::memcmp")


def impl_fields_read(F, f, memo, depth=0):
    """Impl data members read by function f (directly or through accessors)."""
    if f.id in memo:
        return memo[f.id]
    memo[f.id] = set()
    out = set()
    for n in f.walk():
        if n["k"] == "MemberExpr" and n.get("dk") == "Field" and "::Impl::" in n.get("qn", ""):
            out.add(n["qn"].split("::Impl::")[0].split("::")[-1] + "::Impl::" + n["name"])
        if n["k"] in ("CXXMemberCallExpr", "CXXOperatorCallExpr", "CallExpr", "CXXConstructExpr") and depth < 4:
            g = F.by_id.get(n.get("calleeId"))
            if g is not None and re.match(EXPR_CLASSES + r"::|mp::internal::ExprIterator::", g.qn):
                out |= impl_fields_read(F, g, memo, depth + 1)
    memo[f.id] = out
    return out


class Handler:
    """Operand-side analysis of one handler instantiation."""

    def __init__(self, F, f, stored_member="expr_"):
        self.F, self.f = F, f
        self.param = f.params[0]["declId"] if f.params else None
        self.stored_member = stored_member
        self.local_init = {}
        for n in f.walk():
            if n["k"] == "VarDecl" and kids(n):
                self.local_init[n["declId"]] = kids(n)[0]

    def norm(self, n, depth=0):
        """(sides, text): operand sides reached and the accessor chain with the
        root replaced by $; Cast<>() and handle conversions are identities."""
        if n is None or depth > 12:
            return set(), "?"
        k = n["k"]
        ks = kids(n)
        if k in TRANSPARENT and len(ks) == 1:
            return self.norm(ks[0], depth)
        if k == "CXXDefaultArgExpr":
            return set(), ""
        if k == "DeclRefExpr":
            d = n.get("declId")
            if d == self.param:
                return {"P"}, "$"
            if d in self.local_init:
                return self.norm(self.local_init[d], depth + 1)
            if "cv" in n:
                return set(), str(n["cv"])
            return set(), n.get("name", "?")
        if k == "MemberExpr":
            if n.get("name") == self.stored_member:
                return {"S"}, "$"
            s, t = self.norm(ks[0], depth) if ks else (set(), "this")
            return s, "%s.%s" % (t, n.get("name"))
        if k in ("CXXConstructExpr", "CXXTemporaryObjectExpr", "CXXFunctionalCastExpr",
                 "CStyleCastExpr", "CXXStaticCastExpr"):
            real = [x for x in ks if x["k"] != "CXXDefaultArgExpr"]
            if len(real) == 1:
                return self.norm(real[0], depth)     # conversion between expression handles
        if k == "CallExpr" and n.get("callee") in ("mp::Cast", "mp::internal::UncheckedCast", "mp::UncheckedCast"):
            return self.norm(call_args(n)[0], depth)
        if k == "CXXMemberCallExpr":
            me = strip(ks[0])
            s, t = self.norm(kids(me)[0], depth) if kids(me) else (set(), "this")
            args = [self.norm(a, depth) for a in ks[1:]]
            # the operand side of an accessor chain is that of its receiver; index
            # arguments are part of the chain text only
            return s, "%s.%s(%s)" % (t, me.get("name"), ",".join(a[1] for a in args))
        if k == "CXXOperatorCallExpr":
            args = [self.norm(a, depth) for a in ks[1:]]
            s = set()
            for a in args:
                s |= a[0]
            return s, "op%s(%s)" % (n.get("op"), ",".join(a[1] for a in args))
        if k in ("IntegerLiteral", "FloatingLiteral", "CXXBoolLiteralExpr"):
            return set(), str(n.get("v"))
        if k in ("BinaryOperator",):
            a, b = self.norm(ks[0], depth), self.norm(ks[1], depth)
            return a[0] | b[0], "(%s%s%s)" % (a[1], n.get("op"), b[1])
        if k == "UnaryOperator":
            a = self.norm(ks[0], depth)
            return a[0], "%s%s" % (n.get("op"), a[1])
        if k == "CallExpr":
            args = [self.norm(a, depth) for a in ks[1:]]
            s = set()
            for a in args:
                s |= a[0]
            return s, "%s(%s)" % (n.get("callee"), ",".join(a[1] for a in args))
        return set(), k

    def side_of(self, n):
        return self.norm(n)[0]

    def fields_by_side(self, memo):
        """Impl members read per operand side (through accessor calls)."""
        out = {"P": set(), "S": set()}
        for n in self.f.walk():
            if n["k"] in ("CXXMemberCallExpr", "CXXOperatorCallExpr"):
                g = self.F.by_id.get(n.get("calleeId"))
                if g is None or not re.match(EXPR_CLASSES + r"::|mp::internal::ExprIterator::", g.qn):
                    continue
                if n["k"] == "CXXMemberCallExpr":
                    me = strip(kids(n)[0])
                    sides = self.side_of(kids(me)[0]) if kids(me) else set()
                else:
                    sides = self.side_of(call_args(n)[0]) if call_args(n) else set()
                fr = impl_fields_read(self.F, g, memo)
                for s in sides:
                    out[s] |= fr
        return out

    def maximal_chains(self, side="P"):
        """Normalised accessor chains on one operand that are not the receiver of a
        longer chain (what the handler actually consumes)."""
        inner = set()
        chains = {}
        for n in self.f.walk():
            if n["k"] in ("CXXMemberCallExpr", "CXXOperatorCallExpr"):
                g = self.F.by_id.get(n.get("calleeId"))
                if g is None or not re.match(EXPR_CLASSES + r"::|mp::internal::ExprIterator::", g.qn):
                    continue
                if n["k"] == "CXXOperatorCallExpr" and n.get("op") != "*":
                    continue
                sd, txt = self.norm(n)
                if sd != {side}:
                    continue
                chains[n["i"]] = txt
                if n["k"] == "CXXOperatorCallExpr":
                    rc = strip(call_args(n)[0])
                    # the iterator variable's initialiser chain ($.begin()) is consumed
                    if rc is not None and rc["k"] == "DeclRefExpr" and rc.get("declId") in self.local_init:
                        li = strip(self.local_init[rc["declId"]])
                        while li is not None and li["k"] in ("CXXConstructExpr",) and len(kids(li)) == 1:
                            li = strip(kids(li)[0])
                        if li is not None and li["k"] == "CXXMemberCallExpr":
                            inner.add(li["i"])
                    continue
                me = strip(kids(n)[0])
                rc = strip(kids(me)[0]) if kids(me) else None
                while rc is not None and rc["k"] in ("CallExpr",) and rc.get("callee") in ("mp::Cast",):
                    rc = strip(call_args(rc)[0])
                if rc is not None and rc["k"] == "CXXMemberCallExpr":
                    inner.add(rc["i"])
        # locals initialised from a chain and used as receivers make that chain inner
        out = set()
        for i, t in chains.items():
            if i in inner:
                continue
            out.add(t)
        # drop chains that are a proper prefix of another chain (consumed through a local)
        return {t for t in out if not any(o != t and o.startswith(t + ".") for o in out)}

    def cross_comparisons(self):
        """(node, op, lhs-norm, rhs-norm) for comparisons involving both sides."""
        out = []
        for n in self.f.walk():
            a = b = None
            if n["k"] == "BinaryOperator" and n.get("op") in ("==", "!=", "<", ">", "<=", ">="):
                a, b = kids(n)
                op = n["op"]
            elif n["k"] == "CXXOperatorCallExpr" and n.get("op") in ("==", "!=", "<", ">", "<=", ">="):
                a, b = call_args(n)[:2]
                op = n["op"]
            elif n["k"] == "CallExpr" and n.get("callee") in SYMM_CALLS + ("strncmp", "std::strncmp"):
                a, b = call_args(n)[:2]
                op = n["callee"]
            elif n["k"] == "CallExpr" and len(call_args(n)) == 2 and \
                    symmetric_helper(self.F, self.F.by_id.get(n.get("calleeId"))):
                a, b = call_args(n)[:2]
                op = "mp::Equal"          # a verified symmetric, reflexive helper
            if a is None:
                continue
            na, nb = self.norm(a), self.norm(b)
            if (na[0] == {"P", "S"} and not nb[0]) or (nb[0] == {"P", "S"} and not na[0]):
                continue      # test of the result of a two-sided call (strcmp(..) != 0)
            sides = na[0] | nb[0]
            if sides == {"P", "S"} or (na[0] and nb[0] and na[0] != nb[0]):
                out.append((n, op, na, nb))
            elif len(na[0]) == 1 and na[0] == nb[0] and n["k"] == "CallExpr" and op == "mp::Equal":
                out.append((n, op, na, nb))       # Equal(x, x'): same-side comparison is a bug
        return out


def run(rep, ctx):
    repo = ctx["repo"]
    fn = [r"mp::BasicExprVisitor::.*", r"\(anon\)::ExprComparator::.*", r"\(anon\)::ExprHasher::.*",
          r"mp::Equal", EXPR_CLASSES + r"::.*", r"mp::internal::ExprIterator::.*",
          r"std::hash::operator\(\)", r"\(anon\)::[A-Za-z_0-9]+", r"mp::Function::(operator(==|!=)|[A-Za-z_]+)"]
    jobs = [dict(unit="src/expr.cc", repo=repo, fn=fn, enum=[r"mp::expr::Kind"],
                 rec=[r"mp::.*::Impl", r"\(anon\)::Expr(Comparator|Hasher)"])]
    res = export_many(jobs)
    F = Facts(res)
    F.by_id = {}
    for f in F.funcs:
        if not f.is_dependent():
            F.by_id.setdefault(f.id, f)
    rep.note_units(["src/expr.cc"])
    rep.note_funcs(f for f in F.funcs if not f.is_dependent())
    kinds = F.enum_values("mp::expr::Kind")
    if not kinds:
        raise AnalysisBroken("enum mp::expr::Kind not found")
    first, last = kinds["FIRST_EXPR"], kinds["LAST_EXPR"]
    real_kinds = {}
    for n, v in kinds.items():
        if first <= v <= last and not n.startswith(("FIRST_", "LAST_")):
            real_kinds.setdefault(v, n)
    if len(real_kinds) != last - first + 1:
        raise AnalysisBroken("expr::Kind values in [FIRST_EXPR, LAST_EXPR] are not all named")

    # ---- D1 ----------------------------------------------------------------------
    d1 = rep.rule("C18.D1", "DISPATCH",
                  "every expression kind reaches a handler declared in ExprComparator and one "
                  "declared in ExprHasher (static resolution of the MP_DISPATCH chain)", floor=120)
    handlers = {"cmp": {}, "hash": {}}
    for vk, vname in VISITORS.items():
        vis = [f for f in F.funcs if f.qn == "mp::BasicExprVisitor::Visit" and not f.is_dependent()
               and vname.replace("(anon)", "(anonymous namespace)") in f.full]
        if len(vis) != 1:
            raise AnalysisBroken("instantiation of BasicExprVisitor::Visit for %s not found (%d)" % (vname, len(vis)))
        V = vis[0]
        cases = {}
        for n in V.walk():
            if n["k"] == "CaseStmt":
                val = cv(kids(n)[0])
                sub = kids(n)[-1]
                call = first_call(sub)
                if val is not None and call is not None:
                    cases[val] = call
        for v, kname in sorted(real_kinds.items()):
            c = cases.get(v)
            if c is None:
                d1.fail("%s|%s" % (vk, kname), short_loc(V.loc), "kind %s has no case in Visit" % kname)
                continue
            chain, target = resolve_chain(F, c, vname)
            if target is None:
                d1.fail("%s|%s" % (vk, kname), short_loc(c.get("l")),
                        "%s: dispatch chain %s ends in VisitUnsupported: %s throws UnsupportedError "
                        "for an expression the factory can build" % (
                            kname, " -> ".join(chain), "Equal" if vk == "cmp" else "hash"))
            else:
                handlers[vk][kname] = target
                d1.ok("%s|%s" % (vk, kname), short_loc(c.get("l")),
                      "%s: %s" % (kname, " -> ".join(chain)))

    # ---- T1 / T2 / T3 ---------------------------------------------------------------
    t1 = rep.rule("C18.T1", "TABLE",
                  "comparator handlers read every Impl member on both operands; hasher handlers "
                  "read only compared members", floor=25)
    t2 = rep.rule("C18.T2", "TABLE",
                  "every comparison between the operands applies the same accessor chain to both "
                  "with a symmetric operator", floor=20)
    t3 = rep.rule("C18.T3", "GUARD",
                  "no built-in floating-point ==/!= in comparator handlers (reflexivity for NaN)",
                  floor=2)
    memo = {}
    impl_fields = {}
    for full, r in F.records.items():
        if r["qn"].endswith("::Impl") and not r.get("dependent"):
            cls = r["qn"].split("::")[-2]
            fs = {"%s::Impl::%s" % (cls, x["name"]) for x in r["fields"]}
            impl_fields.setdefault(cls, set()).update(fs)
    cmp_fields = {}
    seen = set()
    for kname, h in sorted(handlers["cmp"].items()):
        if h.id in seen:
            continue
        seen.add(h.id)
        H = Handler(F, h)
        # follow forwarding handlers (VisitSum -> VisitVarArg) to the body that compares
        body = forwarded(F, h)
        HB = Handler(F, body)
        fb = HB.fields_by_side(memo)
        cls = expr_class_of(body)
        want = set(impl_fields.get(cls, set()))
        key = short_name(h)
        if not want:
            raise AnalysisBroken("no Impl record for expression class %s (%s)" % (cls, body.full))
        for side, label in (("P", "parameter"), ("S", "stored operand")):
            missing = sorted(want - fb[side])
            t1.check(not missing, "cmp|%s|%s" % (key, label), short_loc(body.loc),
                     "%s reads %s of the %s" % (short_name(body), sorted(x.split("::")[-1] for x in want), label),
                     "%s never reads %s of the %s: trees differing only there compare equal"
                     % (short_name(body), [x.split("::")[-1] for x in missing], label))
        cmp_fields[h.id] = fb["P"] & fb["S"]
        cc = HB.cross_comparisons()
        if not cc:
            t2.fail("cmp|%s|has-comparisons" % key, short_loc(body.loc), "no comparison between the operands")
        seen_cmp = set()
        for n, op, na, nb in cc:
            sym = na[1] == nb[1] and na[0] != nb[0] and len(na[0]) == 1 and len(nb[0]) == 1
            okop = op in SYMM_OPS or op in SYMM_CALLS
            k2 = "cmp|%s|%s" % (key, na[1])
            if k2 in seen_cmp:
                k2 += "|%s" % nb[1]
            seen_cmp.add(k2)
            t2.check(sym and okop, k2, short_loc(n.get("l")),
                     "%s: `%s` compares %s on both operands with %s" % (short_name(body), render(n)[:80], na[1], op),
                     "%s: `%s` compares %s(%s) with %s(%s) using %s" % (
                         short_name(body), render(n)[:100], na[1], "/".join(sorted(na[0])), nb[1],
                         "/".join(sorted(nb[0])), op))
        for n in body.walk():
            if n["k"] == "BinaryOperator" and n.get("op") in ("==", "!="):
                ts = [strip(x, casts=False).get("ct", "") for x in kids(n)]
                if all(("char *" in t or "char*" in t) for t in ts) and len(ts) == 2:
                    # ==/!= on two character pointers compares addresses: two separately built, identical strings differ
                    t2.fail("cmp|%s|%s|by-address" % (key, HB.norm(kids(n)[0])[1]), short_loc(n.get("l")),
                            "%s: `%s` compares the addresses of two strings, not their characters: structurally identical trees compare "
                            "unequal (while their hashes agree)" % (short_name(body), render(n)[:80]))
                if any(t in ("double", "float", "long double") for t in ts):
                    t3.fail("cmp|%s|%s" % (key, HB.norm(kids(n)[0])[1]), short_loc(n.get("l")),
                            "%s: built-in `%s` on floating operands: Equal(e, e) is false when the "
                            "constant is NaN" % (short_name(body), render(n)[:80]))
    # T3 positive bookkeeping: floating leaves are compared somehow
    for kname in ("NUMBER", "PLTERM"):
        h = handlers["cmp"].get(kname)
        if h is None:
            continue
        body = forwarded(F, h)
        fl = [n for n in body.walk() if n["k"] in ("CallExpr", "CXXMemberCallExpr") and n.get("ct") in ("double",)]
        key = "cmp|%s|floating-leaves-compared" % short_name(h)
        if not any(i["key"].startswith("cmp|%s|" % short_name(h)) for i in t3.instances):
            t3.ok(key, short_loc(body.loc), "%d floating accessor reads, none compared with built-in ==/!=" % len(fl))

    seen = set()
    for kname, h in sorted(handlers["hash"].items()):
        if h.id in seen:
            continue
        seen.add(h.id)
        body = forwarded(F, h)
        HB = Handler(F, body, stored_member="\0none")
        cls = expr_class_of(body)
        fb = {x for x in HB.fields_by_side(memo)["P"] if x.startswith(cls + "::Impl::")}
        want = set(impl_fields.get(cls, set()))
        ch = handlers["cmp"].get(kname)
        compared = cmp_fields.get(ch.id, set()) if ch is not None else want
        extra = sorted(fb - compared) if ch is not None else []
        missing = sorted(want - fb)
        # hashing fewer members is weaker but consistent: only members that are
        # hashed and not compared break "equal => same hash"
        t1.check(not extra, "hash|%s" % short_name(h), short_loc(body.loc),
                 "%s hashes %s (all compared)%s" % (short_name(body), sorted(x.split("::")[-1] for x in fb),
                                                    (", does not hash %s" % [x.split("::")[-1] for x in missing]) if missing else ""),
                 "%s: %s%s" % (short_name(body),
                               ("hashes %s that the comparator does not compare (equal trees may hash differently); "
                                % [x.split("::")[-1] for x in extra]) if extra else "",
                               ("does not hash %s" % [x.split("::")[-1] for x in missing]) if missing else ""))

    # ---- T4 sibling agreement -----------------------------------------------------------
    t4 = rep.rule("C18.T4", "TABLE",
                  "sibling agreement: for every kind every accessor chain the hasher hashes is compared "
                  "by the comparator", floor=15)
    seen = set()
    for kname in sorted(handlers["cmp"]):
        hc, hh = handlers["cmp"].get(kname), handlers["hash"].get(kname)
        if hc is None or hh is None or (hc.id, hh.id) in seen:
            continue
        seen.add((hc.id, hh.id))
        bc, bh = forwarded(F, hc), forwarded(F, hh)
        cc = {na[1] for n, op, na, nb in Handler(F, bc).cross_comparisons()}
        hh_ = Handler(F, bh, stored_member="\0none").maximal_chains("P")
        cc = {normalise_chain(x) for x in cc}
        hh_ = {normalise_chain(x) for x in hh_}
        only_c = sorted(cc - hh_ - T4_CMP_ONLY.get(short_base(bc), set()))
        only_h = sorted(hh_ - cc - T4_HASH_ONLY.get(short_base(bh), set()))
        t4.check(not only_h, "%s~%s" % (short_name(hc), short_name(hh)), short_loc(bc.loc),
                 "%s: both read %s%s" % (kname, sorted(cc & hh_),
                                         (" (compared but not hashed: %s)" % only_c) if only_c else ""),
                 "%s: the hasher hashes %s which the comparator does not compare: trees that compare "
                 "equal can hash differently (and differ in a part Equal ignores)" % (kname, only_h))

    # ---- C1: unchecked casts of the other operand's parts need an established kind agreement ------
    c1 = rep.rule("C18.C1", "GUARD", "a part of the other expression is cast to a concrete type only where its kind is known to agree (or the cast is null-tested)", floor=2)
    for f in F.funcs:
        if f.is_dependent() or f.cfg is None or "ExprComparator::" not in f.qn:
            continue
        for c in f.walk():
            if c["k"] != "CallExpr" or not (c.get("callee") or "").endswith("::Cast") and (c.get("callee") or "") != "mp::Cast":
                continue
            a = call_args(c)
            if not a:
                continue
            x = strip(a[0])
            while x["k"] in ("CXXConstructExpr", "MaterializeTemporaryExpr", "CXXBindTemporaryExpr", "ImplicitCastExpr") and len(kids(x)) >= 1:
                x = strip(kids(x)[0])
            xt = render(x).replace("this->", "")
            if xt == "expr_" or x["k"] != "DeclRefExpr":
                continue           # the visited expression itself: mp::Equal compared the kinds (S1); nested calls are typed accessors
            # null-tested: the cast initialises the condition variable of an if, or is an operand of !
            par = f.parent.get(c["i"])
            tested = False
            q = par
            while q is not None and q["k"] in ("ImplicitCastExpr", "CXXConstructExpr", "ExprWithCleanups", "MaterializeTemporaryExpr", "CXXBindTemporaryExpr"):
                q = f.parent.get(q["i"])
            if q is not None and q["k"] == "VarDecl":
                owner = f.parent.get(q["i"])
                while owner is not None and owner["k"] == "DeclStmt":
                    owner = f.parent.get(owner["i"])
                if owner is not None and owner["k"] == "IfStmt":
                    tested = True
                else:
                    # a local that is null-tested before every use
                    uses = [u for u in f.walk() if u["k"] == "DeclRefExpr" and u.get("declId") == q.get("declId")]
                    tested = bool(uses) and all(any(strip(f.nodes[cid]).get("declId") == q.get("declId") or
                                                    (strip(f.nodes[cid])["k"] == "UnaryOperator" and strip(kids(strip(f.nodes[cid]))[0]).get("declId") == q.get("declId"))
                                                    for cid, pol in f.cfg.facts_at(u)) or
                                                (f.parent.get(u["i"]) or {}).get("k") == "UnaryOperator" for u in uses)
            agree = False
            for cid, pol in f.cfg.facts_at(c):
                t_ = render(f.nodes[cid]).replace(" ", "")
                if (xt + ".kind()") in t_ and (("!=" in t_ and pol is False) or ("==" in t_ and pol is True)):
                    agree = True
            c1.check(tested or agree, "%s|Cast(%s)|%s" % (f.qn.split("::")[-1], xt, (c.get("calleeFull") or "").split("<")[-1].rstrip(">")[:30]), short_loc(c.get("l")),
                     "%s: Cast of `%s` is %s" % (f.qn.split("::")[-1], xt, "null-tested" if tested else "made under an established kind agreement"),
                     "%s casts `%s` to %s without knowing its kind: for operands of different kinds the cast yields a null expression whose members are then read (memory error instead of `false`)" %
                     (f.qn.split("::")[-1], xt, (c.get("calleeFull") or "").split("<")[-1].rstrip(">")))

    # ---- F1: called functions are compared by identity ---------------------------------------------------------
    # VisitCall compares the two function handles with Function::operator!=; the hasher hashes the address of the function's name,
    # which is one per function object: equality must be the identity of the objects (two functions may carry the same name)
    f1 = rep.rule("C18.F1", "TABLE", "Function::operator== / != compare the identity of the two function objects and nothing else "
                  "(evaluation on 9 pairs of handles incl. null)", floor=2)
    fops = {}
    for f in F.funcs:
        if f.qn in ("mp::Function::operator==", "mp::Function::operator!=") and not f.is_dependent() and f.cfg is not None:
            fops.setdefault(f.qn.split("operator")[-1], f)
    if set(fops) != {"==", "!="}:
        raise AnalysisBroken("C18.F1: Function::operator== / != not found")
    struct_failed = set()
    for op_, f in sorted(fops.items(), key=lambda kv: kv[0] != "=="):
        via = [c for c in f.walk() if c["k"] == "CXXOperatorCallExpr" and (c.get("callee") or "").split("operator")[-1] in struct_failed]
        if via:
            f1.fail("function-identity|%s" % op_, short_loc(f.loc), "Function::operator%s is defined through operator%s, which does not compare identity" % (op_, sorted(struct_failed)[0]))
            continue
        # the operator's own body and the bodies of the private helpers of Function it calls
        bodies, todo = [], [f]
        while todo:
            g_ = todo.pop()
            if any(g_ is b_ for b_ in bodies):
                continue
            bodies.append(g_)
            for c in g_.walk():
                if c["k"] == "CXXMemberCallExpr" and (c.get("callee") or "").startswith("mp::Function::"):
                    h_ = getattr(F, "_by_id", {}).get(c.get("calleeId")) or F.by_id.get(c.get("calleeId"))
                    if h_ is not None and h_.cfg is not None:
                        todo.append(h_)
        own = {b_.id for b_ in bodies}
        foreign = [c for b_ in bodies for c in b_.walk() if (c["k"] == "CallExpr") or (c["k"] == "CXXMemberCallExpr" and c.get("calleeId") not in own) or
                   (c["k"] == "CXXOperatorCallExpr" and not (c.get("callee") or "").startswith("mp::Function::operator"))]
        helper_names = {b_.name for b_ in bodies}
        members = [m for b_ in bodies for m in b_.walk() if m["k"] == "MemberExpr" and m.get("name") != "impl_" and m.get("name") not in helper_names]
        if foreign or members:
            what = sorted({(c.get("callee") or render(c))[:40] for c in foreign} | {"member " + (m.get("name") or "?") for m in members})
            f1.fail("function-identity|%s" % op_, short_loc(f.loc), "Function::operator%s reads %s: two distinct function objects can compare equal (their hashes, taken "
                    "from the objects' own name addresses, differ) or one object unequal to itself" % (op_, what))
            struct_failed.add(op_)
            continue
        bad = []
        for a_ in (0, 1, 2):
            for b_ in (0, 1, 2):
                box = {}

                def atom(t_, n_, env_, a_=a_, b_=b_):
                    if n_["k"] == "MemberExpr" and n_.get("name") == "impl_":
                        base = strip(kids(n_)[0]) if kids(n_) else None
                        return a_ if base is None or base["k"] == "CXXThisExpr" else b_
                    if n_["k"] == "CXXOperatorCallExpr" and (n_.get("callee") or "").startswith("mp::Function::operator"):
                        g_ = fops.get((n_.get("callee") or "").split("operator")[-1])
                        args = call_args(n_)
                        swapped = strip(args[0])["k"] != "UnaryOperator" and not any(x["k"] == "CXXThisExpr" for x in walk(args[0]))
                        sub = MiniInt(F, lambda t2, n2, e2: atom(t2, n2, e2, a_=b_ if swapped else a_, b_=a_ if swapped else b_))
                        return sub.call(g_, [("obj", None, None)]) if g_ is not None else None
                    if n_["k"] in ("CXXThisExpr",):
                        return 1
                    return None
                mi = MiniInt(F, atom)
                try:
                    got = mi.call(f, [("obj", None, None)])
                except AnalysisBroken as e_:
                    raise AnalysisBroken("C18.F1: Function::operator%s: %s" % (op_, e_))
                want = int((a_ == b_) == (op_ == "=="))
                if int(bool(got)) != want:
                    bad.append("handles (%d, %d): %s" % (a_, b_, bool(got)))
        f1.check(not bad, "function-identity|%s" % op_, short_loc(f.loc), "operator%s is %s of the two impl_ pointers on 9 pairs" % (op_, "equality" if op_ == "==" else "inequality"),
                 "Function::operator%s: %s" % (op_, "; ".join(bad[:3])))

    # ---- S1 ------------------------------------------------------------------------
    s1 = rep.rule("C18.S1", "SCAN",
                  "character loops stop at the NUL; mp::Equal compares kind() before dispatching",
                  floor=2)
    for vname in VISITORS.values():
        for f in F.funcs:
            if f.is_dependent() or not f.qn.startswith(vname + "::"):
                continue
            for lp in f.find(lambda n: n["k"] in ("ForStmt", "WhileStmt", "DoStmt")):
                # characters read through a `const char *` inside the loop (pointer walk `*p` or index walk `p[i]`)
                def char_reads(root):
                    out = []
                    for x in walk(root):
                        base = None
                        if x["k"] == "UnaryOperator" and x.get("op") == "*":
                            base = strip(kids(x)[0])
                        elif x["k"] == "ArraySubscriptExpr":
                            base = strip(kids(x)[0])
                        if base is not None and base["k"] == "DeclRefExpr" and (base.get("ct") or "").replace("const ", "").strip() == "char *":
                            out.append((base.get("declId"), base.get("name")))
                    return out
                reads = char_reads(lp)
                if not reads:
                    continue
                ks = lp.get("c", [])
                cond = (ks[2] if len(ks) > 2 else None) if lp["k"] == "ForStmt" else (kids(lp)[-1] if lp["k"] == "DoStmt" else kids(lp)[0])
                tested = {d for d, _ in char_reads(cond)} if cond is not None else set()
                for d_, nm_ in sorted(set(reads)):
                    s1.check(d_ in tested, "%s|loop-on-%s" % (f.qn, nm_), short_loc(lp.get("l")),
                             "loop reading characters through `%s` tests the current character in its condition" % nm_)
    eq = [f for f in F.by_qn("mp::Equal") if f.cfg]
    if not eq:
        raise AnalysisBroken("mp::Equal not found")
    E = eq[0]
    vis = [n for n in E.walk() if n["k"] == "CXXMemberCallExpr" and n.get("callee", "").endswith("::Visit")]
    ok = False
    for v in vis:
        for t_, pol in norm_facts(E, v, canon=True):
            if pol is True and "==" in t_ and t_.count("kind()") == 2:
                ok = True
    s1.check(ok and len(vis) == 1, "mp::Equal|kind-first", short_loc(E.loc),
             "ExprComparator(e1).Visit(e2) is reached only when e1.kind() == e2.kind()")
    return rep


def symmetric_helper(F, g):
    """g(a, b) with two parameters of the same type whose body is a single
    return of a symmetric, NaN-reflexive comparison of a and b:
    memcmp(&a, &b, sizeof) == 0 (bitwise) or == on non-floating operands."""
    if g is None or len(g.params) != 2 or g.params[0]["ct"] != g.params[1]["ct"]:
        return False
    memo = F.__dict__.setdefault("_symm_memo", {})
    if g.id in memo:
        return memo[g.id]
    ok = False
    body = g.body
    st = kids(body) if body else []
    if len(st) == 1 and st[0]["k"] == "ReturnStmt":
        e = strip(kids(st[0])[0])
        pa, pb = g.params[0]["declId"], g.params[1]["declId"]

        def is_addr(x, d):
            x = strip(x)
            if x["k"] in ("CStyleCastExpr", "CXXStaticCastExpr", "CXXReinterpretCastExpr") and kids(x):
                x = strip(kids(x)[0])
            return x["k"] == "UnaryOperator" and x.get("op") == "&" and strip(kids(x)[0]).get("declId") == d
        if e["k"] == "BinaryOperator" and e.get("op") == "==":
            l, r = strip(kids(e)[0]), strip(kids(e)[1])
            if cv(l) == 0 and cv(r) != 0:
                l, r = r, l                    # 0 == memcmp(...)
            if l["k"] == "CallExpr" and l.get("callee") in ("memcmp", "std::memcmp") and cv(r) == 0:
                a = call_args(l)
                ok = (is_addr(a[0], pa) and is_addr(a[1], pb)) or (is_addr(a[0], pb) and is_addr(a[1], pa))
            elif l["k"] == "CallExpr" and l.get("callee") in ("strcmp", "std::strcmp") and cv(r) == 0:
                a = [strip(x).get("declId") for x in call_args(l)]
                ok = sorted(a) == sorted([pa, pb])        # string contents compared: symmetric and reflexive
            elif l.get("declId") in (pa, pb) and r.get("declId") in (pa, pb) and l.get("declId") != r.get("declId"):
                ok = g.params[0]["ct"].replace("const ", "") not in ("double", "float", "long double")
    memo[g.id] = ok
    return ok


# frozen exceptions of the sibling rule, each read and justified:
T4_CMP_ONLY = {
    # the comparator checks the kind of each call argument before choosing
    # Equal / strcmp; the hasher dispatches on the argument (kind is hashed there)
    "ExprComparator::VisitCall": {"$.arg(0).kind()", "$.arg(0).value()"},
    # iterator-based comparison also compares the lengths implicitly (j == jend)
}
T4_HASH_ONLY = {
    # function identity: the comparator compares Function handles (impl pointers),
    # the hasher hashes the address of the name stored in the same Impl
    "ExprHasher::VisitVarArg": {"$.end()"},
}


def normalise_chain(t):
    t = t.replace("$.function().name()", "$.function()")   # name address identifies the function
    t = re.sub(r"op\*\((.*)\)$", r"\1[*]", t)
    t = re.sub(r"\.arg\([^)]*\)", ".arg(0)", t)
    return t


def short_base(f):
    return f.full.replace("(anonymous namespace)::", "").split("<")[0]


def first_call(n):
    for x in walk(n):
        if x["k"] == "CXXMemberCallExpr":
            return x
    return None


def resolve_chain(F, call, impl_name, depth=0):
    """Follow Visit* calls through BasicExprVisitor defaults until a method
    declared in Impl (returns it) or VisitUnsupported (None)."""
    chain = []
    cur = call
    for _ in range(12):
        name = cur.get("callee", "?")
        chain.append(name.split("::")[-1])
        g = F.by_id.get(cur.get("calleeId"))
        if name.endswith("::VisitUnsupported"):
            return chain, None
        if g is None:
            raise AnalysisBroken("dispatch target %s has no body" % name)
        if g.qn.startswith(impl_name + "::"):
            return chain, g
        nxt = None
        for x in g.walk():
            if x["k"] == "CXXMemberCallExpr" and x.get("callee", "").split("::")[-1].startswith("Visit"):
                nxt = x
                break
        if nxt is None:
            raise AnalysisBroken("default %s does not forward" % g.full)
        cur = nxt
    raise AnalysisBroken("dispatch chain too long")


def forwarded(F, h):
    """VisitSum(e) { return VisitVarArg(e); } -> the VisitVarArg instantiation."""
    cur = h
    for _ in range(4):
        body = cur.body
        stmts = kids(body) if body else []
        if len(stmts) == 1 and stmts[0]["k"] == "ReturnStmt":
            e = strip(kids(stmts[0])[0])
            if e["k"] == "CXXMemberCallExpr" and e.get("callee", "").split("::")[-1].startswith("Visit") \
                    and e.get("calleeRec") == cur.rec:
                g = F.by_id.get(e.get("calleeId"))
                if g is not None:
                    cur = g
                    continue
        break
    return cur


def expr_class_of(f):
    t = f.params[0]["ct"] if f.params else ""
    m = re.match(r"(?:const )?mp::(\w+)", t)
    return m.group(1) if m else t


def short_name(f):
    t = expr_class_of(f)
    full = f.full.replace("(anonymous namespace)::", "")
    base = full.split("<")[0]
    ks = re.findall(r"mp::expr::(\w+)", full)
    return "%s(%s%s)" % (base, t, ("," + ",".join(ks)) if ks else "")
