"""C20 - the exported reformulation graph is well-formed and complete (structural clauses).

W1 who may write to the graph file / hand constraints to the model API (call graph);
L1 line discipline of every record emitter: one MiniJSONWriter object per line, closed
   before the "\\n", nothing else written to the line buffer;
F1 every write of the JSON writer to its formatter is punctuation, an escaped string
   or a scalar; E1 the escaping function maps every byte value to a valid JSON string
   fragment (all 256 values evaluated on the function's AST);
F2 scalar instantiations are numeric and floating values are made finite;
Y1 writer protocol table (Close/Ensure*/operators); Y2/Y3 node typestate in client code;
P1 one final status record per stored constraint, delivered <=> final;
P2 creation records (constraints, variables, objectives, NL items);
P3 lazily exported link entries are flushed before the file is closed.
"""
import re, hashlib
from ..cfg import MiniInt, call_object, loop_shape, norm_facts, xrender, expand_locals, reach_calls, Facts, kids, strip, walk, cv, render, call_args, call_object, switch_sections
from ..cfg import short_loc as _short_loc
from ..facts import export, export_many, AnalysisBroken

LEVEL = "other"
TECHNIQUE = ("static analysis: call-graph who-may-call rules, line-discipline and typestate rules over "
             "the AST/CFG of every record emitter and WriteJSON instantiation, a protocol table for the "
             "JSON writer, exhaustive per-byte evaluation of the escaping function's AST against the "
             "JSON string grammar, guard/path rules on the status, creation and link-flush sites")
LEVEL_TEXT = ("Structural well-formedness is decided for every emitter and every instantiation: each "
              "line is one closed top-level dictionary, strings and keys pass through an escaping "
              "function that is valid for all 256 byte values, floating scalars are clamped to finite "
              "values, each stored constraint gets exactly one status record whose 'final' flag is the "
              "condition under which it was handed to the model API, every insertion of a variable, "
              "objective, constraint or NL item is followed by its record, and pending link entries are "
              "flushed after the last producer and before the file is closed, the items of a static link record pair "
              "node k with entry position k.  That index ranges in "
              "link records lie inside the item-class sizes is a run-time quantity and is not decided."
              "  Also decided (added after the seeded rounds): the export file is truncated when it is opened.")
LEVEL_NOTE = ("Trusted: clang 14 front end/CFG, tool/mpx.cc, the rule module (incl. the small evaluator "
              "of the escaping function), fmt's handling of '{}' placeholders.")
DESIGN_REF = "DESIGN.md section 4, C20"
EXPLANATION = (
    "Decides on the visitor flat-converter unit (all 67 constraint keepers instantiated), src/std_constr.cc "
    "and src/utils_file.cc: (W1) only the enumerated emitters append to the graph file or construct a "
    "top-level JSON writer, only ConstraintKeeper::AddAllUnbridged hands constraints to the model API, and "
    "the status export is reached exactly once per keeper from FinishModelInput; (L1) every emitter writes "
    "to its line buffer only through one top-level MiniJSONWriter dictionary whose scope ends before the "
    "single \"\\n\", then appends the buffer; (F1) every formatter write inside MiniJSONWriter is JSON "
    "punctuation, a quoted EscapeString(...) or the scalar path; (E1) EscapeString, evaluated on its AST "
    "for each of the 256 byte values, emits a valid JSON escape for '\"', '\\\\' and control characters and "
    "the byte itself otherwise; (F2) DoWriteScalar is instantiated only for bool/integer/floating types and "
    "floating values are clamped to [lowest, max]; (Y1) Close/Ensure*/operator[]/++/= follow the protocol "
    "table, Close is idempotent and runs in the destructor; (Y2/Y3) no client uses a parent node while a "
    "named child is open, and no node variable is used both as dictionary and as array or assigned twice; "
    "(P1) in every AddAllUnbridged instantiation ExportConStatus runs once per container on every path with "
    "add2final = adding = !IsBridged(), and AddConstraint/AddEntry run exactly under `adding`; (P2) each "
    "growth of cons_/var arrays/objs_ is followed by the matching Export* of the new index and the NL item "
    "loops export index i before converting it; (P3) FinishExportingLinkEntries precedes Close of the file, "
    "after PushModelTo, and ValuePresolverImpl::Add flushes before appending a new range.")
ASSUMPTIONS = ["runs that fail with an exception during conversion are outside the statement",
               "names are byte strings; bytes >= 0x80 are passed through unchanged (valid UTF-8 assumed from AMPL)",
               "NaN is excluded by the property's quantifier (NaN-free numbers)"]
TRUSTED = ["clang 14 front end + CFG builder", "tool/mpx.cc", "mpsa/rules/C20.py", "fmt '{}' formatting of "
           "int/double/std::string arguments"]

U = "solvers/visitor/visitor-modelapi-connect.cc"
JW = "mp::MiniJSONWriter"
APPENDS = ("mp::BasicLogger::Append", "mp::BasicFileAppender::Append")
STRUCT = set("[]{},: ")


_REPO = ["/repo"]


def short_loc(l):
    """repo-relative file:line also for scratch copies"""
    return _short_loc((l or "").replace(_REPO[0].rstrip("/") + "/", "/repo/"))


def decl_uses(f, did):
    return [n for n in f.walk() if n["k"] == "DeclRefExpr" and n.get("declId") == did]


def stmt_in_compound(f, n):
    """(statement, compound): the ancestor-or-self of n that is a direct child of a CompoundStmt."""
    cur = n
    for a in f.ancestors(n):
        if a["k"] == "CompoundStmt":
            return cur, a
        cur = a
    return cur, None


def range_for(lp):
    """(range init expr, loop variable VarDecl, body) of a CXXForRangeStmt"""
    lk = lp.get("c", [])
    decls = [x for x in lk[:-1] if x is not None and x["k"] == "DeclStmt"]
    if len(decls) < 4 - 1 or lk[-1] is None:
        raise AnalysisBroken("range-for layout not recognised at %s" % lp.get("l"))
    rng = kids(kids(decls[0])[0])[0]
    return rng, kids(decls[-1])[0], lk[-1]


def whole_loop(f, l, member=None):
    """the loop visits every element of a container once: a range-for (over `member` if given), or a counting loop
    for (i = 0; i < C.size(); ++i) whose variable is stepped by the loop only"""
    if l["k"] == "CXXForRangeStmt":
        return member is None or member in render(range_for(l)[0])
    sh = loop_shape(f, l)
    if sh is None or sh["dir"] != "up" or not sh["stepped"] or sh["rel"] not in ("<", "!=") or sh["start"] in (None, "continues") or cv(sh["start"]) != 0:
        return False
    b = xrender(f, sh["bound"], True).replace(" ", "").replace("(int)", "").replace("(size_t)", "").replace("this->", "")
    return b.endswith(".size()") and (member is None or b == member + ".size()")


def is_jw_type(t):
    return t is not None and t.replace("const ", "").startswith(JW + "<") and not t.rstrip().endswith("&") \
        and not t.rstrip().endswith("*")


def fmt_parts(s):
    """split an fmt format string into ('t', text) and ('p',) parts; only '{}' placeholders"""
    out, i, cur = [], 0, ""
    while i < len(s):
        c = s[i]
        if c == "{":
            if s[i:i + 2] == "{{":
                cur += "{"; i += 2; continue
            if s[i:i + 2] == "{}":
                if cur:
                    out.append(("t", cur)); cur = ""
                out.append(("p",)); i += 2; continue
            raise AnalysisBroken("C20.F1: format string %r uses a placeholder form outside the fragment" % s)
        if c == "}":
            if s[i:i + 2] == "}}":
                cur += "}"; i += 2; continue
            raise AnalysisBroken("C20.F1: stray '}' in format string %r" % s)
        cur += c; i += 1
    if cur:
        out.append(("t", cur))
    return out


# ---------------------------------------------------------------------------------
class EscEval:
    """Evaluates the per-character body of the escaping function for one byte value."""

    def __init__(self, f, cvar, result_decl, F=None):
        self.f, self.cvar, self.res = f, cvar, result_decl
        self.arrays = {}
        self.F = F                # for helpers called from the body (a lookup function, a predicate)
        self.depth = 0

    class _Ret(Exception):
        def __init__(self, v):
            self.v = v

    def val(self, n, env):
        n = strip(n)
        k = n["k"]
        if k in ("IntegerLiteral", "CharacterLiteral"):
            return int(n["v"])
        if "cv" in n and k != "DeclRefExpr":
            try:
                return int(n["cv"])
            except ValueError:
                pass
        if k == "StringLiteral":
            return n.get("v", "")             # a pointer to literal text
        if k in ("CXXNullPtrLiteralExpr", "GNUNullExpr"):
            return 0
        if k == "InitListExpr":
            return [self.val(x, env) for x in kids(n)]
        if k == "MemberExpr" and "fi" in n and kids(n):
            b = self.val(kids(n)[0], env)
            if isinstance(b, list) and 0 <= int(n["fi"]) < len(b):
                return b[int(n["fi"])]
            raise AnalysisBroken("C20.E1: member %s of a value that is no aggregate" % n.get("name"))
        if k == "DeclRefExpr":
            if n.get("declId") in env:
                return env[n["declId"]]
            if n.get("declId") in self.arrays:
                return self.arrays[n["declId"]]
            raise AnalysisBroken("C20.E1: read of %s outside the fragment" % n.get("name"))
        if k in ("CallExpr", "CXXMemberCallExpr") and self.F is not None and self.depth < 3:
            g = getattr(self.F, "_by_id", {}).get(n.get("calleeId"))
            if g is not None and g.body is not None and g.cfg is not None:
                env2 = {p_["declId"]: self.val(a_, env) for p_, a_ in zip(g.params, call_args(n))}
                self.depth += 1
                try:
                    self.run([g.body], env2, [])
                except EscEval._Ret as r_:
                    return r_.v
                finally:
                    self.depth -= 1
                raise AnalysisBroken("C20.E1: %s ends without returning a value" % g.name)
        if k in ("CStyleCastExpr", "CXXStaticCastExpr", "CXXFunctionalCastExpr"):
            v = self.val(kids(n)[0], env)
            t = n.get("ct", n.get("t", ""))
            if t in ("char", "unsigned char", "signed char"):
                return v & 0xff
            return v
        if k == "BinaryOperator":
            a, b = kids(n)
            op = n["op"]
            if op == "&&":
                return int(bool(self.val(a, env)) and bool(self.val(b, env)))
            if op == "||":
                return int(bool(self.val(a, env)) or bool(self.val(b, env)))
            x, y = self.val(a, env), self.val(b, env)
            try:
                return {"+": x + y, "-": x - y, "*": x * y, ">>": x >> y if y >= 0 else None,
                        "<<": x << y if 0 <= y < 31 else None,
                        "&": x & y, "|": x | y, "^": x ^ y, "/": x // y if y else None, "%": x % y if y else None,
                        "==": int(x == y), "!=": int(x != y), "<": int(x < y), "<=": int(x <= y),
                        ">": int(x > y), ">=": int(x >= y)}[op]
            except KeyError:
                raise AnalysisBroken("C20.E1: operator %s outside the fragment" % op)
        if k == "UnaryOperator" and n.get("op") == "!":
            return int(not self.val(kids(n)[0], env))
        if k == "ConditionalOperator":
            c, a, b = kids(n)
            return self.val(a, env) if self.val(c, env) else self.val(b, env)
        if k == "ArraySubscriptExpr":
            base, idx = kids(n)
            b = strip(base)
            if b["k"] == "DeclRefExpr" and b.get("declId") in self.arrays:
                s = self.arrays[b["declId"]]
                i = self.val(idx, env)
                if i is None or not (0 <= i < len(s)):
                    raise AnalysisBroken("C20.E1: index %s outside the table %r" % (i, s))
                return ord(s[i])
            if b["k"] == "StringLiteral":
                s = b.get("v", "")
                i = self.val(idx, env)
                if i is None or not (0 <= i < len(s)):
                    raise AnalysisBroken("C20.E1: index %s outside the literal %r" % (i, s))
                return ord(s[i])
            bv = self.val(base, env)
            if isinstance(bv, (list, str)):
                i = self.val(idx, env)
                if i is None or not (0 <= i < len(bv)):
                    raise AnalysisBroken("C20.E1: index %s outside the table %r" % (i, bv))
                return ord(bv[i]) if isinstance(bv, str) else bv[i]
        if k == "CallExpr" and n.get("callee", "").split("::")[-1] in ("iscntrl",):
            v = self.val(call_args(n)[0], env)
            return int(v < 0x20 or v == 0x7f)
        raise AnalysisBroken("C20.E1: expression %s (%s) outside the fragment" % (render(n), k))

    def emit(self, n, env, out):
        """string-producing operand appended to the result"""
        a = strip(n)
        if a["k"] == "StringLiteral":
            out.extend(ord(ch) & 0xff for ch in a.get("v", ""))
        else:
            v = self.val(a, env)
            if v is None or isinstance(v, list):
                raise AnalysisBroken("C20.E1: unknown character value appended")
            if isinstance(v, str):
                out.extend(ord(ch) & 0xff for ch in v)       # text reached through a pointer
            else:
                out.append(v & 0xff)

    def run(self, stmts, env, out):
        """returns 'break' / 'continue' / None"""
        for s in stmts:
            if s is None:
                continue
            k = s["k"]
            if k == "CompoundStmt":
                r = self.run(kids(s), env, out)
                if r:
                    return r
            elif k in ("NullStmt",):
                continue
            elif k == "BreakStmt":
                return "break"
            elif k == "ContinueStmt":
                return "continue"
            elif k == "DeclStmt":
                for v in kids(s):
                    init = strip(kids(v)[0]) if kids(v) else None
                    if init is not None and init["k"] == "StringLiteral":
                        self.arrays[v["declId"]] = init.get("v", "")
                    elif init is not None:
                        env[v["declId"]] = self.val(init, env)
            elif k == "ReturnStmt":
                raise EscEval._Ret(self.val(kids(s)[0], env) if kids(s) else None)
            elif k == "CXXForRangeStmt":
                rng_, var_, body_ = range_for(s)
                seq_ = self.val(rng_, env)
                if not isinstance(seq_, (list, str)):
                    raise AnalysisBroken("C20.E1: range-for over %s" % render(rng_)[:40])
                for el_ in seq_:
                    env[var_["declId"]] = ord(el_) if isinstance(seq_, str) else el_
                    r = self.run([body_], env, out)
                    if r == "break":
                        break
            elif k == "IfStmt":
                ks = s.get("c", [])
                ks = [x for x in ks if x is not None]
                if ks and ks[0]["k"] == "DeclStmt":
                    # if (T v = e): the declared variable is the condition
                    self.run([ks[0]], env, out)
                    ks = ks[1:]
                c = self.val(ks[0], env)
                br = ks[1] if c else (ks[2] if len(ks) > 2 else None)
                if br is not None:
                    r = self.run([br], env, out)
                    if r:
                        return r
            elif k == "SwitchStmt":
                v = self.val(kids(s)[0], env)
                secs = switch_sections(s)
                seq = secs.get(v, secs.get("default", []))
                r = self.run(seq, env, out)
                if r == "continue":
                    return r
            elif k in ("ExprWithCleanups",):
                r = self.run(kids(s), env, out)
                if r:
                    return r
            elif k == "CXXOperatorCallExpr" and s.get("op") == "+=":
                tgt = strip(call_args(s)[0])
                if tgt.get("declId") != self.res:
                    raise AnalysisBroken("C20.E1: += on %s" % render(tgt))
                self.emit(call_args(s)[1], env, out)
            elif k == "CXXMemberCallExpr" and s.get("callee", "").split("::")[-1] in ("push_back", "append"):
                from ..cfg import call_object
                tgt = strip(call_object(s))
                if tgt.get("declId") != self.res:
                    raise AnalysisBroken("C20.E1: %s on %s" % (s.get("callee"), render(tgt)))
                args = call_args(s)
                if len(args) != 1:
                    raise AnalysisBroken("C20.E1: %s with %d arguments" % (s.get("callee"), len(args)))
                self.emit(args[0], env, out)
            else:
                raise AnalysisBroken("C20.E1: statement %s (%s) outside the fragment" % (k, render(s)[:60]))
        return None


def json_fragment_ok(c, out):
    """is `out` (list of byte values) a valid JSON-string rendering of the single input byte c?"""
    s = bytes(out)
    short = {0x08: b"\\b", 0x0c: b"\\f", 0x0a: b"\\n", 0x0d: b"\\r", 0x09: b"\\t",
             0x22: b'\\"', 0x5c: b"\\\\", 0x2f: b"\\/"}
    if c in short and s == short[c]:
        return True
    if c < 0x80 and re.fullmatch(rb"\\u[0-9a-fA-F]{4}", s) and int(s[2:], 16) == c:
        return True
    if c >= 0x20 and c not in (0x22, 0x5c) and s == bytes([c]):
        return True
    return False


# ---------------------------------------------------------------------------------
def run(rep, ctx):
    repo = ctx["repo"]
    _REPO[0] = repo
    cgd = export(U, callgraph=True, repo=repo)
    cg = cgd["callgraph"]
    callers = {}           # callee qn -> {caller qn}
    callee_ids = {}
    for fn_ in cg:
        for c in fn_["callees"]:
            p = c.split("\t")
            callers.setdefault(p[1], set()).add(fn_["qn"])
            callee_ids.setdefault(p[1], set()).add(p[0])

    emit_qns = set()
    for q in APPENDS + (JW + "::MiniJSONWriter",):
        emit_qns |= callers.get(q, set())
    emit_qns = {q for q in emit_qns if not q.startswith(JW + "::") and q not in APPENDS}
    if len(emit_qns) < 8:
        raise AnalysisBroken("only %d record emitters found in the call graph" % len(emit_qns))

    def rx(q):
        return re.sub(r"([\[\]().+*?^$|\\])", r"\\\1", q)
    fn = [JW + r"::.*", r"mp::WriteJSON",
          r"mp::ConstraintKeeper::(AddAllUnbridged|AddConstraint|AddUnbridgedToBackend)",
          r"mp::ConstraintManager::AddUnbridgedConstraintsToBackend",
          r"mp::FlatModel::(AddVar__basic|AddVars__basic|AddObjective|PushVariablesTo|PushModelTo|PushCustomConstraintsTo|PushObjectivesTo)",
          r"mp::FlatConverter::(CloseGraphExporter|OpenGraphExporter|FinishModelInput|StartModelInput)",
          r"mp::ProblemFlattener::(ConvertModel|ConvertStandardItems)",
          r"mp::pre::ValuePresolverImpl::(Add|ExportRemainingEntries|FinishExportingLinkEntries|WriteNodes|GetExport)",
          r"mp::pre::BasicStaticIndivEntryLink::FillEntryItems"]
    fn += [rx(q) for q in sorted(emit_qns)]
    jobs = [dict(unit=U, fn=fn, enum=[JW + "::Kind"], repo=repo),
            dict(unit="src/std_constr.cc", fn=[r"mp::WriteJSON", JW + r"::.*"], repo=repo),
            dict(unit="src/utils_file.cc", fn=[r"mp::FileAppender__fstream::.*"], repo=repo, closure=1, closure_roots=r"FileAppender__fstream::Open$")]
    F = Facts(export_many(jobs))
    rep.note_units([U, "src/std_constr.cc", "src/utils_file.cc"])
    funcs = [f for f in F.funcs if not f.is_dependent() and f.cfg is not None]
    rep.note_funcs(funcs)
    by_qn = {}
    for f in funcs:
        by_qn.setdefault(f.qn, []).append(f)

    def all_of(qn, need=True):
        c = by_qn.get(qn, [])
        if not c and need:
            raise AnalysisBroken("anchor %s not found" % qn)
        return c

    def one(qn, pred=lambda f: True):
        c = [f for f in all_of(qn) if pred(f)]
        if not c:
            raise AnalysisBroken("anchor %s not found" % qn)
        return c[0]

    def sname(f):
        return f.qn.replace("mp::", "")

    # ---- W1 ----------------------------------------------------------------------------
    w1 = rep.rule("C20.W1", "WHO", "only the enumerated emitters write to the graph file / construct a top-level "
                  "writer; only AddAllUnbridged hands constraints to the model API; status export reached once", floor=8)
    for q in sorted(emit_qns):
        fs = all_of(q, need=False)
        w1.check(bool(fs), "emitter-analysed|%s" % q.replace("mp::", ""), "", "emitter %s is analysed by L1 (%d instantiation(s))" % (q, len(fs)),
                 "function %s writes to the graph file but was not found among the analysed definitions" % q)
    aau = all_of("mp::ConstraintKeeper::AddAllUnbridged")
    api_add = set()
    for f in aau:
        for c in f.walk():
            if c["k"] == "CXXMemberCallExpr" and c.get("callee", "").endswith("::AddConstraint"):
                api_add.add(c["callee"])
    if not api_add:
        raise AnalysisBroken("no model-API AddConstraint call in AddAllUnbridged")
    for q in sorted(api_add):
        cs = callers.get(q, set()) - {q}
        w1.check(cs <= {"mp::ConstraintKeeper::AddAllUnbridged"}, "api-AddConstraint-callers|%s" % q.replace("mp::", ""), "",
                 "%s is called only from ConstraintKeeper::AddAllUnbridged" % q,
                 "%s is also called from %s: constraints reach the model API without a status record" %
                 (q, sorted(cs - {"mp::ConstraintKeeper::AddAllUnbridged"})))
    chain = [("mp::ConstraintKeeper::ExportConStatus", "mp::ConstraintKeeper::AddAllUnbridged"),
             ("mp::ConstraintKeeper::AddAllUnbridged", "mp::ConstraintKeeper::AddUnbridgedToBackend"),
             ("mp::BasicConstraintKeeper::AddUnbridgedToBackend", "mp::ConstraintManager::AddUnbridgedConstraintsToBackend"),
             ("mp::ConstraintManager::AddUnbridgedConstraintsToBackend", "mp::FlatModel::PushCustomConstraintsTo"),
             ("mp::FlatModel::PushCustomConstraintsTo", "mp::FlatModel::PushModelTo"),
             ("mp::FlatModel::PushModelTo", "mp::FlatConverter::FinishModelInput")]
    for callee, caller in chain:
        cs = callers.get(callee, set()) - {callee}
        ok = cs == {caller}
        detail = "%s is called only from %s" % (callee, caller)
        if ok:
            # exactly one call site, not inside a loop (except the loop over distinct keepers / containers)
            for f in all_of(caller):
                sites = [c for c in f.walk() if c["k"] in ("CXXMemberCallExpr", "CallExpr") and c.get("callee") == callee]
                if len(sites) != 1:
                    ok = False
                    detail = "%s calls %s %d times" % (f.full[:120], callee, len(sites))
                    break
                loops = [a for a in f.ancestors(sites[0]) if a["k"] in ("ForStmt", "WhileStmt", "DoStmt", "CXXForRangeStmt")]
                allowed = 1 if caller.endswith(("AddAllUnbridged", "AddUnbridgedConstraintsToBackend")) else 0
                if len(loops) != allowed or any(not whole_loop(f, l) for l in loops):
                    ok = False
                    detail = "%s calls %s inside %d loop(s)" % (f.full[:120], callee, len(loops))
                    break
                loopconds = set()
                for l in loops:
                    for c_ in l.get("c", [])[:-1]:
                        if c_ is not None:
                            loopconds |= {x["i"] for x in walk(c_)}
                conds = [(cid, pol) for cid, pol in f.cfg.facts_at(sites[0]) if cid not in loopconds]
                if conds:
                    ok = False
                    detail = "%s calls %s only under `%s%s`: items on the other branch get no final status record" % (
                        f.qn, callee.split("::")[-1], "" if conds[0][1] else "!", render(f.nodes[conds[0][0]])[:80])
                    break
        else:
            detail = "%s is called from %s (expected only %s)" % (callee, sorted(cs), caller)
        w1.check(ok, "once|%s" % callee.replace("mp::", ""), "", detail)
    # the loops of the two range-for callers iterate over the members that hold distinct items
    for qn, member in (("mp::ConstraintKeeper::AddAllUnbridged", "cons_"),
                       ("mp::ConstraintManager::AddUnbridgedConstraintsToBackend", "con_keepers_")):
        for f in all_of(qn)[:1]:
            lp = [n for n in f.walk() if n["k"] in ("CXXForRangeStmt", "ForStmt", "WhileStmt", "DoStmt")]
            w1.check(len(lp) == 1 and whole_loop(f, lp[0], member), "range|%s" % qn.split("::")[-1], short_loc(f.loc),
                     "the single loop ranges over %s" % member)

    # ---- L1 ----------------------------------------------------------------------------
    l1 = rep.rule("C20.L1", "TYPESTATE", "every emitter: line buffer written only by one top-level dictionary "
                  "writer whose scope ends before the single newline, then appended", floor=10)
    emitters = [f for q in sorted(emit_qns) for f in all_of(q, need=False)]
    top_nodes = []       # (f, jw VarDecl, scope compound)

    def finisher_param(g):
        """index of the line-buffer parameter if g does nothing but terminate the record and append it:
        { buf.write("\n"); logger->Append(buf); }"""
        if g is None or g.body is None:
            return None
        st_ = [x for x in kids(g.body) if x is not None and x["k"] != "NullStmt"]
        if len(st_) != 2:
            return None
        a_, b_ = strip(st_[0]), strip(st_[1])
        if a_["k"] != "CXXMemberCallExpr" or not (a_.get("callee") or "").endswith("::write") or b_["k"] != "CXXMemberCallExpr" or b_.get("callee") not in APPENDS:
            return None
        obj = strip(call_object(a_))
        lit = strip(call_args(a_)[0]) if len(call_args(a_)) == 1 else None
        while lit is not None and lit["k"] == "CXXConstructExpr" and kids(lit):
            lit = strip(kids(lit)[0])
        arg = strip(call_args(b_)[0]) if call_args(b_) else None
        if obj is None or arg is None or lit is None or lit["k"] != "StringLiteral" or lit.get("v") != "\n":
            return None
        for i_, p_ in enumerate(g.params):
            if obj.get("declId") == p_["declId"] and arg.get("declId") == p_["declId"] and "MemoryWriter" in (p_.get("ct") or p_.get("t") or ""):
                return i_
        return None
    fin_by_id = {}
    for g_ in funcs:
        ix_ = finisher_param(g_)
        if ix_ is not None:
            fin_by_id[g_.id] = ix_

    def record_writer_param(g):
        """index of the line-buffer parameter if g writes exactly one complete record into it: its body is the scope of one top-level
        writer constructed on the parameter, the parameter is used for nothing else, and nothing is appended"""
        if g is None or g.body is None:
            return None
        for i_, p_ in enumerate(g.params):
            if "MemoryWriter" not in (p_.get("ct") or p_.get("t") or "") or "&" not in (p_.get("ct") or p_.get("t") or ""):
                continue
            uses = [u for u in g.walk() if u["k"] == "DeclRefExpr" and u.get("declId") == p_["declId"]]
            if len(uses) != 1:
                continue
            par = next((a for a in g.ancestors(uses[0]) if a["k"] not in ("ImplicitCastExpr", "ParenExpr", "MaterializeTemporaryExpr")), None)
            if par is None or par["k"] != "CXXConstructExpr" or par.get("callee") != JW + "::MiniJSONWriter":
                continue
            v = next((a for a in g.ancestors(uses[0]) if a["k"] == "VarDecl"), None)
            if v is None or not is_jw_type(v.get("ct") or v.get("t")):
                continue
            ds, scope = stmt_in_compound(g, v)
            if scope is None or scope["i"] != g.body["i"]:
                continue
            if any(c["k"] == "CXXMemberCallExpr" and c.get("callee") in APPENDS for c in g.walk()):
                continue
            did = v["declId"]
            direct = [s_ for s_ in kids(scope) if any(x["k"] == "CXXOperatorCallExpr" and x.get("op") == "[]" and strip(call_args(x)[0]).get("declId") == did for x in walk(s_))
                      and s_["k"] not in ("IfStmt", "ForStmt", "WhileStmt", "CXXForRangeStmt", "SwitchStmt", "DoStmt")]
            if direct:
                return i_
        return None
    recw_by_id = {}
    for g_ in funcs:
        ix_ = record_writer_param(g_)
        if ix_ is not None:
            recw_by_id[g_.id] = ix_
    for f in emitters:
        key = sname(f)
        probs = []
        if f.id in fin_by_id:
            l1.ok("%s|%s" % (key, "finisher"), short_loc(f.loc), "helper that terminates a record with \"\\n\" and appends it; its callers are analysed")
            continue
        if f.id in recw_by_id:
            l1.ok("%s|%s" % (key, "record-writer"), short_loc(f.loc), "helper that writes one complete top-level dictionary into the buffer it is given; its callers are analysed")
            continue
        fin_calls = [c for c in f.walk() if c["k"] in ("CXXMemberCallExpr", "CallExpr") and c.get("calleeId") in fin_by_id]
        apps = [c for c in f.walk() if c["k"] == "CXXMemberCallExpr" and c.get("callee") in APPENDS]
        jws = [v for v in f.walk() if v["k"] == "VarDecl" and is_jw_type(v.get("ct") or v.get("t")) and kids(v)
               and strip(kids(v)[0])["k"] == "CXXConstructExpr" and len(kids(strip(kids(v)[0]))) == 1
               and not is_jw_type(strip(kids(strip(kids(v)[0]))[0]).get("ct"))]
        if not apps and not fin_calls:
            probs.append("constructs a top-level writer but never appends its buffer to the file")
        bufs = set()
        for A in apps + fin_calls:
            a = strip(call_args(A)[fin_by_id[A["calleeId"]]] if A in fin_calls else call_args(A)[0])
            if a["k"] != "DeclRefExpr" or "MemoryWriter" not in (a.get("ct") or ""):
                probs.append("Append argument `%s` is not a local line buffer" % render(a))
                continue
            bufs.add(a["declId"])
        for b in sorted(bufs):
            uses = decl_uses(f, b)
            nl_stmts, ctor_uses, app_uses = [], [], []
            block_calls = []
            for u in uses:
                par = [a for a in f.ancestors(u)]
                p1 = next((a for a in par if a["k"] not in ("ImplicitCastExpr", "ParenExpr", "MaterializeTemporaryExpr")), None)
                if p1 is not None and p1["k"] == "CXXConstructExpr" and p1.get("callee") == JW + "::MiniJSONWriter":
                    ctor_uses.append(u)
                    continue
                if p1 is not None and p1["k"] == "MemberExpr" and p1.get("name") == "write":
                    call = f.parent[p1["i"]]
                    args = call_args(call)
                    lit = strip(args[0]) if args else None
                    while lit is not None and lit["k"] == "CXXConstructExpr" and kids(lit):
                        lit = strip(kids(lit)[0])
                    if len(args) == 1 and lit is not None and lit["k"] == "StringLiteral" and lit.get("v") == "\n":
                        nl_stmts.append(call)
                        continue
                    probs.append("raw write %s to the line buffer at %s" % (render(call)[:60], short_loc(call.get("l"))))
                    continue
                if p1 is not None and p1["k"] == "CXXMemberCallExpr" and p1.get("callee") in APPENDS:
                    app_uses.append(p1)
                    continue
                if p1 is not None and p1["k"] in ("CXXMemberCallExpr", "CallExpr") and p1.get("calleeId") in fin_by_id:
                    nl_stmts.append(p1)          # the finisher writes the newline and appends
                    continue
                if p1 is not None and p1["k"] in ("CXXMemberCallExpr", "CallExpr") and p1.get("calleeId") in recw_by_id and \
                        strip(call_args(p1)[recw_by_id[p1["calleeId"]]])["i"] == u["i"]:
                    block_calls.append(p1)       # the helper's body is the writer's scope
                    continue
                probs.append("line buffer used outside the writer at %s: %s" % (short_loc(u.get("l")), render(p1)[:60] if p1 else "?"))
            # pairing: each top-level writer's scope is immediately followed by a newline write
            nl_used = set()
            for u in ctor_uses:
                v = next(a for a in f.ancestors(u) if a["k"] == "VarDecl")
                ds, scope = stmt_in_compound(f, v)
                if scope is None:
                    probs.append("writer %s has no enclosing block" % v.get("name"))
                    continue
                top_nodes.append((f, v, scope))
                if any(x["k"] == "CXXMemberCallExpr" and x.get("callee") in APPENDS for x in walk(scope)):
                    probs.append("the buffer is appended while the writer declared at %s is still open" % short_loc(v.get("l")))
                st, outer = stmt_in_compound(f, scope)
                sib = kids(outer) if outer is not None else []
                idx = next((i for i, x in enumerate(sib) if x["i"] == st["i"]), None)
                nxt = sib[idx + 1] if idx is not None and idx + 1 < len(sib) else None
                nxt_call = strip(nxt) if nxt is not None else None
                if st["i"] != scope["i"] or nxt_call is None or nxt_call["i"] not in {c["i"] for c in nl_stmts}:
                    probs.append("the block of the writer declared at %s is not directly followed by write(\"\\n\")"
                                 % short_loc(v.get("l")))
                else:
                    nl_used.add(nxt_call["i"])
                # top-level is a dictionary with at least one unconditional key
                did = v["declId"]
                direct = [s for s in kids(scope) if any(x["k"] == "CXXOperatorCallExpr" and x.get("op") == "[]" and
                                                        strip(call_args(x)[0]).get("declId") == did for x in walk(s))
                          and s["k"] not in ("IfStmt", "ForStmt", "WhileStmt", "CXXForRangeStmt", "SwitchStmt", "DoStmt")]
                if not direct:
                    probs.append("the writer declared at %s has no unconditional key: an empty record is not an object"
                                 % short_loc(v.get("l")))
            for bc in block_calls:
                st, outer = stmt_in_compound(f, bc)
                sib = kids(outer) if outer is not None else []
                idx = next((i for i, x in enumerate(sib) if st is not None and x["i"] == st["i"]), None)
                nxt = sib[idx + 1] if idx is not None and idx + 1 < len(sib) else None
                nxt_call = strip(nxt) if nxt is not None else None
                if nxt_call is None or nxt_call["i"] not in {c["i"] for c in nl_stmts}:
                    probs.append("the record written by the helper at %s is not directly followed by write(\"\\n\")" % short_loc(bc.get("l")))
                else:
                    nl_used.add(nxt_call["i"])
            for c in nl_stmts:
                if c["i"] not in nl_used:
                    probs.append("write(\"\\n\") at %s does not follow a writer block" % short_loc(c.get("l")))
            for A in app_uses:
                if not any(f.cfg.dominates(c, A) for c in nl_stmts):
                    probs.append("Append at %s is not preceded by a terminated record" % short_loc(A.get("l")))
            if not ctor_uses and not block_calls:
                probs.append("buffer %s is appended without a JSON writer" % b.split("#")[0])
        if jws and not bufs:
            probs.append("no buffer appended")
        l1.check(not probs, "%s|%s" % (key, f.full.split(">::")[0][-60:] if len(all_of(f.qn)) > 1 else ""), short_loc(f.loc),
                 "%d buffer(s), each record = one closed top-level dictionary + \"\\n\", then Append" % len(bufs),
                 "; ".join(probs[:4]))

    # ---- F1 ----------------------------------------------------------------------------
    f1 = rep.rule("C20.F1", "FLOW", "every formatter write inside MiniJSONWriter is JSON punctuation, a quoted "
                  "EscapeString(...) result, or the scalar path", floor=8)
    members = [f for f in funcs if f.qn.startswith(JW + "::") and f.unit == U]
    esc_ids = set()
    scalar_writes = []
    seen = set()
    for f in members:
        for n in f.walk():
            if n["k"] == "MemberExpr" and n.get("name") == "wrt_" and kids(n) and strip(kids(n)[0])["k"] == "CXXThisExpr":
                par = next((a for a in f.ancestors(n) if a["k"] not in ("ImplicitCastExpr", "ParenExpr")), None)
                if par is None or par["k"] == "CXXCtorInitializer":
                    continue
                if par["k"] == "MemberExpr" and par.get("name") == "write":
                    call = f.parent[par["i"]]
                    k_ = (f.id, call["i"])
                    if k_ in seen:
                        continue
                    seen.add(k_)
                    args = call_args(call)
                    lit = strip(args[0])
                    while lit is not None and lit["k"] == "CXXConstructExpr" and kids(lit):
                        lit = strip(kids(lit)[0])
                    where = short_loc(call.get("l"))
                    key = "%s|%s" % (f.full.replace("mp::MiniJSONWriter<fmt::BasicMemoryWriter<char>>::", "")[:60], where.split(":")[-1])
                    if lit is None or lit["k"] != "StringLiteral":
                        f1.fail(key, where, "format argument `%s` is not a literal" % render(args[0]))
                        continue
                    parts = fmt_parts(lit.get("v", ""))
                    nph = sum(1 for p in parts if p[0] == "p")
                    vals = args[1:]
                    if nph != len(vals):
                        f1.fail(key, where, "format %r has %d placeholders but %d arguments" % (lit.get("v"), nph, len(vals)))
                        continue
                    text = "".join(p[1] for p in parts if p[0] == "t")
                    if nph == 0:
                        f1.check(set(text) <= STRUCT, key, where, "writes punctuation %r" % text,
                                 "writes raw text %r" % text)
                        continue
                    if nph == 1:
                        a = strip(vals[0])
                        if a["k"] == "CharacterLiteral":
                            ch = chr(int(a["v"]))
                            f1.check(set(text + ch) <= STRUCT, key, where, "writes punctuation %r" % (text + ch))
                            continue
                        tparts = [p[1] for p in parts if p[0] == "t"]
                        quoted = len(parts) >= 3 and parts[0] == ("t", '"') and parts[1] == ("p",) and \
                            parts[2][0] == "t" and parts[2][1].startswith('"') and set(parts[2][1][1:]) <= STRUCT
                        if quoted:
                            okc = a["k"] == "CallExpr" and a.get("callee", "").endswith("::EscapeString")
                            if okc:
                                esc_ids.add(a.get("calleeId"))
                            f1.check(okc, key, where, "quoted value is %s" % render(a)[:60],
                                     "string `%s` is written between quotes without escaping" % render(a)[:80])
                            continue
                        if not tparts:
                            scalar_writes.append((f, call, a))
                            f1.check(f.qn == JW + "::DoWriteScalar", key, where,
                                     "bare placeholder in the scalar writer (F2)", "bare '{}' with `%s` outside DoWriteScalar" % render(a)[:60])
                            continue
                    f1.fail(key, where, "write(%r, ...) is not a recognised JSON token form" % lit.get("v"))
                else:
                    f1.fail("%s|wrt_-use" % f.name, short_loc(n.get("l")),
                            "the formatter is used other than through write(): %s" % render(par)[:80])

    # ---- E1 ----------------------------------------------------------------------------
    e1 = rep.rule("C20.E1", "RANGE", "the escaping function yields a valid JSON string fragment for every byte value", floor=3)
    escs = [f for f in members if f.qn == JW + "::EscapeString" or f.id in esc_ids]
    e1.check(bool(escs), "escaper-exists", "", "an escaping function is applied to quoted strings",
             "no escaping function is applied to quoted strings")
    for f in escs[:1]:
        body = f.body
        top = kids(body)
        res = [v for s in top if s["k"] == "DeclStmt" for v in kids(s) if v["k"] == "VarDecl" and "basic_string<" in (v.get("ct") or "")]
        loops = [s for s in top if s["k"] in ("CXXForRangeStmt", "ForStmt")]
        rets = [s for s in top if s["k"] == "ReturnStmt"]
        # early exits that bypass the per-character body
        all_rets = [x for x in f.walk() if x["k"] == "ReturnStmt"]
        early = [x for x in all_rets if not any(x is t_ for t_ in rets)]
        for er in early:
            conds = [(f.nodes[cid], pol) for cid, pol in f.cfg.facts_at(er)]
            lit = None
            for cn, pol in conds:
                cn = strip(cn)
                if cn["k"] in ("BinaryOperator", "CXXOperatorCallExpr") and cn.get("op") in ("==", "!="):
                    sides = kids(cn) if cn["k"] == "BinaryOperator" else call_args(cn)
                    calls_ = [y for sd in sides for y in walk(sd) if y["k"] == "CXXMemberCallExpr" and (y.get("callee") or "").endswith("::find_first_of")]
                    npos = any("npos" in render(sd) for sd in sides)
                    if calls_ and npos and ((cn["op"] == "==") == bool(pol)):
                        sl = [y for y in walk(calls_[0]) if y["k"] == "StringLiteral"]
                        if sl and render(call_object(calls_[0])) == (f.params[0]["name"] if f.params else None):
                            lit = sl[0].get("v", "")
            if lit is None:
                raise AnalysisBroken("C20.E1: EscapeString returns early at %s under a condition the analysis does not model" % short_loc(er.get("l")))
            need = set(range(0x20)) | {0x22, 0x5c}
            have = {ord(ch) for ch in lit}
            missing = sorted(need - have)
            e1.check(not missing, "fast-path|%s" % short_loc(er.get("l")).split(":")[-1], short_loc(er.get("l")),
                     "the unescaped fast path is taken only when no character needs escaping",
                     "a string is returned unescaped when it contains none of %r, but %d byte values that need escaping are not in that set (e.g. 0x%02x): "
                     "a name with such a control character gives a line that is not valid JSON" % (lit, len(missing), missing[0] if missing else 0))
        if len(res) != 1 or len(loops) != 1 or len(rets) != 1 or top[-1]["k"] != "ReturnStmt":
            raise AnalysisBroken("C20.E1: EscapeString is not of the form `result; for (c : s) ...; return result`")
        other = [s_ for s_ in top if s_["k"] not in ("DeclStmt", "CXXForRangeStmt", "ForStmt", "ReturnStmt", "IfStmt") and not (s_["k"] in ("CXXMemberCallExpr", "ExprWithCleanups") and "reserve" in render(s_))]
        if other:
            raise AnalysisBroken("C20.E1: statement `%s` in EscapeString outside the fragment" % render(other[0])[:60])
        rdecl = res[0]["declId"]
        lp = loops[0]
        if lp["k"] != "CXXForRangeStmt":
            raise AnalysisBroken("C20.E1: loop form outside the fragment")
        rng_e, cdecl, lbody = range_for(lp)
        rng = render(rng_e)
        pname = f.params[0]["name"] if f.params else None
        retrefs = [x for x in walk(rets[0]) if x["k"] == "DeclRefExpr"]
        e1.check(rng == pname and len(retrefs) == 1 and retrefs[0].get("declId") == rdecl, "shape", short_loc(f.loc),
                 "result is built by one pass over the parameter and returned",
                 "the loop ranges over `%s`, the function returns `%s`" % (rng, render(kids(rets[0])[0])))
        # result touched outside the loop only by reserve/ctor
        outside = [u for u in decl_uses(f, rdecl) if not any(a["i"] == lp["i"] for a in f.ancestors(u))]
        bad = []
        for u in outside:
            p = next((a for a in f.ancestors(u) if a["k"] not in ("ImplicitCastExpr", "ParenExpr")), None)
            if p is not None and p["k"] == "MemberExpr" and p.get("name") in ("reserve",):
                continue
            if p is not None and p["k"] in ("ReturnStmt", "CXXConstructExpr"):
                continue
            bad.append(render(p)[:40] if p else "?")
        e1.check(not bad, "result-only-built-in-loop", short_loc(f.loc), "result is modified only by the per-character body", str(bad))
        ct = cdecl.get("ct") or cdecl.get("t") or ""
        failures = []
        for byte in range(256):
            if ct in ("char", "signed char", "const char", "const signed char"):
                cval = byte - 256 if byte >= 128 else byte
            elif ct in ("unsigned char", "const unsigned char", "int", "unsigned int"):
                cval = byte
            else:
                raise AnalysisBroken("C20.E1: loop variable type %s outside the fragment" % ct)
            ev = EscEval(f, cdecl["declId"], rdecl, F)
            out = []
            ev.run([lbody], {cdecl["declId"]: cval}, out)
            if not json_fragment_ok(byte, out):
                failures.append((byte, bytes(out)))
        e1.check(not failures, "all-bytes", short_loc(f.loc),
                 "256 byte values evaluated: '\"', '\\\\' and 0x00-0x1f are escaped, all others copied",
                 "byte 0x%02x is rendered as %r (%d byte values fail)" % (failures[0][0], failures[0][1], len(failures)) if failures else "")
        rep.extra["e1_bytes_evaluated"] = 256

    # ---- F2 ----------------------------------------------------------------------------
    f2 = rep.rule("C20.F2", "GUARD", "scalar instantiations are numeric; floating values are clamped to finite", floor=2)
    INTS = {"int", "unsigned int", "long", "unsigned long", "long long", "unsigned long long", "short",
            "unsigned short", "bool"}
    FLT = {"double", "float", "long double"}
    MAXV = {"double": 1.7976931348623157e308, "float": 3.4028234663852886e38, "long double": float("inf")}

    def const_val(n):
        n = strip(n)
        if "cv" in n:
            try:
                return float(n["cv"])
            except ValueError:
                return None
        if n["k"] == "UnaryOperator" and n.get("op") == "-":
            v = const_val(kids(n)[0])
            return -v if v is not None else None
        if n["k"] == "FloatingLiteral":
            try:
                return float(n["v"])
            except (ValueError, KeyError):
                return None
        return None

    def bounds_at(g, node, did, ty):
        """(upper_ok, lower_ok) from the branch facts that hold at `node` for variable did"""
        up = lo = False
        mx = MAXV[ty]
        for cid, pol in g.cfg.facts_at(node):
            c = strip(g.nodes[cid])
            if c["k"] == "BinaryOperator" and c.get("op") in ("<", "<=", ">", ">="):
                a, b = kids(c)
                op = c["op"]
                if strip(b).get("declId") == did:
                    a, b = b, a
                    op = {"<": ">", "<=": ">=", ">": "<", ">=": "<="}[op]
                if strip(a).get("declId") != did:
                    continue
                kv = const_val(b)
                if kv is None:
                    continue
                if op in (">", ">=") and pol is False and kv <= mx and kv != float("inf"):
                    up = True        # !(v > K)  =>  v <= K (or NaN)
                if op in ("<", "<=") and pol is True and kv <= mx and kv != float("inf"):
                    up = True
                if op in ("<", "<=") and pol is False and kv >= -mx and kv != float("-inf"):
                    lo = True
                if op in (">", ">=") and pol is True and kv >= -mx and kv != float("-inf"):
                    lo = True
            elif c["k"] == "CallExpr" and c.get("callee", "").split("::")[-1] in ("isinf",) and pol is False and \
                    strip(call_args(c)[0]).get("declId") == did:
                up = lo = True
            elif c["k"] == "CallExpr" and c.get("callee", "").split("::")[-1] in ("isfinite",) and pol is True and \
                    strip(call_args(c)[0]).get("declId") == did:
                up = lo = True
        return up, lo

    def finite_value(g, expr, at, ty, depth=0):
        """is `expr`, evaluated at CFG node `at` of g, finite for every non-NaN input?  returns (ok, why)"""
        e = strip(expr)
        kv = const_val(e)
        if kv is not None:
            return (abs(kv) <= MAXV[ty] and kv not in (float("inf"), float("-inf"))), "constant %r" % kv
        if e["k"] == "DeclRefExpr":
            up, lo = bounds_at(g, at, e.get("declId"), ty)
            return (up and lo), "`%s` is%s bounded above,%s bounded below" % (e.get("name"), "" if up else " not", "" if lo else " not")
        if e["k"] == "CallExpr" and depth < 2:
            cal = [h for h in funcs if h.id == e.get("calleeId")]
            if not cal:
                return False, "callee %s not analysed" % e.get("callee")
            h = cal[0]
            if len(call_args(e)) != 1 or len(h.params) != 1:
                return False, "helper %s has more than one argument" % h.name
            rets = [r for r in h.walk() if r["k"] == "ReturnStmt"]
            if not rets:
                return False, "helper returns nothing"
            for r in rets:
                ok, why = finite_value(h, kids(r)[0], r, ty, depth + 1)
                if not ok:
                    return False, "%s returns at %s: %s" % (h.name, short_loc(r.get("l")), why)
            return True, "every return of %s is a finite constant or the guarded argument" % h.name
        return False, "`%s` is not a recognised finite form" % render(e)[:60]

    dws = all_of(JW + "::DoWriteScalar")
    for f in [x for x in dws if x.unit == U] + [x for x in dws if x.unit != U]:
        p = f.params[0]
        ty = (p.get("ct") or p.get("t") or "").replace("const ", "").replace("&", "").strip()
        key = "type|%s|%s" % (ty, f.unit.split("/")[-1])
        if ty in INTS:
            f2.ok(key, short_loc(f.loc), "DoWriteScalar<%s>: fmt prints a JSON number/boolean" % ty)
            continue
        if ty not in FLT:
            f2.fail(key, short_loc(f.loc), "DoWriteScalar is instantiated for `%s`, which fmt does not print as a JSON value "
                    "(character and string-view elements are written raw)" % ty)
            continue
        wr = [c for (g, c, a) in scalar_writes if g.id == f.id] if f.unit == U else \
            [c for c in f.walk() if c["k"] == "CXXMemberCallExpr" and c.get("callee", "").endswith("::write")]
        if len(wr) != 1:
            raise AnalysisBroken("C20.F2: %d scalar writes in %s" % (len(wr), f.full))
        ok, why = finite_value(f, call_args(wr[0])[1], wr[0], ty)
        f2.check(ok, "finite|%s|%s" % (ty, f.unit.split("/")[-1]), short_loc(wr[0].get("l")),
                 "floating value written as %s: %s" % (render(call_args(wr[0])[1])[:50], why),
                 "a %s reaches the formatter unclamped (%s): an infinite bound or coefficient is printed as `inf`, "
                 "which is not JSON" % (ty, why))

    # ---- Y1 ----------------------------------------------------------------------------
    y1 = rep.rule("C20.Y1", "TABLE", "writer protocol: Close/Ensure*/operators emit matching brackets, Close is "
                  "idempotent and runs in the destructor", floor=10)
    kinds = None
    for u in F.units:
        for e in u.get("enums", []):
            vals = {x["name"]: int(x["value"]) for x in e["enumerators"]}
            if e["qn"] == JW + "::Kind" and len(set(vals.values())) == len(vals):     # the instantiated enum
                kinds = vals
    if not kinds or set(kinds) != {"Unset", "Scalar", "Array", "Dict", "Closed"}:
        raise AnalysisBroken("enum MiniJSONWriter::Kind not exported or changed: %s" % kinds)

    def writes_in(f, stmts):
        out = []
        for s in stmts:
            for c in walk(s):
                if c["k"] == "CXXMemberCallExpr" and c.get("callee", "").endswith("::write"):
                    lit = strip(call_args(c)[0])
                    while lit is not None and lit["k"] == "CXXConstructExpr" and kids(lit):
                        lit = strip(kids(lit)[0])
                    txt = ""
                    vals = call_args(c)[1:]
                    vi = 0
                    for p in fmt_parts(lit.get("v", "")) if lit is not None and lit["k"] == "StringLiteral" else [("t", "?")]:
                        if p[0] == "t":
                            txt += p[1]
                        else:
                            a = strip(vals[vi]); vi += 1
                            txt += chr(int(a["v"])) if a["k"] == "CharacterLiteral" else "<%s>" % render(a)
                    out.append(txt)
        return out

    def kind_assigns(f, stmts):
        out = []
        for s in stmts:
            for c in walk(s):
                if c["k"] == "BinaryOperator" and c.get("op") == "=" and render(kids(c)[0]) == "kind_":
                    out.append(cv(kids(c)[1]) if cv(kids(c)[1]) is not None else render(kids(c)[1]))
        return out

    def kname(v):
        for n_, x in kinds.items():
            if x == v:
                return n_
        return str(v)

    close = one(JW + "::Close", lambda f: f.unit == U)
    sw = [n for n in close.walk() if n["k"] == "SwitchStmt"]
    want_close = {"Unset": ["[]"], "Scalar": [], "Array": ["]"], "Dict": ["}"], "Closed": []}
    if len(sw) != 1 or render(kids(sw[0])[0]) != "kind_":
        # not a switch over kind_: Close() is run for each node kind (what it writes, which kind it leaves)
        okc = True
        for kn, w in want_close.items():
            st_ = {"kind": kinds[kn], "w": []}

            def atom(t_, n_, env_):
                t_ = t_.replace("this->", "")
                if t_ == "kind_":
                    return st_["kind"]
                if t_ == "n_written_":
                    return 1
                if n_["k"] == "CXXMemberCallExpr" and (n_.get("callee") or "").endswith("::write"):
                    st_["w"] += writes_in(close, [n_])
                    return 0
                return None

            def store(t_, n_, val, env_):
                if t_.replace("this->", "") == "kind_":
                    st_["kind"] = val
                    return True
                return False
            mi = MiniInt(F, atom)
            mi.store = store
            try:
                mi.call(close, [])
            except AnalysisBroken as e_:
                if "without a return" not in str(e_):
                    raise AnalysisBroken("C20.Y1: Close(): %s" % e_)
            y1.check(st_["w"] == w, "Close|%s" % kn, short_loc(close.loc), "Close() on a %s node writes %r" % (kn, "".join(w)),
                     "Close() on a %s node writes %r, expected %r" % (kn, st_["w"], w))
            okc = okc and st_["kind"] == kinds["Closed"]
        y1.check(okc, "Close|marks-closed", short_loc(close.loc), "every path through Close() sets kind_ = Closed (idempotent)")
    else:
        secs = switch_sections(sw[0])
        for kn, w in want_close.items():
            sec = secs.get(kinds[kn])
            got = writes_in(close, sec) if sec is not None else None
            y1.check(got == w, "Close|%s" % kn, short_loc(close.loc), "Close() on a %s node writes %r" % (kn, "".join(w)),
                     "Close() on a %s node writes %r, expected %r" % (kn, got, w))
        ka = [n for n in close.walk() if n["k"] == "BinaryOperator" and n.get("op") == "=" and render(kids(n)[0]) == "kind_"]
        okc = len(ka) >= 1 and any(cv(kids(n)[1]) == kinds["Closed"] and
                                   close.cfg.path_avoiding(None, "exit", [n["i"]], from_entry=True) is None for n in ka)
        y1.check(okc, "Close|marks-closed", short_loc(close.loc), "every path through Close() sets kind_ = Closed (idempotent)")
    dt = one(JW + "::~MiniJSONWriter", lambda f: f.unit == U)
    y1.check(any(c.get("callee") == JW + "::Close" for c in dt.walk() if c["k"] == "CXXMemberCallExpr"), "dtor-closes",
             short_loc(dt.loc), "the destructor closes the node")
    for qn, kn, tok in ((JW + "::EnsureArray", "Array", "["), (JW + "::EnsureDictionary", "Dict", "{")):
        g = one(qn, lambda f: f.unit == U)
        # shape-free: the only kind_ assignment and the only write of the function happen exactly under kind_ == Unset
        asg = [n for n in g.walk() if n["k"] == "BinaryOperator" and n.get("op") == "=" and render(kids(n)[0]).replace("this->", "") == "kind_"]
        wr = [c for c in g.walk() if c["k"] == "CXXMemberCallExpr" and (c.get("callee") or "").endswith("::write")]

        def under_unset(n):
            fa = norm_facts(g, n, canon=True)
            return any("==" in t and "Unset" in t and "kind_" in t and pol for t, pol in fa)
        okk = len(asg) == 1 and cv(kids(asg[0])[1]) == kinds[kn] and under_unset(asg[0]) and \
            writes_in(g, [g.body]) == [tok] and len(wr) == 1 and under_unset(wr[0])
        y1.check(okk, "%s|opens" % qn.split("::")[-1], short_loc(g.loc),
                 "an Unset node becomes %s and writes %r exactly once" % (kn, tok))
    sep = one(JW + "::InsertElementSeparator", lambda f: f.unit == U)
    ifs = [n for n in sep.walk() if n["k"] == "IfStmt"]
    oks = len(ifs) == 1 and render(kids(ifs[0])[0]) == "n_written_" and writes_in(sep, [kids(ifs[0])[1]]) == [", "] \
        and writes_in(sep, [sep.body]) == [", "]
    y1.check(oks, "separator", short_loc(sep.loc), "\", \" is written iff an element was written before")

    def call_seq(g):
        return [c.get("callee", "").split("::")[-1] if c["k"] != "UnaryOperator" else "++" + render(kids(c)[0])
                for c in walk(g.body)
                if (c["k"] == "CXXMemberCallExpr" and c.get("callee", "").startswith(JW + "::")) or
                (c["k"] == "CXXMemberCallExpr" and c.get("callee", "").endswith("::write")) or
                (c["k"] == "UnaryOperator" and c.get("op") == "++" and render(kids(c)[0]) == "n_written_")]
    table = [(JW + "::operator[]", ["EnsureDictionary", "InsertElementSeparator", "write", "++n_written_"]),
             (JW + "::operator++", ["EnsureArray", "InsertElementSeparator", "++n_written_"])]
    for qn, want in table:
        g = one(qn, lambda f: f.unit == U)
        got = call_seq(g)
        y1.check(got == want, "%s|sequence" % qn.split("::")[-1], short_loc(g.loc), "%s performs %s" % (qn.split("::")[-1], want),
                 "%s performs %s, expected %s" % (qn.split("::")[-1], got, want))
        rets = [r for r in g.walk() if r["k"] == "ReturnStmt"]
        okr = len(rets) == 1 and any(x["k"] in ("CXXTemporaryObjectExpr", "CXXConstructExpr") and x.get("callee") == JW + "::MiniJSONWriter"
                                     for x in walk(rets[0]))
        y1.check(okr, "%s|returns-child" % qn.split("::")[-1], short_loc(g.loc), "returns a fresh child node of *this")
    for g in [x for x in all_of(JW + "::operator=") if x.unit == U][:1] + [x for x in all_of(JW + "::operator=") if x.unit == U][-1:]:
        got = call_seq(g)
        y1.check(got == ["EnsureUnset", "Write", "Close"], "operator=|sequence|%s" % g.full.split("operator=")[-1][:30], short_loc(g.loc),
                 "operator= writes one value and closes the node", "operator= performs %s" % got)
    for g in all_of(JW + "::DoWriteScalar") + all_of(JW + "::DoWriteString"):
        if g.unit != U:
            continue
        got = call_seq(g)
        y1.check(got[:1] == ["MakeScalarIfUnset"] and got.count("write") == 1 and got[-1] == "++n_written_",
                 "%s|sequence" % g.full.split("::")[-1][:40], short_loc(g.loc), "marks the node scalar, writes once, counts the element",
                 "performs %s" % got)
    mv = [f for f in all_of(JW + "::MiniJSONWriter") if f.unit == U and f.params and "&&" in (f.params[0].get("t") or "")]
    if mv:
        g = mv[0]
        okm = any(n["k"] == "BinaryOperator" and n.get("op") == "=" and render(kids(n)[0]).endswith(".kind_") and
                  cv(kids(n)[1]) == kinds["Closed"] for n in g.walk())
        y1.check(okm, "move-ctor|source-closed", short_loc(g.loc), "the moved-from node is marked Closed (its destructor writes nothing)")
    child = [f for f in all_of(JW + "::MiniJSONWriter") if f.unit == U and f.params and is_jw_type((f.params[0].get("ct") or "").replace("&", "").strip())
             and "&&" not in (f.params[0].get("t") or "")]
    for g in child[:1]:
        inits = {i.get("name"): (render(kids(i)[0]) if kids(i)[0]["k"] != "CXXDefaultInitExpr" else "default:%s" % cv(kids(i)[0]))
                 for i in g.d.get("inits", []) if kids(i)}
        y1.check(inits.get("wrt_", "").endswith("wrt_") and inits.get("kind_") == "default:%d" % kinds["Unset"] and
                 inits.get("n_written_") == "default:0", "child-ctor", short_loc(g.loc),
                 "a child shares the parent's formatter and starts Unset with no elements", "initialisers: %s" % inits)

    # ---- Y2 / Y3 -----------------------------------------------------------------------
    y2 = rep.rule("C20.Y2", "TYPESTATE", "client code: one node kind per node variable, no parent use while a "
                  "named child is open, at most one open child per full expression", floor=20)
    clients = [f for f in funcs if (f.qn == "mp::WriteJSON" or f.qn in emit_qns or f.qn == "mp::pre::ValuePresolverImpl::WriteNodes")]
    nclient = 0
    for f in clients:
        nodes_ = []      # (declId, name, decl node or None, init)
        for p in f.params:
            if is_jw_type((p.get("ct") or p.get("t") or "")):
                nodes_.append((p["declId"], p["name"], None))
        for v in f.walk():
            if v["k"] == "VarDecl" and is_jw_type(v.get("ct") or v.get("t")):
                nodes_.append((v["declId"], v["name"], v))
        if not nodes_:
            continue
        nclient += 1
        probs = []
        for did, name, decl in nodes_:
            usekinds = {}
            for u in decl_uses(f, did):
                p = next((a for a in f.ancestors(u) if a["k"] not in ("ImplicitCastExpr", "ParenExpr", "MaterializeTemporaryExpr",
                                                                      "CXXBindTemporaryExpr")), None)
                kind = None
                if p is not None and p["k"] == "CXXOperatorCallExpr" and p.get("callee", "").startswith(JW + "::") and \
                        strip(call_args(p)[0])["i"] == u["i"]:
                    kind = {"[]": "dict", "<<": "array", "++": "array", "=": "scalar"}.get(p.get("op"))
                elif p is not None and p["k"] == "MemberExpr" and p.get("name") in ("WriteSequence",):
                    kind = "array"
                elif p is not None and p["k"] == "MemberExpr" and p.get("name") == "Close":
                    kind = "close"
                elif p is not None and p["k"] == "CXXConstructExpr" and p.get("callee") == JW + "::MiniJSONWriter":
                    kind = "moved"
                elif p is not None and p["k"] == "CallExpr" and p.get("callee", "").endswith("::move"):
                    kind = "moved"
                if kind is None:
                    raise AnalysisBroken("C20.Y2: use of node `%s` at %s outside the fragment: %s" %
                                         (name, short_loc(u.get("l")), render(p)[:60] if p else "?"))
                usekinds.setdefault(kind, []).append(u)
            ks = set(usekinds) - {"close", "moved"}
            if len(ks) > 1:
                probs.append("node `%s` is used as %s" % (name, " and ".join(sorted(ks))))
            if len(usekinds.get("scalar", [])) > 1:
                probs.append("node `%s` is assigned %d times" % (name, len(usekinds["scalar"])))
            # named child: parent must not be used while it is in scope
            if decl is not None and kids(decl):
                init = strip(kids(decl)[0])
                if init["k"] == "CXXOperatorCallExpr" and init.get("op") in ("[]", "++") and init.get("callee", "").startswith(JW + "::"):
                    par = strip(call_args(init)[0])
                    if par["k"] == "DeclRefExpr":
                        st, scope = stmt_in_compound(f, decl)
                        sib = kids(scope) if scope is not None else []
                        idx = next((i for i, x in enumerate(sib) if x["i"] == st["i"]), len(sib))
                        closed = False
                        for later in sib[idx + 1:]:
                            for x in walk(later):
                                if x["k"] == "MemberExpr" and x.get("name") == "Close" and kids(x) and strip(kids(x)[0]).get("declId") == did:
                                    closed = True
                                if x["k"] == "DeclRefExpr" and x.get("declId") == par.get("declId") and not closed:
                                    probs.append("parent `%s` is used at %s while child `%s` is still open" %
                                                 (par.get("name"), short_loc(x.get("l")), name))
        # at most one open child per full expression
        for s in f.walk():
            if s["k"] != "CompoundStmt":
                continue
            for st in kids(s):
                if st["k"] in ("CompoundStmt", "IfStmt", "ForStmt", "WhileStmt", "CXXForRangeStmt", "SwitchStmt", "DoStmt", "DeclStmt"):
                    continue
                made = {}
                for x in walk(st):
                    if x["k"] == "CXXOperatorCallExpr" and x.get("op") in ("[]", "++") and x.get("callee", "").startswith(JW + "::"):
                        par = strip(call_args(x)[0])
                        if par["k"] != "DeclRefExpr":
                            continue
                        pp = next((a for a in f.ancestors(x) if a["k"] not in ("ImplicitCastExpr", "ParenExpr", "MaterializeTemporaryExpr",
                                                                                "CXXBindTemporaryExpr")), None)
                        immediate = pp is not None and pp["k"] == "CXXOperatorCallExpr" and pp.get("op") == "="
                        made.setdefault(par.get("declId"), []).append(immediate)
                for did2, lst in made.items():
                    if len(lst) > 1 and sum(1 for im in lst if not im) > 0 and len(lst) - sum(1 for im in lst if im) > 1:
                        probs.append("two children of `%s` are open in one expression at %s" % (did2.split("#")[0], short_loc(st.get("l"))))
        inst = f.full.split("(")[0]
        y2.check(not probs, "%s|%s" % (sname(f), hashlib.md5(f.id.encode()).hexdigest()[:6]), short_loc(f.loc),
                 "%d node variable(s) used consistently" % len(nodes_), "; ".join(probs[:3]))

    # ---- P1 ----------------------------------------------------------------------------
    p1 = rep.rule("C20.P1", "GUARD", "AddAllUnbridged: one ExportConStatus per container on every path; "
                  "AddConstraint/AddEntry exactly under adding = !IsBridged(); add2final = adding", floor=20)
    for f in aau:
        key = f.full.split("ConstraintKeeper<")[-1].split(">::AddAllUnbridged")[0]
        key = key.split(", ", 2)[-1][:90]
        probs = []
        lp = [n for n in f.walk() if n["k"] == "CXXForRangeStmt"]
        index_var = None              # set when the loop counts positions itself (index loop over cons_)
        if len(lp) == 1:
            _, loopvar, body = range_for(lp[0])
        else:
            # an index loop over all containers: for (i = 0; i < cons_.size(); ++i) with the element bound to a local reference
            cl = [(n, loop_shape(f, n)) for n in f.walk() if n["k"] in ("ForStmt", "WhileStmt")]
            cl = [(n, sh) for n, sh in cl if sh is not None and sh["dir"] == "up" and sh["stepped"] and sh["rel"] in ("<", "!=") and
                  sh["start"] not in (None, "continues") and cv(sh["start"]) == 0 and
                  xrender(f, sh["bound"], True).replace(" ", "").replace("(int)", "").replace("(size_t)", "").replace("this->", "") == "cons_.size()"]
            if len(cl) != 1:
                raise AnalysisBroken("C20.P1: AddAllUnbridged without a single loop over the containers")
            lpn, sh = cl[0]
            body = [x for x in lpn.get("c", []) if x is not None][-1]
            index_var = sh["var"]
            refs_ = [v for v in walk(body) if v["k"] == "VarDecl" and kids(v) and (v.get("ct") or "").rstrip().endswith("&") and
                     render(kids(v)[0]).replace(" ", "").replace("this->", "") == "cons_[%s]" % sh["name"]]
            if len(refs_) != 1:
                raise AnalysisBroken("C20.P1: the container of an iteration is not bound to one local reference")
            loopvar = refs_[0]
        cont = loopvar["declId"]
        inner = {n["i"] for n in walk(body)}
        adds = [v for v in walk(body) if v["k"] == "VarDecl" and (v.get("ct") or "").replace("const ", "") == "bool"]
        sts = [c for c in walk(body) if c["k"] == "CXXMemberCallExpr" and c.get("callee") == "mp::ConstraintKeeper::ExportConStatus"]
        acs = [c for c in walk(body) if c["k"] == "CXXMemberCallExpr" and c.get("callee") in api_add]
        aes = [c for c in walk(body) if c["k"] == "CXXMemberCallExpr" and c.get("callee", "").endswith("CopyLink::AddEntry")]
        if len(sts) != 1:
            probs.append("%d ExportConStatus calls in the loop body" % len(sts))
        if len(acs) != 1 or len(aes) != 1:
            probs.append("%d AddConstraint / %d AddEntry calls" % (len(acs), len(aes)))
        if not probs:
            st = sts[0]
            conds_st = [(cid, pol) for cid, pol in f.cfg.facts_at(st) if cid in inner]
            if conds_st:
                probs.append("ExportConStatus is conditional on `%s`: constraints on the other branch get no status record"
                             % render(f.nodes[conds_st[0][0]]))
            if not f.cfg.postdominates(st, body if kids(body) == [] else kids(body)[0]):
                probs.append("ExportConStatus is not reached on every path through the loop body")
            a = call_args(st)
            reassigned = set()
            for n in walk(body):
                if n["k"] in ("BinaryOperator", "CompoundAssignOperator") and n.get("op", "").endswith("=") and \
                        n.get("op") not in ("==", "!=", "<=", ">="):
                    reassigned.add(strip(kids(n)[0]).get("declId"))
            locals_ = {v["declId"]: v for v in adds}

            def canon(e, depth=0):
                """(negated, atom) of a boolean expression over `<loopvar>.IsBridged()`, or None"""
                e = strip(e)
                if depth > 6:
                    return None
                if e["k"] == "DeclRefExpr" and e.get("declId") in locals_ and e["declId"] not in reassigned and kids(locals_[e["declId"]]):
                    return canon(kids(locals_[e["declId"]])[0], depth + 1)
                if e["k"] == "UnaryOperator" and e.get("op") == "!":
                    r = canon(kids(e)[0], depth + 1)
                    return (not r[0], r[1]) if r else None
                if e["k"] == "BinaryOperator" and e.get("op") in ("==", "!="):
                    x, y = kids(e)
                    for u_, w_ in ((x, y), (y, x)):
                        c_ = strip(w_)
                        if c_["k"] == "CXXBoolLiteralExpr" or cv(c_) in (0, 1):
                            val = (c_.get("v") in ("1", "true", 1, True)) if c_["k"] == "CXXBoolLiteralExpr" else bool(cv(c_))
                            r = canon(u_, depth + 1)
                            if r is None:
                                return None
                            flip = (e["op"] == "==") != val
                            return (r[0] != flip, r[1])
                    return None
                if e["k"] == "CXXMemberCallExpr" and e.get("callee", "").endswith("Container::IsBridged") and \
                        render(e).startswith(loopvar["name"] + "."):
                    return (False, "bridged")
                return None
            fl = canon(a[3])
            if fl != (True, "bridged"):
                probs.append("the add2final argument `%s` is not !%s.IsBridged()" % (render(a[3]), loopvar["name"]))
            for c_, nm in ((acs[0], "AddConstraint"), (aes[0], "AddEntry")):
                cs = [(cid, pol) for cid, pol in f.cfg.facts_at(c_) if cid in inner]
                # drop facts implied by enclosing short-circuit nodes of the same condition
                tops = [(cid, pol) for cid, pol in cs
                        if not any(cid != o and cid in {x["i"] for x in walk(f.nodes[o])} for o, _ in cs)]
                okg = False
                if len(tops) == 1:
                    r = canon(f.nodes[tops[0][0]])
                    okg = r is not None and r[1] == "bridged" and (r[0] == tops[0][1])
                if not okg:
                    probs.append("%s is executed under [%s], expected exactly [!%s.IsBridged()]" %
                                 (nm, ", ".join(("" if pol else "!") + "(" + render(f.nodes[cid]) + ")" for cid, pol in tops), loopvar["name"]))
            if strip(a[1]).get("declId") != cont:
                probs.append("status is exported for `%s`, not the loop's container" % render(a[1]))
            if not render(call_args(acs[0])[0]).startswith(loopvar["name"] + "."):
                probs.append("AddConstraint receives `%s`" % render(call_args(acs[0])[0]))
            # index variable: 0-initialised, incremented once per iteration after the status export
            iv = strip(a[0])
            incs = [n for n in walk(body) if n["k"] == "UnaryOperator" and n.get("op") == "++" and strip(kids(n)[0]).get("declId") == iv.get("declId")]
            ivd = [v for v in f.walk() if v["k"] == "VarDecl" and v["declId"] == iv.get("declId")]
            if index_var is not None:
                # the loop variable itself is the position (0, 1, 2, ... by the loop's own step; not written in the body)
                oki = iv["k"] == "DeclRefExpr" and iv.get("declId") == index_var and not incs
            else:
                oki = iv["k"] == "DeclRefExpr" and len(incs) == 1 and len(ivd) == 1 and kids(ivd[0]) and cv(kids(ivd[0])[0]) == 0 and \
                    not [c for c in f.cfg.facts_at(incs[0]) if c[0] in inner] and f.cfg.dominates(st, incs[0])
            if oki:
                others = [u for u in decl_uses(f, iv["declId"]) if u["i"] in inner]
                for u in others:
                    p = next((x for x in f.ancestors(u) if x["k"] not in ("ImplicitCastExpr", "ParenExpr")), None)
                    if p is not None and p["k"] in ("BinaryOperator", "CompoundAssignOperator") and p.get("op", "").endswith("=") \
                            and p.get("op") not in ("==", "!=", "<=", ">=") and strip(kids(p)[0])["i"] == u["i"]:
                        oki = False
            if not oki:
                probs.append("the exported index `%s` is not a counter of the containers (0, ++ once per iteration after the export)" % render(iv))
            sel = [c for c in walk(aes[0]) if c["k"] == "CXXMemberCallExpr" and c.get("callee", "").endswith("ValueNode::Select")]
            if not sel or strip(call_args(sel[0])[0]).get("declId") != iv.get("declId"):
                probs.append("the copy link's source node is not Select(%s)" % render(iv))
        p1.check(not probs, key, short_loc(f.loc), "status once per container; delivered <=> final", "; ".join(probs[:3]))
    # the record itself
    ecs = all_of("mp::ConstraintKeeper::ExportConStatus")
    nst = 0
    for f in ecs:
        vals = {}
        for x in f.walk():
            if x["k"] == "CXXOperatorCallExpr" and x.get("op") == "=" and x.get("callee", "").startswith(JW + "::"):
                a0 = strip(call_args(x)[0])
                if a0["k"] == "CXXOperatorCallExpr" and a0.get("op") == "[]":
                    kx = strip(call_args(a0)[1])
                    while kx["k"] == "CXXConstructExpr" and kids(kx):
                        kx = strip(kids(kx)[0])
                    if kx["k"] == "StringLiteral":
                        vals[kx.get("v")] = (render(call_args(x)[1]), x)
        pn = [p["name"] for p in f.params]
        want = {"index": pn[0], "final": "(int)" + pn[3], "unused": "(int)%s.IsUnused()" % pn[1], "bridged": "(int)%s.IsBridged()" % pn[1]}
        bad = ["%s=%s" % (k_, vals.get(k_, ("missing",))[0]) for k_, w in want.items()
               if vals.get(k_, ("",))[0].replace("(int)", "") != w.replace("(int)", "")]
        cond = []
        for k_ in want:
            if k_ in vals:
                inner_conds = [c for c in f.cfg.facts_at(vals[k_][1]) if "GetLogger" not in render(f.nodes[c[0]])]
                if inner_conds:
                    cond.append(k_)
        nst += 1
        if bad or cond or nst <= 1:
            p1.check(not bad and not cond, "record|%s" % f.full.split(">::ExportConStatus")[0][-50:], short_loc(f.loc),
                     "index/final/unused/bridged are the parameters' values, unconditionally",
                     "fields %s %s" % (bad, ("conditional: %s" % cond) if cond else ""))
    rep.extra["status_record_instantiations"] = nst

    # ---- P2 ----------------------------------------------------------------------------
    p2 = rep.rule("C20.P2", "PATH", "every insertion of a constraint, variable, objective or NL item is followed by its record", floor=8)
    acn = all_of("mp::ConstraintKeeper::AddConstraint")
    nac = 0
    for f in acn:
        eb = [c for c in f.walk() if c["k"] == "CXXMemberCallExpr" and c.get("callee", "").split("::")[-1] in
              ("emplace_back", "push_back", "emplace_front", "push_front", "insert", "emplace") and "cons_" in render(kids(c)[0])]
        ex = [c for c in f.walk() if c["k"] == "CXXMemberCallExpr" and c.get("callee") == "mp::ConstraintKeeper::ExportConstraint"]
        ok = len(eb) == 1 and len(ex) == 1 and eb[0].get("callee", "").endswith("emplace_back") and \
            f.cfg.dominates(eb[0], ex[0]) and f.cfg.postdominates(ex[0], eb[0])
        if ok:
            a = call_args(ex[0])
            ok = render(a[0]).replace(" ", "") in ("cons_.size()-1", "(int)cons_.size()-1") and render(a[1]) == "cons_.back()"
        nac += 1
        if not ok or nac == 1:
            p2.check(ok, "constraint|%s" % f.full.split(">::AddConstraint")[0][-60:], short_loc(f.loc),
                     "cons_.emplace_back(...) is followed on every path by ExportConstraint(cons_.size()-1, cons_.back())",
                     "insertion into cons_ is not followed by the record of the new last element "
                     "(%d insertion(s), %d export(s)%s)" % (len(eb), len(ex), (": " + render(ex[0])) if ex else ""))
    rep.extra["AddConstraint_instantiations"] = nac
    # who else grows cons_ : any ConstraintKeeper member in the call graph calling deque growth... via exported emitters only
    grow = callers.get("std::deque::emplace_back", set()) | callers.get("std::deque::push_back", set())
    ck_grow = sorted(q for q in grow if q.startswith("mp::ConstraintKeeper::"))
    p2.check(ck_grow == ["mp::ConstraintKeeper::AddConstraint"], "constraint|who-grows-cons_", "",
             "the only ConstraintKeeper member growing a deque is AddConstraint",
             "deque growth in ConstraintKeeper members %s" % ck_grow)
    av = one("mp::FlatModel::AddVar__basic")
    avs = one("mp::FlatModel::AddVars__basic")
    for f, how in ((av, "push_back"), (avs, "insert")):
        grows = [c for c in f.walk() if c["k"] == "CXXMemberCallExpr" and c.get("callee", "").split("::")[-1] == how and
                 render(kids(c)[0]).split(".")[0] in ("var_lb_", "var_ub_", "var_type_")]
        ex = [c for c in f.walk() if c["k"] == "CXXMemberCallExpr" and c.get("callee") == "mp::FlatModel::ExportVars"]
        ok = len(grows) == 3 and len(ex) == 1 and all(f.cfg.dominates(g_, ex[0]) and f.cfg.postdominates(ex[0], g_) for g_ in grows)
        start = render(call_args(ex[0])[0]).replace(" ", "") if ex else ""
        if f is av:
            ok = ok and start in ("var_type_.size()-1", "var_lb_.size()-1", "var_ub_.size()-1")
        else:
            ok = ok and start in ("var_type_.size()-lbs.size()", "var_lb_.size()-lbs.size()")
        p2.check(ok, "variables|%s" % f.name, short_loc(f.loc), "the three arrays grow, then ExportVars(%s, ...)" % start,
                 "growth of the variable arrays is not followed by ExportVars of the new range (start `%s`)" % start)
    vgrow = set()
    for fnq in cg:
        if fnq["qn"].startswith("mp::FlatModel::"):
            pass
    ao = one("mp::FlatModel::AddObjective")
    pb = [c for c in ao.walk() if c["k"] == "CXXMemberCallExpr" and c.get("callee", "").endswith("::push_back")]
    ex = [c for c in ao.walk() if c["k"] == "CXXMemberCallExpr" and c.get("callee") == "mp::FlatModel::ExportObjective"]
    ok = len(pb) == 1 and len(ex) == 1 and ao.cfg.dominates(pb[0], ex[0]) and ao.cfg.postdominates(ex[0], pb[0]) and \
        render(call_args(ex[0])[0]).replace(" ", "") == "num_objs()-1" and render(call_args(ex[0])[1]).endswith(".back()")
    p2.check(ok, "objective|AddObjective", short_loc(ao.loc), "push_back then ExportObjective(num_objs()-1, back())")
    pv = one("mp::FlatModel::PushVariablesTo")
    ex = [c for c in pv.walk() if c["k"] == "CXXMemberCallExpr" and c.get("callee") == "mp::FlatModel::ExportVars"]
    ok = len(ex) == 1 and cv(call_args(ex[0])[0]) == 0 and \
        pv.cfg.path_avoiding(None, "exit", [ex[0]["i"]], from_entry=True) is None and \
        [render(x) for x in call_args(ex[0])[1:4]] == ["var_lb_", "var_ub_", "var_type_"]
    p2.check(ok, "variables|final-update", short_loc(pv.loc), "PushVariablesTo re-exports all variables (final bounds, names) on every path")
    # ---- X1: NL item records carry the item's own NL index ---------------------------------------------
    x1 = rep.rule("C20.X1", "TABLE", "records of NL items carry the item's NL index and name: algebraic constraint i -> i, logical constraint i -> num_algebraic_cons()+i, objective i -> i", floor=3)
    WANT_IX = {"ExportAlgCon": ("index", {"i": 1.0}, "con_name"), "ExportLogCon": ("index", {"i": 1.0, "GetModel().num_algebraic_cons()": 1.0}, "con_name"),
               "ExportObj": ("NL_OBJECTIVE_index", {"i": 1.0}, "obj_name")}

    def aff_ix(f, e, depth=0):
        e = strip(e)
        if e["k"] == "BinaryOperator" and e.get("op") in ("+", "-"):
            a_, b_ = aff_ix(f, kids(e)[0], depth), aff_ix(f, kids(e)[1], depth)
            out = dict(a_)
            for t_, v_ in b_.items():
                out[t_] = out.get(t_, 0.0) + (v_ if e["op"] == "+" else -v_)
            return {t_: v_ for t_, v_ in out.items() if v_}
        if e["k"] == "DeclRefExpr" and depth < 3:
            vd = [v for v in f.walk() if v["k"] == "VarDecl" and v.get("declId") == e.get("declId") and kids(v)]
            if len(vd) == 1:
                return aff_ix(f, kids(vd[0])[0], depth + 1)
        return {render(e).replace(" ", "").replace("this->", ""): 1.0}
    for fname, (keyname, want_ix, namer) in sorted(WANT_IX.items()):
        g = one("mp::ProblemFlattener::" + fname)
        idx_val = None
        name_args = []
        for n in g.walk():
            if n["k"] == "CXXOperatorCallExpr" and n.get("op") == "=":
                a = call_args(n)
                lits = [x.get("v") for x in walk(a[0]) if x["k"] == "StringLiteral"]
                if lits and lits[0] == keyname:
                    idx_val = a[1]
            if n["k"] == "CXXMemberCallExpr" and (n.get("callee") or "").split("::")[-1] == namer:
                name_args.append(call_args(n)[0])
        okx = idx_val is not None and aff_ix(g, idx_val) == want_ix and bool(name_args) and all(aff_ix(g, a_) == want_ix for a_ in name_args)
        x1.check(okx, fname, short_loc(g.loc), "%s writes \"%s\" = %s and takes the name of the same index" % (fname, keyname, "+".join(sorted(want_ix))),
                 "%s writes \"%s\" = %s (names from %s): the record names another NL item than the one exported, so some NL constraints have no record and link records point at items that have none" %
                 (fname, keyname, aff_ix(g, idx_val) if idx_val is not None else "?", [aff_ix(g, a_) for a_ in name_args]))

    csi = one("mp::ProblemFlattener::ConvertStandardItems")
    want = [("ExportCommonExpr", "num_common_exprs"), ("ExportObj", "num_objs"), ("ExportAlgCon", "n_cons"), ("ExportLogCon", "n_lcons")]
    for exn, bound in want:
        ex = [c for c in csi.walk() if c["k"] == "CXXMemberCallExpr" and c.get("callee", "").endswith("::" + exn)]
        ok = len(ex) == 1
        why = "%d calls of %s" % (len(ex), exn)
        if ok:
            lp = csi.enclosing(ex[0], ("ForStmt",))
            ok = lp is not None
            if ok:
                lk = lp.get("c", [])
                init, cond, inc, body = lk[0], lk[2], lk[3], lk[4]
                ivd = kids(init)[0] if init and kids(init) else None
                getter_ = {"num_common_exprs": "num_common_exprs", "num_objs": "num_objs", "n_cons": "num_algebraic_cons", "n_lcons": "num_logical_cons"}[bound]
                sh_ = loop_shape(csi, lp)
                okl = ivd is not None and sh_ is not None and sh_["dir"] == "up" and sh_["stepped"] and sh_["rel"] == "<" and sh_["start"] not in (None, "continues") and \
                    cv(sh_["start"]) == 0 and sh_["var"] == ivd["declId"] and xrender(csi, sh_["bound"], True).replace(" ", "").endswith(getter_ + "()")
                arg = strip(call_args(ex[0])[0])
                okl = okl and arg.get("declId") == ivd["declId"]
                inner = {n["i"] for n in walk(body)}
                okl = okl and not [c for c in csi.cfg.facts_at(ex[0]) if c[0] in inner]
                # the export precedes the conversion of the same index in the body
                conv = [c for c in walk(body) if c["k"] == "CXXMemberCallExpr" and c.get("callee", "").split("::")[-1].startswith("Convert")]
                okl = okl and bool(conv) and all(csi.cfg.dominates(ex[0], c) for c in conv)
                # the bound is the model's count
                bd = [v for v in csi.walk() if v["k"] == "VarDecl" and v.get("name") == bound]
                getter = {"num_common_exprs": "num_common_exprs", "num_objs": "num_objs", "n_cons": "num_algebraic_cons",
                          "n_lcons": "num_logical_cons"}[bound]
                okl = okl and (not bd or (len(bd) == 1 and render(kids(bd[0])[0]).endswith(getter + "()")))
                ok = okl
                why = "loop `%s; %s; %s` exports `%s`" % (render(init), render(cond), render(inc), render(arg))
        p2.check(ok, "nl-items|%s" % exn, short_loc(csi.loc), "for i in [0, %s): %s(i) before the conversion of item i" % (bound, exn), why)

    # ---- P3 ----------------------------------------------------------------------------
    p3 = rep.rule("C20.P3", "PATH", "link entries are flushed after the last producer and before the file is closed; "
                  "Add flushes before appending a new range", floor=6)
    cge = one("mp::FlatConverter::CloseGraphExporter")
    fin = [c for c in cge.walk() if c["k"] == "CXXMemberCallExpr" and c.get("callee") == "mp::pre::ValuePresolverImpl::FinishExportingLinkEntries"]
    cl = [c for c in cge.walk() if c["k"] == "CXXMemberCallExpr" and c.get("callee") == "mp::BasicFileAppender::Close"]
    p3.check(len(fin) == 1 and len(cl) == 1 and cge.cfg.dominates(fin[0], cl[0]) and not cge.cfg.before(cl[0], fin[0]),
             "flush-before-close", short_loc(cge.loc), "FinishExportingLinkEntries() dominates GetFileAppender().Close()",
             "the file is closed without (or before) flushing the pending link entries")
    fe = one("mp::pre::ValuePresolverImpl::FinishExportingLinkEntries")
    p3.check(any(c.get("callee") == "mp::pre::ValuePresolverImpl::ExportRemainingEntries" for c in fe.walk() if c["k"] == "CXXMemberCallExpr"),
             "finish-exports-remaining", short_loc(fe.loc), "FinishExportingLinkEntries calls ExportRemainingEntries")
    # the final flush happens once, at the end: an earlier flush marks the still extensible last range as exported, and entries merged into
    # it later are never written
    c_fin = sorted(callers.get("mp::pre::ValuePresolverImpl::FinishExportingLinkEntries", set()))
    c_ere = sorted(callers.get("mp::pre::ValuePresolverImpl::ExportRemainingEntries", set()))
    p3.check(c_fin == ["mp::FlatConverter::CloseGraphExporter"] and set(c_ere) <= {"mp::pre::ValuePresolverImpl::Add", "mp::pre::ValuePresolverImpl::FinishExportingLinkEntries"},
             "flush-only-at-close", short_loc(cge.loc), "FinishExportingLinkEntries is called by CloseGraphExporter only; ExportRemainingEntries by Add and by the final flush only",
             "link entries are flushed from %s / %s: a flush before the last producer closes the last range for export while it can still be extended, "
             "so entries added to it afterwards get no record" % (c_fin, c_ere))
    fmi = one("mp::FlatConverter::FinishModelInput")
    cg_call = [c for c in fmi.walk() if c["k"] == "CXXMemberCallExpr" and c.get("callee") == "mp::FlatConverter::CloseGraphExporter"]
    if len(cg_call) != 1:
        raise AnalysisBroken("CloseGraphExporter call not found in FinishModelInput")
    QUIET = ("GetExport", "AllEntriesExported", "GetEnv", "PrintWarnings", "operator bool", "GetModel", "GetModelAPI")
    late = []
    for c in fmi.walk():
        if c["k"] in ("CXXMemberCallExpr", "CallExpr") and c["i"] != cg_call[0]["i"] and fmi.cfg.before(cg_call[0], c):
            nm = c.get("callee", "").split("::")[-1]
            if nm not in QUIET:
                late.append(nm)
    prod = [c for c in fmi.walk() if c["k"] == "CXXMemberCallExpr" and c.get("callee", "").split("::")[-1] in
            ("ConvertModel", "PushModelTo", "PresolveNames", "FixUnusedDefinedVars", "RelaxIntegrality")]
    p3.check(not late and len(prod) >= 2 and all(fmi.cfg.dominates(c, cg_call[0]) for c in prod if c.get("callee", "").split("::")[-1] in ("ConvertModel", "PushModelTo")),
             "close-after-producers", short_loc(fmi.loc),
             "CloseGraphExporter follows ConvertModel and PushModelTo; nothing that can register links runs after it",
             "calls after CloseGraphExporter: %s" % late if late else "ConvertModel/PushModelTo do not precede CloseGraphExporter")
    cm = one("mp::ProblemFlattener::ConvertModel")
    seq = [c.get("callee", "").split("::")[-1] for c in cm.walk() if c["k"] == "CXXMemberCallExpr" and
           c.get("callee", "").split("::")[-1] in ("StartModelInput", "ConvertStandardItems", "FinishModelInput")]
    p3.check(seq == ["StartModelInput", "ConvertStandardItems", "FinishModelInput"], "open-convert-finish", short_loc(cm.loc),
             "ConvertModel: StartModelInput (opens the file), ConvertStandardItems, FinishModelInput", "sequence %s" % seq)
    smi = one("mp::FlatConverter::StartModelInput")
    p3.check(any(c.get("callee") == "mp::FlatConverter::OpenGraphExporter" for c in smi.walk() if c["k"] == "CXXMemberCallExpr"),
             "start-opens", short_loc(smi.loc), "StartModelInput opens the graph exporter")
    add = one("mp::pre::ValuePresolverImpl::Add")
    ere = [c for c in add.walk() if c["k"] == "CXXMemberCallExpr" and c.get("callee") == "mp::pre::ValuePresolverImpl::ExportRemainingEntries"]
    app = [c for c in add.walk() if c["k"] == "CXXMemberCallExpr" and c.get("callee") == "mp::pre::LinkRangeList::Add"]
    p3.check(len(ere) == 1 and len(app) == 1 and add.cfg.dominates(ere[0], app[0]), "add-flushes-first", short_loc(add.loc),
             "a new range is appended only after the existing ones were exported",
             "brl_.Add is reachable without ExportRemainingEntries: the previous range could be exported before it is complete or never")
    ext = [c for c in add.walk() if c["k"] == "CXXMemberCallExpr" and c.get("callee") == "mp::pre::LinkRange::TryExtendBy"]
    p3.check(len(ext) == 1 and render(kids(ext[0])[0]).startswith("brl_.back()"), "extend-only-last", short_loc(add.loc),
             "only the last (not yet exported) range is extended in place")
    er = one("mp::pre::ValuePresolverImpl::ExportRemainingEntries")
    fl = [n for n in er.walk() if n["k"] in ("ForStmt", "WhileStmt")]
    ok = len(fl) == 2
    why = ""
    if ok:
        o, i_ = fl
        so, si = loop_shape(er, o), loop_shape(er, i_)
        sc_ = lambda t: t.replace(" ", "").replace("(int)", "").replace("(size_t)", "").replace("this->", "")
        # outer: i_exported_ runs on (continuing from its stored value) while it is < brl_.size(), one step per range
        ok = so is not None and so["stepped"] and so["dir"] == "up" and so["rel"] == "<" and so["name"] == "i_exported_" and \
            sc_(render(so["bound"])) == "brl_.size()" and so["start"] is None
        # inner: the entry index runs from ir_.beg_ to ir_.end_ of brl_[i_exported_], one ExportLinkEntry per entry
        if ok:
            ok = si is not None and si["stepped"] and si["dir"] == "up" and si["rel"] in ("!=", "<") and si["start"] is not None and \
                sc_(xrender(er, si["start"], True)) == "brl_[i_exported_].ir_.beg_" and sc_(xrender(er, si["bound"], True)) == "brl_[i_exported_].ir_.end_"
        if ok:
            ex = [c for c in walk(i_) if c["k"] == "CXXMemberCallExpr" and c.get("callee") == "mp::pre::ValuePresolverImpl::ExportLinkEntry"]
            ok = len(ex) == 1 and sc_(xrender(er, call_args(ex[0])[0], True)) == "brl_[i_exported_].b_" and strip(call_args(ex[0])[1]).get("declId") == si["var"]
            body_ = [x for x in i_.get("c", []) if x is not None][-1]
            inner = {n["i"] for n in walk(body_)}
            ok = ok and not [c for c in er.cfg.facts_at(ex[0]) if c[0] in inner]
    p3.check(ok, "export-loop", short_loc(er.loc), "every entry [beg_, end_) of every not yet exported range is exported once, "
             "and i_exported_ advances past it")
    # the items of a static link's record: position k of the entry goes with node k; sources are the first NSources positions,
    # targets the rest (evaluated for each instantiation: the loops are run on the template's constants)
    l2 = rep.rule("C20.L2", "TABLE", "a static link's record lists (node k, entry[k]) for every position k: sources [0, NSources), targets [NSources, NIndexes)", floor=1)
    fe_ = [f for f in funcs if f.qn == "mp::pre::BasicStaticIndivEntryLink::FillEntryItems"]
    if not fe_:
        raise AnalysisBroken("C20.L2: no instantiation of BasicStaticIndivEntryLink::FillEntryItems")
    seen_l2 = set()
    for f in sorted(fe_, key=lambda g: g.full):
        m_ = re.search(r", (\d+), (\d+), (\d+)>::FillEntryItems", f.full)
        if not m_:
            raise AnalysisBroken("C20.L2: template arguments of %s not readable" % f.full[:120])
        nn_, ni_, ns_ = int(m_.group(1)), int(m_.group(2)), int(m_.group(3))
        if (nn_, ni_, ns_) in seen_l2:
            continue
        seen_l2.add((nn_, ni_, ns_))
        rec_ = {"src_items_": [], "dest_items_": []}
        box = {}

        def atom(t_, n_, env_):
            if n_["k"] == "CXXMemberCallExpr":
                nm_ = (n_.get("callee") or "").split("::")[-1]
                ob_ = render(call_object(n_)).replace(" ", "") if call_object(n_) is not None else ""
                which = next((w for w in rec_ if ob_.endswith(w)), None)
                if which and nm_ in ("clear", "reserve"):
                    if nm_ == "clear":
                        rec_[which] = []
                    return 0
                if which and nm_ in ("push_back", "emplace_back"):
                    ats = [x for a_ in call_args(n_) for x in walk(a_) if x["k"] == "CXXMemberCallExpr" and (x.get("callee") or "").split("::")[-1] in ("at", "operator[]")] + \
                          [x for a_ in call_args(n_) for x in walk(a_) if x["k"] == "CXXOperatorCallExpr" and x.get("op") == "[]"]
                    pr = {}
                    for x in ats:
                        if x["k"] == "CXXMemberCallExpr":
                            o_, ix_ = render(call_object(x)).replace(" ", ""), call_args(x)[0]
                        else:
                            o_, ix_ = render(call_args(x)[0]).replace(" ", ""), call_args(x)[1]
                        pr["node" if o_.endswith("ndl_") else "entry"] = box["mi"].expr(ix_, env_, 0)
                    rec_[which].append((pr.get("node"), pr.get("entry")))
                    return 0
            return None
        mi = MiniInt(F, atom)
        box["mi"] = mi
        try:
            mi.call(f, [("obj", None, None), ("obj", None, None)])
        except AnalysisBroken as e_:
            if "without a return" not in str(e_):
                raise AnalysisBroken("C20.L2: FillEntryItems: %s" % e_)
        want_s, want_d = [(k, k) for k in range(ns_)], [(k, k) for k in range(ns_, ni_)]
        l2.check(rec_["src_items_"] == want_s and rec_["dest_items_"] == want_d, "items|%d/%d" % (ns_, ni_), short_loc(f.loc),
                 "%d source and %d target items, each (node k, entry[k])" % (ns_, ni_ - ns_),
                 "with %d sources of %d positions the record lists sources %s and targets %s as (node, entry position): a record then names an item "
                 "that the link does not connect (possibly one that does not exist)" % (ns_, ni_, rec_["src_items_"], rec_["dest_items_"]))
    fa = [f for f in funcs if f.qn == "mp::FileAppender__fstream::Append"]
    if fa:
        g = fa[0]
        p3.check(any(x["k"] == "CXXOperatorCallExpr" and x.get("op") == "<<" for x in g.walk()), "appender-writes", short_loc(g.loc),
                 "FileAppender::Append writes the buffer to the stream")
    # the export starts from an empty file: Open(name, erase = true) truncates; the exporter asks for it
    fo = [f for f in funcs if f.qn == "mp::FileAppender__fstream::Open"]
    if fo:
        g = fo[0]
        er = g.params[1] if len(g.params) > 1 else None
        # a stream opened on the file with the truncation bit set (and not the append bit), in Open itself or in a helper it calls,
        # reached when the erase flag is set; open modes are compared as constants (libstdc++: trunc = 32, app = 1)
        tb = [cv(x) for f_ in funcs for x in f_.walk() if x["k"] == "DeclRefExpr" and x.get("name") == "trunc" and cv(x) is not None]
        ab = [cv(x) for f_ in funcs for x in f_.walk() if x["k"] == "DeclRefExpr" and x.get("name") == "app" and cv(x) is not None]
        TRUNC, APP = (int(tb[0]) if tb else 32), (int(ab[0]) if ab else 1)

        def opens_truncating(n):
            if n["k"] in ("CXXConstructExpr", "CXXTemporaryObjectExpr") and "ofstream" in ((n.get("callee") or "") + (n.get("ct") or "")):
                a_ = [x for x in kids(n) if x is not None and strip(x)["k"] != "CXXDefaultArgExpr"]
            elif n["k"] == "CXXMemberCallExpr" and (n.get("callee") or "").endswith("::open"):
                a_ = call_args(n)
            else:
                return False
            if len(a_) < 2 or cv(a_[1]) is None:
                return False
            m_ = int(cv(a_[1]))
            return bool(m_ & TRUNC) and not (m_ & APP)
        oke = False
        for a_, c_, r_, o_ in reach_calls(F, g, opens_truncating, depth=1):
            args_ = [x for x in kids(c_) if x is not None] if c_["k"] != "CXXMemberCallExpr" else call_args(c_)
            name_ok = bool(args_) and strip(r_(args_[0])).get("declId") == g.params[0]["declId"]
            if er is not None and (er["name"], True) in norm_facts(g, a_) and name_ok:
                oke = True
        p3.check(oke, "appender-erases", short_loc(g.loc), "Open(name, erase) truncates the named file when erase is set (an append-mode stream cannot: it always writes at the end)",
                 "Open(name, erase = true) does not truncate the file: records of an earlier run stay in the export, so items get two status records and records name items the model does not have")
        oge = [f for f in funcs if f.qn == "mp::FlatConverter::OpenGraphExporter"]
        opn = [c for f in oge[:1] for c in f.walk() if c["k"] == "CXXMemberCallExpr" and (c.get("callee") or "").endswith("FileAppender::Open")]
        p3.check(len(opn) == 1 and len(call_args(opn[0])) >= 2 and cv(call_args(opn[0])[1]) == 1, "exporter-opens-erasing", short_loc(oge[0].loc) if oge else "",
                 "OpenGraphExporter opens the file with erase = true")
    return rep
