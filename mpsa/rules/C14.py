"""C14 - the SOL reader is total and memory-safe on arbitrary files.

R1 interval analysis (mpsa/intervals.py) of ReadSOLFile, gsufread, bsufread,
   sufheadcheck, Lget and the Read helpers: every subscript of a fixed-size
   array, every pointer offset into one and every read/copy length into one is
   inside the array; arithmetic on file-provided integers cannot overflow;
G1 the vector readers offered to the handler are sized by counts that were
   compared with the declared problem size;
P1 after every delivery the reader's error state is checked and returned.
"""
import re
from ..intervals import Intervals, Env, path_of, INF, TOP, hull
from ..cfg import reach_calls, norm_facts, xrender, expand_locals, Facts, kids, strip, walk, cv, render, short_loc, call_args, call_object, TRANSPARENT
from ..facts import export_many, AnalysisBroken
from ..absexec import int_type, type_range
from .. import units

LEVEL = "other"
TECHNIQUE = ("static analysis: interval abstract interpretation with widening over the CFG of the SOL "
             "reader (file-provided values are TOP until narrowed by a dominating comparison, callee "
             "summaries for the header checks), plus path rules for count checks and error-state checks")
LEVEL_TEXT = ("Every fixed-size buffer access of the reader is an obligation discharged by intervals "
              "that hold for all file contents; count checks and error propagation are path rules "
              "over all CFG paths; the per-suffix scratch object starts zero-filled for every suffix. Two byte-scanning loops over the message buffer are bounded by "
              "relational invariants (count + offset) that intervals cannot express; they are listed "
              "as not decided. Termination on endless streams is not decided."
              "  Also decided (added after the seeded rounds): the library's own solution handler range-checks the item index of every suffix entry and stores the primal values in a vector of the model's size.")
LEVEL_NOTE = ("Trusted: clang 14 front end/CFG, tool/mpx.cc, mpsa/intervals.py. fread/fgets/strtol are "
              "modelled as producing arbitrary values of their type; fgets(buf, n) writes at most n bytes.")
DESIGN_REF = "DESIGN.md section 4, C14"
EXPLANATION = (
    "Decides for all inputs: (R1) each subscript/offset/length obligation on buf[512], Options[14], "
    "Objno[2], SufHead and the suffix scratch vector is inside the capacity known at that point, and "
    "the integer arithmetic on file-provided header fields (Lget digits, scratch size) cannot "
    "overflow; (G1) the counts given to the primal/dual vector readers were compared with "
    "NumVars()/NumAlgCons() or are those values, and suffix readers get their count only after "
    "sufheadcheck accepted the header; (P1) each handler delivery is followed by CheckReader whose "
    "failure returns the error code, and VecReader::ReadNext zeroes its counter on failure. Not "
    "decided: the two backspace-skipping scans of the message buffer (relational bound), "
    "termination, and what handlers do with the offered readers.")
ASSUMPTIONS = ["fgets(dst, n, f) stores at most n bytes including the NUL; fread(dst, s, c, f) at most s*c bytes",
               "handler callbacks cannot modify the reader's private state"]
TRUSTED = ["clang 14 front end + CFG builder", "tool/mpx.cc", "mpsa/intervals.py", "mpsa/rules/C14.py"]

SR2 = "mp::SOLReader2"
NOT_DECIDED = ("*++b1",)     # backspace-skipping scans: while(--n1 > 0 && *++b1 == '\\b')


def run(rep, ctx):
    repo = ctx["repo"]
    fn = [SR2 + r"::.*", r"mp::Lget", r"mp::decstring", r"mp::Read", r"mp::[A-Za-z_0-9]+", r"mp::VecReader::.*",
          r"mp::SuffixReader::.*", r"mp::SOLHandler_Easy::(OnSuffix|NItemsMax|OnPrimalSolution|OnDualSolution)"]
    jobs = [dict(unit="nl-writer2/src/nl-solver.cc", fn=fn, repo=repo,
                 rec=[r"mp::SufHead", r"mp::SufRead", SR2])]
    F = Facts(export_many(jobs))
    F.by_id = {f.id: f for f in F.funcs if not f.is_dependent()}
    rep.note_units([j["unit"] for j in jobs])
    funcs = [f for f in F.funcs if not f.is_dependent() and f.cfg is not None]
    rep.note_funcs(funcs)

    def pick(name, pred=lambda f: True):
        c = [f for f in funcs if f.name == name and pred(f)]
        if not c:
            raise AnalysisBroken("anchor %s not found" % name)
        return c[0]
    easy = lambda f: "SOLHandler_Easy" in f.full or not f.qn.startswith(SR2)
    lget = pick("Lget")
    shc = pick("sufheadcheck", easy)
    rsf = pick("ReadSOLFile", easy)
    gsr = pick("gsufread", easy)
    bsr = pick("bsufread", easy)

    def own_nonconst_call(call):
        cal = call.get("callee", "")
        return cal.startswith(SR2 + "::") and cal.split("::")[-1] in (
            "sufheadcheck", "gsufread", "bsufread", "ReportBadFormat", "ReportEarlyEof", "ReportBadLine", "serror")

    # class invariant: integer members that are only ever assigned constants
    consts = {}
    nonconst = set()
    for g in funcs:
        if not (g.qn.startswith(SR2) and easy(g)):
            continue
        for n in g.walk():
            tgt = rhs = None
            if n["k"] == "BinaryOperator" and n.get("op") == "=":
                tgt, rhs = path_of(kids(n)[0]), kids(n)[1]
            elif n["k"] in ("CompoundAssignOperator",) or (n["k"] == "UnaryOperator" and n.get("op") in ("++", "--")):
                tgt = path_of(kids(n)[0])
            elif n["k"] == "UnaryOperator" and n.get("op") == "&":
                tgt = path_of(kids(n)[0])
            if tgt and tgt.startswith("this."):
                r = strip(rhs) if rhs is not None else None
                while r is not None and r["k"] == "BinaryOperator" and r.get("op") == "=":
                    r = strip(kids(r)[1])
                c = cv(r) if r is not None else None
                if c is None:
                    nonconst.add(tgt)
                else:
                    consts.setdefault(tgt, set()).add(c)
    inv = Env()
    for p_, vs in consts.items():
        if p_ not in nonconst:
            inv.iv[p_] = (min(vs), max(vs))
    rep.extra["member_invariants"] = {k.replace("this.", ""): list(v) for k, v in inv.iv.items()}
    PART = ("this.have_options", "this.binary")

    # summaries (post-state at return 0) of the header helpers
    A_lget = Intervals(F, lget)
    A_shc = Intervals(F, shc, member_havoc_calls=own_nonconst_call, init=inv)
    summaries = {lget.id: A_lget.summary(), shc.id: A_shc.summary()}
    analyses = {lget.id: A_lget, shc.id: A_shc}
    for g in (rsf, gsr, bsr):
        analyses[g.id] = Intervals(F, g, summaries=summaries, member_havoc_calls=own_nonconst_call,
                                   init=(Env() if g is rsf else inv), partition=PART)
    for g in funcs:
        if g.id not in analyses and (g.name in ("Read", "decstring", "ReadNext") or (g.qn.startswith(SR2) and easy(g))):
            init_ = inv
            if g.qn.endswith("(lambda)::operator()"):
                # a local lambda of one of the three readers: its integer parameters range over the values passed at the
                # call sites (join of the argument intervals there)
                init_ = inv.copy() if hasattr(inv, "copy") else inv
                for owner in (rsf, gsr, bsr):
                    if not g.qn.startswith(owner.qn + "::"):
                        continue
                    A0 = analyses[owner.id]
                    for c_ in owner.walk():
                        if c_["k"] == "CXXOperatorCallExpr" and c_.get("op") == "()" and c_.get("calleeId") == g.id:
                            env0 = A0.env_before(c_)
                            if env0 is None:
                                continue
                            for p_, a_ in zip(g.params, call_args(c_)[1:]):
                                if int_type(p_.get("ct")):
                                    iv_ = A0.ev(a_, env0)
                                    if __import__("os").environ.get("MPSA_DEBUG"):
                                        print("SITE", c_.get("l"), iv_, render(a_))
                                    cur_ = init_.iv.get(p_["declId"])
                                    init_.iv[p_["declId"]] = iv_ if cur_ is None else hull(cur_, iv_)
            try:
                analyses[g.id] = Intervals(F, g, summaries=summaries, member_havoc_calls=own_nonconst_call,
                                           init=init_)
            except Exception as e:          # helper outside the fragment: not an obligation carrier
                pass

    # ---- R1 ----------------------------------------------------------------------
    r1 = rep.rule("C14.R1", "RANGE",
                  "every subscript / offset / copy length into a fixed-size buffer is inside it; "
                  "arithmetic on file-provided integers cannot overflow (intervals with widening)",
                  floor=25)
    seen = set()
    nd = 0
    for fid, A in analyses.items():
        g = A.f
        ordn = {}
        for n in g.walk():
            ob = None
            if n["k"] == "ArraySubscriptExpr":
                off = None
                base = None
                for env in A.envs_before(n):
                    b_ = A.ptr_of(kids(n)[0], env)
                    if b_ is None:
                        off = None
                        break
                    base = b_
                    idx = A.ev(kids(n)[1], env)
                    o = (b_[2][0] + idx[0], b_[2][1] + idx[1])
                    off = o if off is None else hull(off, o)
                if off is None or base is None:
                    continue
                if is_cursor(kids(n)[0]):
                    continue              # sentinel-bounded cursor: rule S1
                ext = A.arrays[base[0]][0]
                ob = ("index", off, ext, "%s (array %s[%d])" % (render(n), base[0].split("#")[0].replace("this.", ""), ext))
            elif n["k"] == "UnaryOperator" and n.get("op") == "*" and n.get("ct", "").replace("const ", "") in ("char", "int", "long"):
                if is_cursor(kids(n)[0]):
                    continue              # sentinel-bounded cursor: rule S1 / not decided
                off = None
                base = None
                for env in A.envs_before(n):
                    b_ = A.ptr_of(kids(n)[0], env)
                    if b_ is None:
                        off = None
                        break
                    base = b_
                    off = b_[2] if off is None else hull(off, b_[2])
                if off is None or base is None:
                    continue
                ext = A.arrays[base[0]][0]
                ob = ("index", off, ext, "%s (array %s[%d])" % (render(n), base[0].split("#")[0].replace("this.", ""), ext))
            elif n["k"] == "CallExpr" and n.get("callee") in ("fread", "std::fread", "fgets", "std::fgets", "memcpy",
                                                                "std::memcpy", "strncmp", "std::strncmp", "strcpy"):
                envs = A.envs_before(n)
                if not envs:
                    continue
                env = envs[0]
                for o_ in envs[1:]:
                    env = env.join(o_)
                a = call_args(n)
                cal = n["callee"].replace("std::", "")
                dst = A.ptr_of(a[0], env)
                if dst is None and cal in ("strncmp",):
                    continue
                if dst is None:
                    continue
                ext, esz = A.arrays[dst[0]]
                cap = (ext - dst[2][0]) * esz if dst[2][0] != -INF else INF
                capmin = (ext - dst[2][1]) * esz if dst[2][1] != INF else -INF
                if cal == "fread":
                    s_, c_ = A.ev(a[1], env), A.ev(a[2], env)
                    ln = (s_[0] * c_[0], s_[1] * c_[1] if INF not in (s_[1], c_[1]) else INF)
                elif cal == "fgets":
                    ln = A.ev(a[1], env)
                elif cal in ("memcpy", "strncmp"):
                    ln = A.ev(a[2], env)
                else:
                    continue
                ob = ("length", ln, capmin, "%s into %s (capacity >= %s bytes)" % (
                    render(n)[:70], dst[0].split("#")[0].replace("this.", ""), capmin))
            if ob is None:
                continue
            what = ob[3]
            if any(t in what for t in NOT_DECIDED):
                nd += 1
                continue
            kk = re.sub(r"\s+", " ", what.split(" (")[0])[:60]
            ordn[kk] = ordn.get(kk, 0) + 1
            key = "%s|%s#%d" % (g.qn.replace("mp::", ""), kk, ordn[kk])
            if (key, n.get("l")) in seen:
                continue
            seen.add((key, n.get("l")))
            if ob[0] == "index":
                off, ext = ob[1], ob[2]
                ok = off[0] >= 0 and off[1] <= ext - 1
                r1.check(ok, key, short_loc(n.get("l")),
                         "%s: index in [%s, %s]" % (what, off[0], off[1]),
                         "%s: index may be in [%s, %s], outside [0, %d]" % (what, off[0], off[1], ext - 1))
            else:
                ln, cap = ob[1], ob[2]
                ok = ln[0] >= 0 and ln[1] <= cap
                r1.check(ok, key, short_loc(n.get("l")),
                         "%s: length in [%s, %s]" % (what, ln[0], ln[1]),
                         "%s: length may be in [%s, %s]" % (what, ln[0], ln[1]))
    rep.extra["not_decided_sites"] = nd
    for g_, name in ((lget, "Lget"), (shc, "sufheadcheck")):
        A = analyses[g_.id]
        evs = A.overflow_events()
        if not evs:
            r1.ok("%s|no-signed-overflow" % name, short_loc(g_.loc),
                  "no arithmetic on file-provided integers in %s can leave the int range" % name)
        for (nn, r, tr) in evs:
            r1.fail("%s|overflow|%s" % (name, render(nn)[:50]), short_loc(nn.get("l")),
                    "%s: `%s` may reach [%s, %s] which overflows int (undefined behaviour on a long digit "
                    "string / huge header field)" % (name, render(nn), r[0], r[1]))
    # resize argument
    for n in shc.walk():
        if n["k"] == "CXXMemberCallExpr" and n.get("callee", "").endswith("::resize"):
            arg = call_args(n)[0]
            signed_arith = [x for x in walk(arg) if x["k"] == "BinaryOperator" and x.get("op") in ("+", "*")
                            and int_type(x.get("ct")) and int_type(x.get("ct"))[0] and int_type(x.get("ct"))[1] <= 32]
            env = analyses[shc.id].env_before(n)
            ok = True
            txt = ""
            if signed_arith and env is not None:
                A = analyses[shc.id]
                A.events = []
                A.ev(arg, env)
                ok = not A.events
                txt = "; ".join("%s in [%s,%s]" % (render(e[0]), e[2][0], e[2][1]) for e in A.events)
                A.events = []
            r1.check(ok, "sufheadcheck|resize-size", short_loc(n.get("l")),
                     "scratch size `%s` is computed without int overflow" % render(arg),
                     "scratch size `%s` is computed in int and may overflow (%s): resize gets a huge or "
                     "negative size" % (render(arg), txt))

    # ---- G1 --------------------------------------------------------------------------
    g1 = rep.rule("C14.G1", "PATH",
                  "counts given to the vector readers were compared with NumVars()/NumAlgCons() (or "
                  "are those values); suffix readers are built only after sufheadcheck returned 0", floor=4)
    ctors = [n for n in rsf.walk() if n["k"] in ("CXXConstructExpr", "CXXTemporaryObjectExpr") and
             "VecReader" in n.get("callee", "") and len(kids(n)) >= 3]
    cord = {}
    for n in ctors:
        cnt = strip(kids(n)[2])
        p = path_of(cnt)
        var = p.replace("this.", "") if p else render(cnt)
        bound = "NumAlgCons" if var == "j" else "NumVars"
        ok, why = count_checked(rsf, n, p, bound)
        cord[var] = cord.get(var, 0) + 1
        g1.check(ok, "ReadSOLFile|VecReader(%s)#%d" % (var, cord[var]), short_loc(n.get("l")),
                 "count `%s`: %s" % (var, why), "count `%s`: %s" % (var, why))
    for g_ in (gsr, bsr):
        # suffix readers constructed by the function itself or by a delivery helper it calls
        sr = [(a_, c_) for a_, c_, r_, o_ in reach_calls(F, g_, lambda n: n["k"] in ("CXXConstructExpr", "CXXTemporaryObjectExpr") and
                                                          "SuffixReader" in n.get("callee", "") and "SuffixReader" in (n.get("t") or n.get("callee", "")), depth=1)]
        chk = [n for n in g_.walk() if n["k"] == "CXXMemberCallExpr" and n.get("callee", "").endswith("::sufheadcheck")]
        for n, built in sr:
            ok = bool(chk) and all(g_.cfg.dominates(chk[0], n) for _ in [0]) and any(
                pol is False and any(x["i"] == chk[0]["i"] for x in walk(g_.nodes[cid]))
                for cid, pol in g_.cfg.facts_at(n))
            ordk = "%s|SuffixReader|%s" % (g_.name, built.get("t", "")[-12:])
            g1.check(ok, ordk, short_loc(built.get("l")),
                     "%s: suffix reader built only on the path where sufheadcheck(&SR) returned 0" % g_.name)

    # ---- P1 ---------------------------------------------------------------------------
    # ---- B2: writes into the suffix table (scratch vector sized from the header) -------------------------
    b2 = rep.rule("C14.B2", "RANGE", "bulk writes into the suffix value table are bounded by the space left up to table + tablen", floor=4)

    def txt(n):
        return render(n).replace(" ", "").replace("this->", "")
    asg = {}
    for n in gsr.walk():
        if n["k"] == "BinaryOperator" and n.get("op") == "=":
            asg.setdefault(txt(kids(n)[0]), []).append(n)
    s_init = [n for n in asg.get("s", []) if txt(kids(n)[1]) == "SR.table"]
    se_init = [n for n in asg.get("se", []) if txt(kids(n)[1]) in ("s+SR.h.tablen", "SR.table+SR.h.tablen")]
    okb = len(s_init) == 1 and len(se_init) == 1 and gsr.cfg.before(s_init[0], se_init[0]) and len(asg.get("se", [])) == 1
    b2.check(okb, "gsufread|end-pointer", short_loc(gsr.loc), "s = table, se = s + tablen (assigned once)")
    tab_fgets = [c for c in gsr.walk() if c["k"] == "CallExpr" and (c.get("callee") or "").split("::")[-1] == "fgets" and txt(call_args(c)[0]) == "s"]
    if not tab_fgets:
        raise AnalysisBroken("C14.B2: no fgets into the table cursor")
    for i_, c in enumerate(tab_fgets):
        nn = txt(call_args(c)[1])
        b2.check(nn in ("se-s", "(int)(se-s)") and bool(se_init) and gsr.cfg.before(se_init[0], c), "gsufread|fgets#%d" % (i_ + 1), short_loc(c.get("l")),
                 "a table line is read with the bound se - s (the space left)",
                 "fgets(s, %s, f): the bound is not the space left in the table (se - s): a file whose table lines add up to more than the stated tablen writes past the scratch buffer" % render(call_args(c)[1]))
    adv = [n for n in gsr.walk() if n["k"] == "CompoundAssignOperator" and n.get("op") == "+=" and txt(kids(n)[0]) == "s"]
    b2.check(all(txt(kids(n)[1]) == "strlen(s)" for n in adv) and bool(adv), "gsufread|advance", short_loc(gsr.loc), "the cursor advances by the length just read")
    mc = [c for c in gsr.walk() if c["k"] == "CallExpr" and (c.get("callee") or "").split("::")[-1] == "memcpy" and txt(call_args(c)[0]) == "s"]
    okm = len(mc) == 1 and txt(call_args(mc[0])[2]) == "L"
    if okm:
        fa = [(txt(gsr.nodes[cid]), pol) for cid, pol in gsr.cfg.facts_at(mc[0])]
        okm = any(("L>=(size_t)(se-s)" in t or "L>=(unsignedlong)(se-s)" in t or "L>=se-s" in t.replace("(size_t)", "").replace("(", "").replace(")", "")) and pol is False for t, pol in fa) or \
            any("L>=" in t and "se-s" in t.replace("(", "").replace(")", "") and "||" in t and pol is False for t, pol in fa)
    b2.check(okm, "gsufread|last-line", short_loc(gsr.loc), "the last table line is copied only if its length is below se - s")
    fr = [c for c in bsr.walk() if c["k"] == "CallExpr" and (c.get("callee") or "").split("::")[-1] == "fread" and txt(call_args(c)[0]) == "SR.table"]
    b2.check(len(fr) == 1 and txt(call_args(fr[0])[1]).replace("(size_t)", "") in ("SR.h.tablen",) and txt(call_args(fr[0])[2]) == "1", "bsufread|table", short_loc(bsr.loc),
             "the binary reader reads exactly tablen bytes into the table")
    rz = [c for c in shc.walk() if c["k"] == "CXXMemberCallExpr" and (c.get("callee") or "").endswith("::resize")]
    tb = [n for n in shc.walk() if n["k"] == "BinaryOperator" and n.get("op") == "=" and txt(kids(n)[0]).endswith("->table")]
    okz = len(rz) == 1 and len(tb) == 1 and "tablen" in txt(call_args(rz[0])[0]) and "2*(size_t)sr->h.namelen" in txt(call_args(rz[0])[0]) and txt(kids(tb[0])[1]) == "sr->name+sr->h.namelen"
    b2.check(okz, "sufheadcheck|capacity", short_loc(shc.loc), "scratch = tablen + 2*namelen + 6 bytes, table starts namelen bytes in: at least tablen bytes remain")

    # the scratch of a suffix starts zero-filled: resize() zero-fills only what it adds, so the object is either created for
    # each suffix (declared inside the loop over suffixes) or its buffer is emptied before the resize.  The readers rely on
    # the zero fill where the file states no table, an unterminated last table line, and after binary name / table bytes.
    for g_ in (gsr, bsr):
        chk_ = [n for n in g_.walk() if n["k"] == "CXXMemberCallExpr" and n.get("callee", "").endswith("::sufheadcheck")]
        for k_, n in enumerate(chk_):
            refs_ = [x for a_ in call_args(n) for x in walk(a_) if x["k"] == "DeclRefExpr" and x.get("dk") == "Var"]
            vd_ = [v for v in g_.walk() if v["k"] == "VarDecl" and refs_ and v.get("declId") == refs_[0].get("declId")]
            lp_ = g_.enclosing(n, ("ForStmt", "WhileStmt", "DoStmt"))
            fresh = bool(vd_) and lp_ is not None and any(a_["i"] == lp_["i"] for a_ in g_.ancestors(vd_[0]))
            emptied = any(c["k"] == "CXXMemberCallExpr" and (c.get("callee") or "").split("::")[-1] in ("clear", "assign") and "xp" in txt(c) and
                          rz and shc.cfg.dominates(c, rz[0]) for c in shc.walk())
            b2.check(fresh or emptied, "%s|fresh-scratch#%d" % (g_.name, k_ + 1), short_loc(n.get("l")),
                     "the scratch object checked by sufheadcheck is created for each suffix (or emptied before it is resized)",
                     "%s: the scratch object outlives one suffix and its buffer is only resized: bytes of an earlier suffix's name or table stay where the reader expects zero fill, "
                     "so a later suffix is delivered with a table or name longer than the file states" % g_.name)

    # ---- H1: the library's own handler range-checks the item index of every suffix entry ------------------------------
    h1 = rep.rule("C14.H1", "GUARD", "the library's solution handler stores a suffix entry only if its item index lies in [0, number of items): "
                  "the index comes from the file and subscripts a vector of that size", floor=2)
    ons = [g for g in funcs if g.qn == "mp::SOLHandler_Easy::OnSuffix"]
    if not ons:
        raise AnalysisBroken("C14.H1: SOLHandler_Easy::OnSuffix not found")
    seen_h = set()
    for g in sorted(ons, key=lambda x: x.full):
        tag = "dbl" if "double" in g.full else "int"
        if tag in seen_h:
            continue
        seen_h.add(tag)
        def _ix_first(n_):
            """the `.first` member (the entry's item index) the subscript's index is computed from, looking through locals"""
            for x_ in walk(expand_locals(g, call_args(n_)[1])):
                if x_["k"] == "MemberExpr" and x_.get("name") == "first":
                    return x_
            return None
        subs = [n for n in g.walk() if n["k"] == "CXXOperatorCallExpr" and n.get("op") == "[]" and _ix_first(n) is not None]
        vec = [v for v in g.walk() if v["k"] == "VarDecl" and v.get("name") == "values" and "vector" in (v.get("ct") or v.get("t") or "")]
        size_txt = None
        if len(vec) == 1 and kids(vec[0]):
            ca = [x for x in kids(strip(kids(vec[0])[0])) if x is not None and strip(x)["k"] != "CXXDefaultArgExpr"] if strip(kids(vec[0])[0])["k"] in ("CXXConstructExpr", "CXXTemporaryObjectExpr") else []
            size_txt = txt(ca[0]) if ca else None
        nmax_ok = size_txt is not None and "NItemsMax(" in xrender(g, ca[0], True) if size_txt else False
        bad = []
        if not subs:
            bad.append("no subscript by the entry's index found")
        for n in subs:
            ix = txt(_ix_first(n))
            fa = norm_facts(g, n, canon=True)
            lo = (ix + "<0", False) in fa or ("0<=" + ix, True) in fa
            hi = any(t == ix + "<" + size_txt and pol for t, pol in fa) or any(t == size_txt + "<=" + ix and not pol for t, pol in fa) if size_txt else False
            if not (lo and hi):
                bad.append("`%s` is reached with index `%s` not known to be in [0, %s) (lower %s, upper %s)" % (render(n)[:50], ix, size_txt, lo, hi))
        h1.check(nmax_ok and not bad, "handler-suffix-index|%s" % tag, short_loc(g.loc),
                 "every store of a suffix entry is guarded by 0 <= index < NItemsMax(kind), the size of the value vector",
                 "%s: an entry whose index equals the item count (or is negative) is stored outside the vector instead of being rejected as a bad suffix" %
                 ("; ".join(bad[:2]) or "the value vector is not sized by NItemsMax(kind)"))

    # ---- H2: the library's own handler places the primal values in a vector of the model's size --------------------------
    # the reader offers at most the declared number of values (G1) and vperm_inv_ maps positions of the written model to
    # indexes in [0, number of variables): the stores are in range iff the vector has the MODEL's size, whatever the file holds
    h2 = rep.rule("C14.H2", "RANGE", "the library's solution handler stores the primal values, through the variable permutation, in a vector that was given "
                  "the model's number of variables before the first store (not a size taken from the file)", floor=1)
    onp = [g for g in funcs if g.qn == "mp::SOLHandler_Easy::OnPrimalSolution"]
    if not onp:
        raise AnalysisBroken("C14.H2: SOLHandler_Easy::OnPrimalSolution not found")
    g = sorted(onp, key=lambda x: x.full)[0]
    stores = [n for n in g.walk() if n["k"] == "CXXOperatorCallExpr" and n.get("op") == "[]" and txt(call_args(n)[0]).endswith("x_")
              and any(p_["k"] == "BinaryOperator" and p_.get("op") == "=" and strip(kids(p_)[0]).get("i") == n.get("i") for p_ in g.walk())]
    sizers = [c for c in g.walk() if c["k"] == "CXXMemberCallExpr" and re.search(r"::(resize|assign)$", c.get("callee") or "")
              and txt(call_object(c)).endswith("x_")]
    bad = []
    if not stores:
        bad.append("no subscripted store into x_ found")
    for n in stores:
        dom = [c for c in sizers if g.cfg.dominates(c, n)]
        if not dom:
            bad.append("`%s` is not preceded by a resize of x_" % render(n)[:50])
            continue
        last = max(dom, key=lambda c: sum(1 for d in dom if g.cfg.dominates(d, c)))
        a0 = xrender(g, call_args(last)[0], True)
        if not re.search(r"header_\.num_vars$|NItemsMax\(0\)$", a0.replace(" ", "")) or "Size(" in a0:
            bad.append("x_ is sized by `%s` before `%s`: with fewer values in the file than variables in the model the permuted positions lie outside the vector" % (a0[:50], render(n)[:50]))
        ix = txt(call_args(n)[1])
        if "vperm_inv_" not in xrender(g, call_args(n)[1], True):
            bad.append("`%s` stores at `%s`, not at the caller's position of the variable" % (render(n)[:50], ix))
    h2.check(not bad, "handler-primal-size", short_loc(g.loc), "x_ has header_.num_vars elements before every store x_[vperm_inv_[i]]", "; ".join(bad[:2]))

    # ---- F1: file text never becomes a printf format -------------------------------------------------
    f1 = rep.rule("C14.F1", "WHO", "the error formatter (vsnprintf) receives literal formats only; text read from the file is passed as an argument, and the conversions match the arguments", floor=8)
    # frozen exception, read on the pinned tree: CheckReader's last branch is reached only for result codes other than OK / Early_EOF / Bad_Line, i.e. for
    # errors set by the solution handler through SetError (programme text); the line read from the file is stored only together with Bad_Line, which is handled before.
    F1_EXC = {("CheckReader", "rd.ErrorMessage().c_str()")}
    nse = 0
    seen_k = {}
    for g_ in funcs:
        if not (g_.qn.startswith(SR2) and easy(g_)):
            continue
        for c in g_.walk():
            if c["k"] != "CXXMemberCallExpr" or not (c.get("callee") or "").endswith("::serror"):
                continue
            nse += 1
            a = call_args(c)
            fmt0 = strip(a[0])
            while fmt0["k"] in ("ImplicitCastExpr",) and kids(fmt0):
                fmt0 = strip(kids(fmt0)[0])
            base = "%s|%s" % (g_.name, render(a[0])[:40].replace("\n", " "))
            seen_k[base] = seen_k.get(base, 0) + 1
            key = base + ("#%d" % seen_k[base] if seen_k[base] > 1 else "")
            if fmt0["k"] == "StringLiteral":
                txt = fmt0.get("v", "")
                convs = re.findall(r"%[-+ #0-9.*]*(?:hh|h|ll|l|z|j|t|L)?([diouxXeEfgGcspn%])", txt)
                convs = [x for x in convs if x != "%"]
                okc = len(convs) == len(a) - 1 and "n" not in convs
                for cv_, ar in zip(convs, a[1:]):
                    t_ = (strip(ar).get("ct") or "")
                    if cv_ == "s" and not ("char" in t_ and "*" in t_ or "char[" in t_ or "char [" in t_):
                        okc = False
                    if cv_ in "di" and not any(x in t_ for x in ("int", "long", "short", "char", "bool")):
                        okc = False
                f1.check(okc, key, short_loc(c.get("l")), "literal format with %d conversion(s) matching its arguments" % len(convs),
                         "format %r: conversions %s do not match the %d argument(s) passed" % (txt[:40], convs, len(a) - 1))
            else:
                f1.check((g_.name, render(a[0]).replace(" ", "")) in F1_EXC, key, short_loc(c.get("l")), "non-literal format: handler-provided message (frozen exception, see the rule)",
                         "%s passes `%s` as the FORMAT of the error formatter: a '%%' in text taken from the .sol file is interpreted as a conversion (wrong message, or a read through a missing argument)" % (g_.name, render(a[0])[:60]))
    if nse < 8:
        raise AnalysisBroken("C14.F1: only %d serror calls found" % nse)
    se = [g_ for g_ in funcs if g_.name == "serror" and easy(g_)]
    if se:
        vs = [c for c in se[0].walk() if c["k"] == "CallExpr" and (c.get("callee") or "").endswith("vsnprintf")]
        okv = len(vs) == 2 and all(render(call_args(v)[2]) == se[0].params[0]["name"] for v in vs)
        f1.check(okv, "serror|forwards-format", short_loc(se[0].loc), "serror hands its format parameter and the va_list to vsnprintf (size query, then fill)")
    # the line text is stored only together with Bad_Line
    rdf = [g_ for g_ in funcs if g_.qn == "mp::Read" and g_.cfg is not None]
    for g_ in rdf[:1]:
        fg = [c for c in g_.walk() if c["k"] == "CallExpr" and (c.get("callee") or "").split("::")[-1] == "fgets"]
        f1.check(len(fg) == 1, "line-buffer|Read", short_loc(g_.loc), "the text line is read into the reader's message buffer by the single fgets of Read()")

    p1 = rep.rule("C14.P1", "PATH",
                  "after each handler call that received a reader, CheckReader is evaluated and its "
                  "failure returns the error code; ReadNext zeroes its counter on failure", floor=6)
    def failure_returns(g, call):
        """the boolean result of `call` is tested and its false edge returns"""
        blk = [b for b in g.cfg.blocks.values() if b.get("cond") is not None and
               any(x["i"] == call["i"] for x in walk(g.nodes[b["cond"]]))]
        for b in blk:
            c = strip(g.nodes[b["cond"]])
            neg = c["k"] == "UnaryOperator" and c.get("op") == "!"
            succ = g.cfg.succ[b["id"]]
            fail_succ = succ[0] if neg else succ[1]
            els = [g.nodes.get(e) for e in g.cfg.blocks[fail_succ]["el"]]
            if any(e is not None and e["k"] == "ReturnStmt" for e in els):
                return True
        return False
    HANDLERS = ("OnDualSolution", "OnPrimalSolution", "OnIntSuffix", "OnDblSuffix")
    # delivery helpers: member functions called by the three readers that hand a reader to the handler themselves
    helpers = {}
    for g_ in (rsf, gsr, bsr):
        for c in g_.walk():
            if c["k"] == "CXXMemberCallExpr":
                h_ = F.by_id.get(c.get("calleeId"))
                if h_ is not None and h_ not in (rsf, gsr, bsr) and h_.cfg is not None and h_.qn.startswith(SR2.replace("\\", "")) and \
                        any(x["k"] == "CXXMemberCallExpr" and x.get("callee", "").split("::")[-1] in HANDLERS for x in h_.walk()):
                    helpers.setdefault(h_.id, (h_, []))[1].append((g_, c))
    for g_ in (rsf, gsr, bsr) + tuple(h for h, _ in helpers.values()):
        ordn = {}
        is_helper = g_.id in helpers
        for n in g_.walk():
            if n["k"] != "CXXMemberCallExpr":
                continue
            last = n.get("callee", "").split("::")[-1]
            if last not in HANDLERS:
                continue
            rd = strip(call_args(n)[0])
            rid = rd.get("declId")
            checks = [c for c in g_.walk() if c["k"] == "CXXMemberCallExpr" and c.get("callee", "").endswith("::CheckReader")
                      and strip(call_args(c)[0]).get("declId") == rid]
            ordn[last] = ordn.get(last, 0) + 1
            owner_names = [g_.name] if not is_helper else sorted({cg.name for cg, _ in helpers[g_.id][1]})
            ok = len(checks) == 1 and g_.cfg.postdominates(checks[0], n)
            if ok and not is_helper:
                ok = failure_returns(g_, checks[0])
            elif ok:
                # the helper returns the verdict; every caller must test it and return on failure
                ret_ = [r_ for r_ in g_.walk() if r_["k"] == "ReturnStmt" and any(x["i"] == checks[0]["i"] for x in walk(r_))]
                ok = len(ret_) == 1 and strip(kids(ret_[0])[0])["i"] == checks[0]["i"] and \
                    all(failure_returns(cg, cc) for cg, cc in helpers[g_.id][1])
            for on_ in owner_names:
                key = "%s|%s#%d" % (on_, last, ordn[last])
                p1.check(ok, key, short_loc(n.get("l")),
                         "%s: %s(reader) is followed by CheckReader(reader, ...) whose failure returns" % (on_, last))
    rn = [f for f in funcs if f.qn == "mp::VecReader::ReadNext"]
    seen2 = set()
    for f in rn:
        if f.loc in seen2:
            continue
        seen2.add(f.loc)
        st = [n for n in f.walk() if n["k"] == "BinaryOperator" and n.get("op") == "=" and
              render(kids(n)[0]) == "n_" and cv(kids(n)[1]) == 0]
        ok = len(st) == 1 and any(pol is True and "NLW2_SOLRead_OK !=" in render(f.nodes[cid])
                                  for cid, pol in f.cfg.facts_at(st[0]))
        p1.check(ok, "VecReader::ReadNext|zero-on-failure", short_loc(f.loc),
                 "ReadNext sets n_ = 0 when the read did not return NLW2_SOLRead_OK")
    return rep


CURSORS = ("this.se", "this.b1", "this.s")


def is_cursor(e):
    """char cursor members that walk NUL-terminated text (handled by S1 / not decided)"""
    e = strip(e)
    while e is not None and e["k"] in ("UnaryOperator",) and e.get("op") in ("++", "--"):
        e = strip(kids(e)[0])
    return e is not None and path_of(e) in CURSORS


def count_checked(f, ctor, path, bound):
    """Every definition of the count that reaches the reader construction is the
    bound itself or a file value that passed `v > Bound() || v < 0 -> error`."""
    if path is None:
        return False, "count is not a variable"
    alldefs = [n for n in f.walk() if n["k"] == "BinaryOperator" and n.get("op") == "=" and
               path_of(kids(n)[0]) == path]
    ctor_el = f.cfg.position(ctor)
    target = None
    i_ = ctor["i"]
    while i_ not in f.cfg.pos:
        i_ = f.parent[i_]["i"]
    target = i_
    defs = []
    for d in alldefs:
        others = []
        for o in alldefs:
            if o is d:
                continue
            j_ = o["i"]
            while j_ not in f.cfg.pos:
                j_ = f.parent[j_]["i"]
            others.append(j_)
        if f.cfg.path_avoiding(f.cfg.position(d), [target], others) is not None:
            defs.append(d)
    if not defs:
        return False, "no assignment reaches the construction"
    msgs = []
    for d in defs:
        rhs = strip(kids(d)[1])
        while rhs is not None and rhs["k"] == "BinaryOperator" and rhs.get("op") == "=":
            rhs = strip(kids(rhs)[1])         # i = nsv = ...
        alts = [(rhs, None)]
        if rhs["k"] == "ConditionalOperator":
            alts = [(strip(kids(rhs)[1]), (render(kids(rhs)[0]), True)), (strip(kids(rhs)[2]), (render(kids(rhs)[0]), False))]
        for a, sel in alts:
            t = render(a).replace(" ", "")
            if t == bound + "()":
                msgs.append("= %s()" % bound)
                continue
            m = re.match(r"^\(int\)z\[(\d)\]$", t)
            if not m:
                return False, "definition `%s` is neither %s() nor a checked file value" % (render(a), bound)
            slot = m.group(1)
            ok = False
            for b in f.cfg.blocks.values():
                c = f.nodes.get(b.get("cond", -1))
                if c is None:
                    continue
                c0 = strip(c)
                while c0["k"] == "BinaryOperator" and c0.get("op") in ("||", "&&"):
                    c0 = strip(kids(c0)[1])      # the block that ends a short-circuit chain tests its last operand; its true edge implies it
                if c0["k"] != "BinaryOperator" or c0.get("op") not in ("<", ">"):
                    continue
                big, small = kids(c0) if c0["op"] == ">" else reversed(kids(c0))         # v > bound()  or  bound() < v, the bound possibly held in a local
                if xrender(f, small).replace(" ", "").replace("this->", "") != bound + "()" or not re.fullmatch(r"\w+", render(big).replace(" ", "")):
                    continue
                v = render(big).replace(" ", "")
                if c["i"] not in f.cfg.pos:
                    c = c0                        # the chain as a whole is no CFG element; its last operand is
                asg = [x for x in f.walk() if x["k"] == "BinaryOperator" and x.get("op") == "=" and
                       render(kids(x)[0]) == v and render(kids(x)[1]).replace(" ", "") == "(int)z[%s]" % slot
                       and f.cfg.dominates(x, c)]
                if not asg:
                    continue
                # the true edge of the check must not reach the construction
                tsucc = f.cfg.succ[b["id"]][0]
                if tsucc is not None and f.cfg.path_avoiding((tsucc, -1), [target], []) is not None:
                    continue
                cel = c["i"]
                while cel not in f.cfg.pos:
                    cel = f.parent[cel]["i"]
                if f.cfg.dominates(c, d):
                    ok = True
                elif any(x is d for x in asg) and f.cfg.path_avoiding(f.cfg.position(d), [target], [cel]) is None:
                    ok = True         # the definition itself is checked before it can reach the reader
                elif sel is not None:
                    # same selector guards the check and the use (e.g. have_options)
                    guard = any(render(f.nodes[cid]) == sel[0] and pol is sel[1] for cid, pol in f.cfg.facts_at(c))
                    flagp = "this." + sel[0]
                    rewritten = any(n["k"] == "BinaryOperator" and n.get("op") == "=" and path_of(kids(n)[0]) == flagp
                                    and f.cfg.before(c, n) and f.cfg.before(n, d) for n in f.walk())
                    ok = guard and not rewritten
            if not ok:
                return False, "`%s` is offered to the handler without a dominating comparison with %s()" % (render(a), bound)
            msgs.append("%s checked against %s()" % (render(a), bound))
    return True, "; ".join(sorted(set(msgs)))
