"""C19 - names given to the solver are complete, faithful and unique (name mechanism).

W1 counted names: the text of a VCString leaves the object only through MakeCountedName, every call of
   which advances the counter; the first copy is the plain name, later copies carry the counter;
T1 names travel through the same links as values: every link class assigns a name to each of its target
   items, the range link uses two distinct suffixes, PresolveNames cleans the name nodes first and then
   installs variable, objective and constraint names - all three;
G1 original names: ReadNames asks for num_vars+num_common_exprs and num_cons+num_objs names, shorter files
   fall back to the generic provider, objective names follow the selected objective(s);
S1 the name file scanner and NameProvider::name never read outside the mapped file.
"""
import re
from ..cfg import loop_shape, reach_calls, norm_facts, xrender, expand_locals, Facts, kids, strip, walk, cv, render, call_args, call_object
from ..cfg import short_loc as _short_loc
from ..facts import export_many, AnalysisBroken

LEVEL = "other"
TECHNIQUE = ("static analysis: who-may-read rule on the counted-name class, sibling table over the link "
             "classes' name transfer, path rules on PresolveNames / ReadNames, guard rule with pointer-"
             "offset facts on the name file scanner")
LEVEL_TEXT = ("Decided: the mechanism that makes names complete and distinct is intact - no copy of a name "
              "escapes the counter, every link hands a name to each target, all three item classes receive "
              "their presolved names, short or absent name files fall back to generated names, and the "
              "scanner stays inside the file.  Not decided: uniqueness of the generated strings for every "
              "model (a value property: e.g. a user name that looks like a counted name)."
              "  Also decided (added after the seeded rounds): every stored constraint's name is put into its node slot before names are derived."
              "  Also decided (round 7): the cvt:names modes read the name files and install names as documented.")
LEVEL_NOTE = "Trusted: clang 14 front end/CFG, tool/mpx.cc, the rule module."
DESIGN_REF = "DESIGN.md section 4, C19"
EXPLANATION = ("Units: the visitor flat-converter unit (VCString, links, PresolveNames, keepers), the model "
               "manager unit (ReadNames, SetObjNames), src/nl-reader.cc (NameProvider, ReadNames scanner).")
ASSUMPTIONS = ["name files are mapped read-only and are followed by a zero byte (page rounding) as for NL files"]
TRUSTED = ["clang 14 front end + CFG builder", "tool/mpx.cc", "mpsa/rules/C19.py"]

U = "solvers/visitor/visitor-modelapi-connect.cc"
MU = "solvers/visitor/model-mgr-with-std-pb.cc"
_REPO = ["/repo"]


def short_loc(l):
    return _short_loc((l or "").replace(_REPO[0].rstrip("/") + "/", "/repo/"))


def run(rep, ctx):
    repo = ctx["repo"]
    _REPO[0] = repo
    jobs = [dict(unit=U, fn=[r"mp::pre::VCString::.*", r"mp::FlatConverter::(PresolveNames|TransferNames2Node|FinishModelInput|[A-Za-z]*Names[A-Za-z]*)",
                             r"mp::ConstraintKeeper::(CopyNamesFromValueNodes|CopyNames2ValueNodes)",
                             r"mp::ConstraintManager::CopyNamesFromValueNodes",
                             r"mp::pre::(CopyLink|Many2ManyLink)::(PresolveNames|PostsolveNames|CopySrcDest|DistributeFromSrc2Dest|Distr)",
                             r"mp::pre::RangeCon2Slack::PresolveNamesEntry", r"mp::pre::ValueNode::(SetStr|CleanUpAndRealloc_Names|GetStr|GetVal|GetValVec)",
                             r"mp::pre::BasicStaticIndivEntryLink::GetStr", r"mp::pre::Copy", r"mp::pre::CopyRange",
                             r"mp::pre::ValuePresolverImpl::CleanUpNameNodes"], repo=repo, closure=1, closure_roots=r"RangeCon2Slack::PresolveNamesEntry$"),
            dict(unit=MU, fn=[r"mp::ModelManagerWithProblemBuilder::(ReadNames|SetObjNames)"], repo=repo, closure=1,
                 closure_roots=r"ModelManagerWithProblemBuilder::SetObjNames$"),
            dict(unit="src/nl-reader.cc", fn=[r"mp::NameProvider::.*", r"mp::internal::ReadNames"], repo=repo)]
    F = Facts(export_many(jobs))
    rep.note_units([U, MU, "src/nl-reader.cc"])
    funcs = [f for f in F.funcs if not f.is_dependent() and f.cfg is not None]
    rep.note_funcs(funcs)

    def all_of(qn):
        c = [f for f in funcs if f.qn == qn]
        if not c:
            raise AnalysisBroken("anchor %s not found" % qn)
        return c

    def one(qn, pred=lambda f: True):
        c = [f for f in all_of(qn) if pred(f)]
        if not c:
            raise AnalysisBroken("anchor %s not found" % qn)
        return c[0]

    def calls(f, name=None, qn=None):
        return [c for c in f.walk() if c["k"] in ("CXXMemberCallExpr", "CallExpr") and
                (qn is None or c.get("callee") == qn) and (name is None or c.get("callee", "").split("::")[-1] == name)]

    # ---- W1 ---------------------------------------------------------------------------
    w1 = rep.rule("C19.W1", "WHO", "the text of a VCString is copied only through MakeCountedName, which always advances the counter", floor=6)
    VS = "mp::pre::VCString"
    readers = {}
    for f in funcs:
        if not f.qn.startswith(VS + "::"):
            continue
        for n in list(f.walk()) + [x for i in f.d.get("inits", []) for x in walk(i)]:
            if n["k"] == "MemberExpr" and n.get("name") == "s_":
                base = strip(kids(n)[0]) if kids(n) else None
                other = base is not None and base["k"] != "CXXThisExpr"
                readers.setdefault(f.full.split("VCString::")[-1], []).append("other" if other else "this")
    allowed = {"MakeCountedName": {"this"}, "MakeCurrentName": {"this"}, "empty": {"this"}, "operator=": {"this"},
               "VCString": {"this"}, "operator+<char[6]>": {"this"}}
    for fn_, kinds_ in sorted(readers.items()):
        key = fn_.split("(")[0]
        ok = set(kinds_) <= {"this"} and (key in allowed or key.startswith("operator+"))
        w1.check(ok, "s_-access|%s" % key, "", "%s touches only its own text" % key,
                 "%s reads the text of %s: a copy that bypasses the counter yields two items with one name" %
                 (key, "another VCString directly" if "other" in kinds_ else "the object outside the allowed accessors"))
    mc = one(VS + "::MakeCountedName")
    # case evaluation of MakeCountedName for a counter value N: returned text and counter afterwards
    class _Ret(Exception):
        def __init__(self, v):
            self.v = v

    def mc_eval(e, env):
        e0 = e
        e = strip(e)
        while e is not None and e["k"] in ("CXXConstructExpr", "ExprWithCleanups", "CXXBindTemporaryExpr", "MaterializeTemporaryExpr", "CXXFunctionalCastExpr") and len(kids(e)) == 1:
            e = strip(kids(e)[0])
        k = e["k"]
        if k == "IntegerLiteral" or (k == "CXXBoolLiteralExpr"):
            return int(e["v"]) if k == "IntegerLiteral" else int(str(e.get("v")).lower() in ("true", "1"))
        if k == "MemberExpr" and e.get("name") == "n_":
            return env["n"]
        if k == "MemberExpr" and e.get("name") == "s_":
            return ("text", [])
        if k == "DeclRefExpr" and e.get("declId") in env["loc"]:
            return env["loc"][e["declId"]]
        if k == "UnaryOperator" and e.get("op") in ("++", "--") and render(kids(e)[0]).replace("this->", "") == "n_":
            old_ = env["n"]
            env["n"] += 1 if e["op"] == "++" else -1
            env["incs"] += 1
            return old_ if e.get("postfix") else env["n"]
        if k == "UnaryOperator" and e.get("op") == "!":
            return int(not mc_eval(kids(e)[0], env))
        if k == "BinaryOperator" and e.get("op") == ",":
            mc_eval(kids(e)[0], env)
            return mc_eval(kids(e)[1], env)
        if k in ("BinaryOperator", "CompoundAssignOperator") and e.get("op") in ("=", "+=", "-=") and render(kids(e)[0]).replace("this->", "") == "n_":
            v_ = mc_eval(kids(e)[1], env)
            env["n"] = v_ if e["op"] == "=" else env["n"] + (v_ if e["op"] == "+=" else -v_)
            env["incs"] += 1
            return env["n"]
        if k == "BinaryOperator" and e.get("op") in ("==", "!=", "<", ">", "<=", ">=", "&&", "||"):
            a = mc_eval(kids(e)[0], env)
            if e["op"] == "&&":
                return int(bool(a) and bool(mc_eval(kids(e)[1], env)))
            if e["op"] == "||":
                return int(bool(a) or bool(mc_eval(kids(e)[1], env)))
            b = mc_eval(kids(e)[1], env)
            return int({"==": a == b, "!=": a != b, "<": a < b, ">": a > b, "<=": a <= b, ">=": a >= b}[e["op"]])
        if k == "ConditionalOperator":
            c, a, b = kids(e)
            return mc_eval(a if mc_eval(c, env) else b, env)
        if k == "CallExpr" and (e.get("callee") or "").endswith("to_string"):
            return ("num", mc_eval(call_args(e)[0], env))
        if k == "CharacterLiteral":
            return ("chr", chr(int(e["v"])))
        if k == "StringLiteral":
            return ("str", e.get("v"))
        if k == "CXXOperatorCallExpr" and e.get("op") == "+":
            a, b = [mc_eval(x, env) for x in call_args(e)[:2]]
            pa = a[1] if isinstance(a, tuple) and a[0] == "text" else None
            if pa is None:
                raise AnalysisBroken("C19.W1: MakeCountedName: concatenation does not start with the name")
            return ("text", pa + [b])
        raise AnalysisBroken("C19.W1: MakeCountedName: expression `%s` outside the fragment" % render(e0)[:50])

    def mc_run(stmts, env):
        for st_ in stmts:
            if st_ is None:
                continue
            k = st_["k"]
            if k == "CompoundStmt":
                mc_run(kids(st_), env)
            elif k == "DeclStmt":
                for v in kids(st_):
                    if v["k"] == "VarDecl" and kids(v):
                        env["loc"][v["declId"]] = mc_eval(kids(v)[0], env)
            elif k == "IfStmt":
                ch = [x for x in st_["c"] if x is not None]
                if mc_eval(ch[0], env):
                    mc_run([ch[1]], env)
                elif len(ch) > 2:
                    mc_run([ch[2]], env)
            elif k == "ReturnStmt":
                raise _Ret(mc_eval(kids(st_)[0], env))
            elif k == "NullStmt":
                pass
            else:
                mc_eval(st_, env)

    def mc_case(n0):
        env = dict(n=n0, loc={}, incs=0)
        try:
            mc_run(kids(mc.body), env)
        except _Ret as r_:
            return r_.v, env["n"], env["incs"]
        raise AnalysisBroken("C19.W1: MakeCountedName has a path without a return")
    problems = []
    for n0 in (0, 1, 4):
        v, n1, ni = mc_case(n0)
        if n1 != n0 + 1 or ni != 1:
            problems.append("with counter %d the counter becomes %d" % (n0, n1))
        want = ("text", []) if n0 == 0 else ("text", [("chr", "_"), ("num", n0 + 1), ("chr", "_")])
        got = v
        if isinstance(got, tuple) and got[0] == "text":
            got = ("text", [("chr", x[1]) if x[0] == "str" and len(x[1]) == 1 else x for x in got[1]])
        if got != want:
            problems.append("with counter %d the returned text is %s, expected %s" % (n0, got, want))
    okm, okf = not problems, True
    w1.check(okm and okf, "counted-name", short_loc(mc.loc), "MakeCountedName: first copy = the name, copy k>1 = name_k_; the counter advances on every call (cases N = 0, 1, 4 evaluated)",
             "MakeCountedName: %s" % "; ".join(problems[:2]))
    cc = one(VS + "::VCString", lambda f: f.params and "VCString" in (f.params[0].get("t") or ""))
    ini = [i for i in cc.d.get("inits", []) if i.get("name") == "s_"]
    w1.check(len(ini) == 1 and any(c.get("callee") == VS + "::MakeCountedName" for c in walk(ini[0])), "copy-ctor", short_loc(cc.loc),
             "the copy constructor takes the source's counted name")
    ca = one(VS + "::operator=")
    asg = [n for n in ca.walk() if n["k"] == "CXXOperatorCallExpr" and n.get("op") == "=" and render(call_args(n)[0]) == "s_"]
    w1.check(len(asg) == 1 and any(c.get("callee") == VS + "::MakeCountedName" for c in walk(asg[0])) and
             any(t_.replace("this->", "") == "empty()" and pol is True for t_, pol in norm_facts(ca, asg[0])), "copy-assign", short_loc(ca.loc),
             "copy assignment takes a counted name and only fills an empty slot (first writer wins)")
    cs = one(VS + "::operator basic_string")
    w1.check(len(calls(cs, qn=VS + "::MakeCountedName")) == 1, "to-string", short_loc(cs.loc), "conversion to std::string is a counted copy")


    # ---- W2: the counter lives in the stored object, so transfers must read it by reference ---------
    w2 = rep.rule("C19.W2", "WHO", "name transfers read the stored VCString by reference, so that every copy advances the counter of the stored source", floor=5)
    for qn, pred in (("mp::pre::ValueNode::GetStr", lambda f: True), ("mp::pre::ValueNode::GetVal", lambda f: "VCString" in f.full),
                     ("mp::pre::ValueNode::GetValVec", lambda f: "VCString" in f.full), ("mp::pre::BasicStaticIndivEntryLink::GetStr", lambda f: True)):
        for f in [g for g in all_of(qn) if pred(g)][:2]:
            ret = (f.d.get("ret") or "")
            rr = [r for r in f.walk() if r["k"] == "ReturnStmt"]
            src_ok = len(rr) == 1 and not any(x["k"] in ("CXXConstructExpr", "CXXTemporaryObjectExpr", "MaterializeTemporaryExpr") and "VCString" in (x.get("ct") or "") for x in walk(rr[0]))
            w2.check(ret.rstrip().endswith("&") and src_ok, "accessor|%s%s" % (re.sub(r"mp::pre::|<mp::pre::RangeCon2Slack.*", "", f.full)[:60], "|Quad" if "QuadAndLinTerms" in f.full and "BasicStatic" in f.full else ""), short_loc(f.loc),
                     "%s returns a reference to the stored name" % qn.split("::")[-1],
                     "%s returns `%s`: a transfer works on a private copy whose counter restarts, so two items receive the same generated name" % (f.full.split("::")[-1][:40], ret))
    for f in [g for g in all_of("mp::pre::Many2ManyLink::Distr") if "VCString" in g.full]:
        sv = calls(f, name="SetVal")
        ok = len(sv) == 1
        why = ""
        if ok:
            a = strip(call_args(sv[0])[1])
            while a["k"] in ("CXXConstructExpr", "MaterializeTemporaryExpr", "CXXBindTemporaryExpr", "ImplicitCastExpr") and kids(a):
                a = strip(kids(a)[0])
            if a["k"] == "DeclRefExpr":
                v = [x for x in f.walk() if x["k"] == "VarDecl" and x.get("declId") == a.get("declId")]
                ok = len(v) == 1 and (v[0].get("ct") or "").rstrip().endswith("&")
                why = "the value handed to SetVal is the local `%s` of type %s" % (a.get("name"), v[0].get("ct") if v else "?")
                if ok:
                    ini = strip(kids(v[0])[0])
                    while ini["k"] in ("MaterializeTemporaryExpr", "ExprWithCleanups", "ImplicitCastExpr", "CXXBindTemporaryExpr") and kids(ini):
                        ini = strip(kids(ini)[0])
                    ok = ini["k"] == "CXXMemberCallExpr" and (ini.get("callee") or "").endswith("::GetVal") and ini["k"] != "MaterializeTemporaryExpr" and \
                        not any(x["k"] == "MaterializeTemporaryExpr" for x in walk(kids(v[0])[0]))
                    why = "the local is bound to a temporary"
            elif a["k"] == "CXXMemberCallExpr":
                ok = (a.get("callee") or "").endswith("::GetVal")
            else:
                ok = False
        w2.check(ok, "distribute-by-reference", short_loc(f.loc), "Distr<VCString> hands the stored source object itself to every SetVal (reference, no intermediate copy)",
                 "Distr<VCString>: %s - copies are counted on a temporary, the stored name's counter does not advance per target" % why)

    # ---- T1 ---------------------------------------------------------------------------
    t1 = rep.rule("C19.T1", "TABLE", "names are transferred by every link to each target; PresolveNames installs all three item classes", floor=8)
    for cls, helper in (("mp::pre::CopyLink", "CopySrcDest"), ("mp::pre::Many2ManyLink", "DistributeFromSrc2Dest")):
        f = one(cls + "::PresolveNames")
        c = calls(f, name=helper)
        t1.check(len(c) == 1 and "VCString" in (c[0].get("calleeFull") or ""), "link|%s" % cls.split("::")[-1], short_loc(f.loc),
                 "%s::PresolveNames runs %s<VCString>" % (cls.split("::")[-1], helper))
    ds = [f for f in all_of("mp::pre::Many2ManyLink::Distr") if "VCString" in f.full]
    if ds:
        f = ds[0]
        sv = calls(f, name="SetVal")
        loops = [n for n in f.walk() if n["k"] == "ForStmt"]
        t1.check(len(sv) == 1 and len(loops) == 2 and not [c for c in f.cfg.facts_at(sv[0]) if render(f.nodes[c[0]]).find("!=") < 0],
                 "distribute-to-every-target", short_loc(f.loc), "Distr assigns the source's name to every index of the target range")
    for f in all_of("mp::pre::RangeCon2Slack::PresolveNamesEntry"):
        # the SetStr calls made for an entry, directly or through a naming helper (arguments read at the call in this function)
        st = [r_(c_) for a_, c_, r_, o_ in reach_calls(F, f, lambda x: x["k"] == "CXXMemberCallExpr" and (x.get("callee") or "").split("::")[-1] == "SetStr", depth=1)]
        lits = sorted({x.get("v") for c in st for x in walk(c) if x["k"] == "StringLiteral"})
        tg = sorted({render(call_args(c)[1]) for c in st})
        t1.check(len(st) == 2 and len(lits) == 2 and tg == ["CON_TARGET", "VAR_SLK"] and all("CON_SRC" in render(c) for c in st),
                 "range-link|%s" % ("quad" if "QuadAndLinTerms" in f.full else "lin"), short_loc(f.loc),
                 "the slack and the equality get the source's name with distinct suffixes %s" % lits, "targets %s suffixes %s" % (tg, lits))
    pn = one("mp::FlatConverter::PresolveNames")
    cl = calls(pn, name="CleanUpNameNodes")
    ps = calls(pn, name="PresolveNames")
    # the three installations, made by PresolveNames itself or by a helper it calls after the presolve
    def installs(nm_):
        return sorted({a_["i"]: a_ for a_, c_, r_, o_ in reach_calls(F, pn, lambda c: c["k"] in ("CXXMemberCallExpr", "CallExpr") and
                                                                      (c.get("callee") or "").split("::")[-1] == nm_, depth=1)}.values(), key=lambda x: x["i"])
    inst = [installs("AddVarNames"), installs("set_name"), installs("CopyNamesFromValueNodes")]
    ok = len(cl) == 1 and len(ps) == 1 and pn.cfg.dominates(cl[0], ps[0]) and all(len(x) == 1 and pn.cfg.dominates(ps[0], x[0]) for x in inst)
    t1.check(ok, "PresolveNames|clean-presolve-install", short_loc(pn.loc),
             "name nodes are cleaned, names presolved, then variable, objective and constraint names installed",
             "PresolveNames does not clean the name nodes first or skips one of AddVarNames / set_name / CopyNamesFromValueNodes")
    if ps:
        il = [x for x in walk(ps[0]) if x["k"] == "InitListExpr"]
        txt = render(ps[0])
        t1.check(all(n in " ".join(render(x) for x in walk(ps[0]) if x["k"] == "MemberExpr") for n in ("var_names_", "con_names_", "obj_names_")),
                 "PresolveNames|sources", short_loc(ps[0].get("l")), "the presolve takes variable, constraint and objective names")
    def implied_by_var_names(n, pol):
        """is the condition (node n taken with polarity pol) true whenever variable names are present?"""
        while n["k"] in ("ParenExpr", "ImplicitCastExpr", "ExprWithCleanups") and n.get("c"):
            n = n["c"][0]
        if n["k"] == "UnaryOperator" and n.get("op") == "!":
            return implied_by_var_names(n["c"][0], not pol)
        if n["k"] == "BinaryOperator" and n.get("op") in ("&&", "||"):
            both = (n["op"] == "&&") == pol
            r = [implied_by_var_names(c, pol) for c in n["c"]]
            return all(r) if both else any(r)
        t = render(n).replace(" ", "").replace("this->", "")
        if pol:
            return t in ("var_names_.size()", "var_names_.size()>0", "var_names_.size()!=0", "0<var_names_.size()", "var_names_.size()>=1")
        return t in ("var_names_.empty()", "var_names_.size()==0")
    if ps:
        fs = pn.cfg.facts_at(ps[0])
        bad = [render(pn.nodes[c]) for c, pol in fs if not implied_by_var_names(pn.nodes[c], pol)]
        t1.check(not bad, "PresolveNames|guard", short_loc(pn.loc),
                 "names are presolved and installed whenever variable names were read (the only condition on the way is the presence of variable names)",
                 "PresolveNames is skipped under condition(s) %s that can fail although names were requested and read - the solver then gets unnamed items" % bad)
    fmi = one("mp::FlatConverter::FinishModelInput")
    cpn, cpush, ccv = calls(fmi, name="PresolveNames"), calls(fmi, name="PushModelTo"), calls(fmi, name="ConvertModel")
    t1.check(len(cpn) == 1 and len(cpush) == 1 and len(ccv) == 1 and not fmi.cfg.facts_at(cpn[0]) and
             fmi.cfg.dominates(ccv[0], cpn[0]) and fmi.cfg.dominates(cpn[0], cpush[0]),
             "FinishModelInput|names-between-convert-and-push", short_loc(fmi.loc),
             "names are presolved unconditionally after the model is converted (all derived items exist) and before it is pushed to the solver",
             "FinishModelInput does not run PresolveNames unconditionally between ConvertModel and PushModelTo: items pushed to the solver have no (derived) names")
    tr = calls(pn, name="TransferNames2Node")
    t1.check(len(tr) == 2 and all(pn.cfg.dominates(cl[0], c) and pn.cfg.dominates(c, ps[0]) for c in tr) if cl and ps else False,
             "PresolveNames|sos-names", short_loc(pn.loc), "SOS constraint names (created at the top level) are put into their nodes between cleaning and presolving")
    cm = one("mp::ConstraintManager::CopyNamesFromValueNodes")
    t1.check(len(calls(cm, name="CopyNamesFromValueNodes")) == 1 and any(n["k"] == "CXXForRangeStmt" for n in cm.walk()),
             "all-keepers", short_loc(cm.loc), "constraint names are copied back for every keeper")
    n_ck = 0
    for f in all_of("mp::ConstraintKeeper::CopyNamesFromValueNodes"):
        sn = calls(f, name="SetName")
        ok = len(sn) == 1 and "MakeCurrentName" in render(sn[0]) and any(n["k"] == "ForStmt" for n in f.walk())
        n_ck += 1
        if not ok or n_ck == 1:
            t1.check(ok, "keeper-copy|%s" % f.full.split(">::CopyNames")[0][-40:], short_loc(f.loc), "each stored constraint takes the current name of its node slot")
    rep.extra["keepers_checked"] = n_ck
    # names go INTO the node for every stored constraint, reformulated ones included: what is derived from a reformulated
    # constraint takes its name from that slot
    n_c2 = 0
    for f in all_of("mp::ConstraintKeeper::CopyNames2ValueNodes"):
        st_ = [n for n in f.walk() if n["k"] == "CXXOperatorCallExpr" and n.get("op") == "=" and
               strip(call_args(n)[0])["k"] == "CXXOperatorCallExpr" and strip(call_args(n)[0]).get("op") == "[]" and "name()" in render(call_args(n)[1])]
        ok, why = len(st_) == 1, "%d stores of a constraint name into the node in the function itself" % len(st_)
        if ok:
            lp_ = f.enclosing(st_[0], ("ForStmt", "WhileStmt", "DoStmt", "CXXForRangeStmt"))
            sh_ = loop_shape(f, lp_) if lp_ is not None and lp_["k"] in ("ForStmt", "WhileStmt") else None
            tx_ = lambda e: xrender(f, e, True).replace(" ", "").replace("this->", "").replace("(int)", "").replace("(size_t)", "")
            full = False
            if sh_ is not None and sh_["stepped"]:
                if sh_["dir"] == "up" and sh_["rel"] in ("<", "!=") and sh_["start"] not in (None, "continues") and cv(sh_["start"]) == 0:
                    full = tx_(sh_["bound"]) in ("cons_.size()", "GetValueNode().GetStrVec().size()")
                elif sh_["dir"] == "down" and sh_.get("values") == "below" and sh_["bound"] is not None:
                    full = tx_(sh_["bound"]) in ("cons_.size()", "GetValueNode().GetStrVec().size()")
            body_ = [x for x in lp_.get("c", []) if x is not None][-1] if lp_ is not None else None
            inner_ = {x["i"] for x in walk(body_)} if body_ is not None else set()
            cond_ = [c_ for c_ in f.cfg.facts_at(st_[0]) if c_[0] in inner_]
            idx_ = strip(call_args(strip(call_args(st_[0])[0]))[1])
            src_ix = [x for x in walk(call_args(st_[0])[1]) if x["k"] == "CXXOperatorCallExpr" and x.get("op") == "[]" and
                      any(y["k"] == "MemberExpr" and y.get("name") == "cons_" for y in walk(call_args(x)[0]))]
            same_ix = sh_ is not None and idx_.get("declId") == sh_["var"] and len(src_ix) == 1 and strip(call_args(src_ix[0])[1]).get("declId") == sh_["var"]
            ok = full and not cond_ and same_ix
            why = "the store `%s` is %s" % (render(st_[0])[:60], "conditional" if cond_ else "not in a loop over all stored constraints with matching positions")
        n_c2 += 1
        if not ok or n_c2 == 1:
            t1.check(ok, "keeper-names-to-node|%s" % f.full.split(">::CopyNames")[0][-40:], short_loc(f.loc),
                     "every stored constraint, reformulated or not, puts its name into its node slot",
                     "%s: items derived from a constraint that is skipped get names built from an empty string (empty or duplicate names)" % why)

    # ---- G1 ---------------------------------------------------------------------------
    g1 = rep.rule("C19.G1", "GUARD", "original names: requested counts, generic fall-back, objective selection", floor=5)
    rn = one("mp::ModelManagerWithProblemBuilder::ReadNames")
    rc = calls(rn, qn="mp::NameProvider::ReadNames")
    got = sorted(render(call_args(c)[1]).replace(" ", "").replace("GetModel().", "") for c in rc)
    g1.check(got == ["num_cons()+num_objs()", "num_vars()+num_common_exprs()"], "requested-counts", short_loc(rn.loc),
             "ReadNames reserves num_vars+num_common_exprs column names and num_cons+num_objs row names", str(got))
    sets = {n: calls(rn, name=n) for n in ("SetVarNames", "SetConNames", "SetObjNames")}
    g1.check(all(len(v) == 1 for v in sets.values()) and len({frozenset(rn.cfg.facts_at(v[0])) for v in sets.values()}) == 1, "all-three-set", short_loc(rn.loc),
             "variable, constraint and objective names are set under one condition")
    # the cvt:names modes, evaluated: 0 none; 1 names from the files (if any were read); 2 files, generic names for what is missing;
    # 3 generic names only
    from ..cfg import MiniInt as _MIn
    badm = []
    for m_ in (0, 1, 2, 3):
        for nread_ in (0, 5):
            ev_, box = [], {}

            def atom(t_, n_, env_, m_=m_, nread_=nread_):
                if n_["k"] in ("CXXMemberCallExpr", "CallExpr"):
                    cn_ = (n_.get("callee") or "").split("::")[-1]
                    if cn_ == "WantNames":
                        return m_
                    if cn_ == "ReadNames" and "NameProvider" in (n_.get("callee") or ""):
                        ev_.append("read")
                        return 0
                    if cn_ == "number_read":
                        return nread_ if "read" in ev_ else 0
                    if cn_ in ("SetVarNames", "SetConNames", "SetObjNames"):
                        ev_.append("set")
                        return 0
                    if cn_ in ("num_vars", "num_cons", "num_objs", "num_common_exprs", "num_algebraic_cons", "num_logical_cons"):
                        return 1
                return None
            mi = _MIn(F, atom)
            mi.select_only = True
            box["mi"] = mi
            try:
                mi.call(rn, [("obj", None, None)])
            except AnalysisBroken as e_:
                if "without a return" not in str(e_):
                    raise AnalysisBroken("C19.G1: ReadNames: %s" % e_)
            want_read = m_ in (1, 2)
            want_set = m_ >= 2 or (want_read and nread_ > 0)
            if ("read" in ev_) != want_read or ("set" in ev_) != want_set:
                badm.append("cvt:names=%d, %s: files %s, names %s" % (m_, "name files present" if nread_ else "no name files",
                                                                      "read" if "read" in ev_ else "not read", "installed" if "set" in ev_ else "not installed"))
    g1.check(not badm, "names-modes", short_loc(rn.loc), "modes 1 and 2 read the .col/.row files; names are installed in modes 2 and 3, and in mode 1 when the files gave any",
             "%s - original items then carry generated names although AMPL's names were available (or no names at all)" % "; ".join(badm[:2]))
    nm = one("mp::NameProvider::name")
    rets = [r for r in nm.walk() if r["k"] == "ReturnStmt"]
    g_ok = False
    for r in rets:
        fa = norm_facts(nm, r, canon=True)
        if ("index+1<names_.size()", False) in fa:
            g_ok = "writer_" in render(r)
    g1.check(g_ok and len(rets) == 2, "generic-fallback", short_loc(nm.loc), "indexes beyond the names read yield the generated name")
    gi = [n for n in nm.walk() if n["k"] == "IfStmt" and "index>=i2" in render(kids(n)[0]).replace(" ", "")]
    okg = len(gi) == 1 and len(kids(gi[0])) == 3 and "index-i2+1" in render(kids(gi[0])[1]).replace(" ", "") and \
        "index+1" in render(kids(gi[0])[2]).replace(" ", "")
    g1.check(okg, "generic-1-based", short_loc(nm.loc), "generated names are 1-based: name[index+1] / name2[index-i2+1]")
    so = one("mp::ModelManagerWithProblemBuilder::SetObjNames")
    o1 = [v for v in so.walk() if v["k"] == "VarDecl" and v.get("name") == "o1"]
    t = render(so.body).replace(" ", "")
    ok = len(o1) == 1 and render(kids(o1[0])[0]).replace(" ", "").endswith("objno_used()-1")
    mo = [n for n in so.walk() if n["k"] == "IfStmt" and render(kids(n)[0]).endswith("multiobj()")]
    ok = ok and len(mo) == 1 and "o1 = 0" in render(kids(mo[0])[1]) and "num_objs()" in render(kids(mo[0])[1])
    g1.check(ok, "objective-names-follow-selection", short_loc(so.loc), "objective names: the selected objective objno_used()-1, or all under multiobj (agrees with C12)")
    # .row layout: constraint names (algebraic + logical) first, objective names after them
    rowreq = [g_ for g_ in got if "num_objs()" in g_]
    ncdecl = [v for v in so.walk() if v["k"] == "VarDecl" and v.get("name") == "num_c"]
    nctxt = render(kids(ncdecl[0])[0]).replace(" ", "").replace("GetModel().", "") if len(ncdecl) == 1 and kids(ncdecl[0]) else "?"
    lp = [n for n in so.walk() if n["k"] == "ForStmt"]
    lpt = render(lp[0]).replace(" ", "") if len(lp) == 1 else ""
    # the provider lookup and the generated index, in SetObjNames itself or in a helper it calls per objective
    nm_reached = list(reach_calls(F, so, lambda c_: c_["k"] == "CXXMemberCallExpr" and (c_.get("callee") or "") == "mp::NameProvider::name", depth=1))
    nmc = [c_ for a_, c_, r_, o_ in nm_reached]
    name_arg = render(nm_reached[0][2](call_args(nmc[0])[0])).replace(" ", "") if len(nm_reached) == 1 else "?"
    def aff_(g_, n_, res_=lambda e: e):
        """integer-affine normal form {symbol: coefficient, "": constant} of an index expression (locals that merely name an
        expression looked through), or None"""
        n_ = strip(expand_locals(g_, res_(n_), 0, False))
        while n_ is not None and n_["k"] in ("CStyleCastExpr", "CXXStaticCastExpr", "CXXFunctionalCastExpr", "ParenExpr") and kids(n_):
            n_ = strip(kids(n_)[0])
        if n_ is None:
            return None
        if cv(n_) is not None and n_["k"] != "DeclRefExpr":
            return {"": int(cv(n_))}
        if n_["k"] == "BinaryOperator" and n_.get("op") in ("+", "-"):
            a, b = aff_(g_, kids(n_)[0]), aff_(g_, kids(n_)[1])
            if a is None or b is None:
                return None
            out = dict(a)
            for k_, v_ in b.items():
                out[k_] = out.get(k_, 0) + (v_ if n_["op"] == "+" else -v_)
            return {k_: v_ for k_, v_ in out.items() if v_ != 0}
        return {render(n_).replace(" ", "").replace("this->", ""): 1}

    def aff_sub(a, b):
        out = dict(a)
        for k_, v_ in b.items():
            out[k_] = out.get(k_, 0) - v_
        return {k_: v_ for k_, v_ in out.items() if v_ != 0}
    # the loop over the objectives: io from num_c+o1 up to num_c+o2 (for or while form, bounds possibly named)
    lps_ = [loop_shape(so, n) for n in so.walk() if n["k"] in ("ForStmt", "WhileStmt")]
    lps_ = [x for x in lps_ if x is not None]
    # with k = o1 + (v - start) the objective handled by the iteration of loop variable v:  the loop makes o2 - o1 iterations,
    # the name is looked up at row position num_c + k, and the generated name carries k + 1 (compared as affine forms, so
    # `io` from num_c+o1 and `i_obj` from o1 with `const io = num_c+i_obj` are the same loop)
    lp_ok = gen_ix = name_ok = False
    if len(lps_) == 1 and lps_[0]["dir"] == "up" and lps_[0]["rel"] == "<" and lps_[0]["start"] not in (None, "continues") and len(nm_reached) == 1:
        a_, c_, r_, o_ = nm_reached[0]
        S_, B_ = aff_(so, lps_[0]["start"]), aff_(so, lps_[0]["bound"])
        A_ = aff_(o_, call_args(c_)[0], r_)
        v_ = lps_[0]["name"]
        if S_ is not None and B_ is not None and A_ is not None:
            k_ = aff_sub({"o1": 1, v_: 1}, S_)                       # k = o1 + v - start
            lp_ok = aff_sub(B_, S_) == {"o2": 1, "o1": -1}
            want_name = dict(k_)
            want_name["num_c"] = want_name.get("num_c", 0) + 1
            want_name = {x: y for x, y in want_name.items() if y != 0}
            name_ok = A_ == want_name
            want_gen = dict(k_)
            want_gen[""] = want_gen.get("", 0) + 1
            want_gen = {x: y for x, y in want_gen.items() if y != 0}
            for n_ in o_.walk():
                if n_["k"] == "CallExpr" and (n_.get("callee") or "").endswith("to_string") and call_args(n_):
                    gen_ix = aff_(o_, call_args(n_)[0], r_) == want_gen
    okl = len(rowreq) == 1 and rowreq[0] == nctxt + "+num_objs()" and lp_ok and len(nmc) == 1 and name_ok and gen_ix
    scn = calls(rn, name="get_names")
    sct = sorted(render(c).replace(" ", "").replace("GetModel().", "") for c in scn)
    okl = okl and any("get_names(num_cons(),num_algebraic_cons())" in t_ for t_ in sct)
    g1.check(okl, "row-layout", short_loc(so.loc), "objective names start after all num_cons() constraint names of the .row file (the count ReadNames requests), generated names count from 1",
             "objective names are taken from row index `%s` + k while the .row file holds %s names before them: with logical constraints an objective gets the name of another item" % (nctxt, rowreq[0].replace("+num_objs()", "") if rowreq else "?"))
    own_ = [so] + [o_ for a_, c_, r_, o_ in nm_reached if o_ is not so]
    fb = [n for g_ in own_ for n in g_.walk() if n["k"] == "IfStmt" and "number_read()" in xrender(g_, kids(n)[0], True)]
    lits_ = " ".join(x.get("v", "") for g_ in own_ for x in g_.walk() if x["k"] == "StringLiteral")
    g1.check(len(fb) == 1 and "_sobj[" in lits_, "objective-generic-fallback", short_loc(so.loc), "objective names missing from the .row file are generated")

    # ---- S1 ---------------------------------------------------------------------------
    s1 = rep.rule("C19.S1", "SCAN", "name scanner and provider stay inside the mapped file", floor=3)
    derefs = [n for n in nm.walk() if n["k"] == "UnaryOperator" and n.get("op") == "*" and "pos1past" in render(n)]
    for n in derefs:
        e = render(kids(n)[0]).replace(" ", "").strip("()")
        if e == "pos1past":
            s1.ok("name|deref|%s" % e, short_loc(n.get("l")), "*pos1past is the newline that ended the name (inside the file)")
            continue
        if e == "pos1past-1":
            # needs pos1past > name: the name is not empty
            ok = False
            for cid, pol in nm.cfg.facts_at(n):
                t = render(nm.nodes[cid]).replace(" ", "")
                if (t in ("pos1past>name", "name<pos1past", "pos1past!=name") and pol is True) or (t in ("pos1past==name", "pos1past<=name") and pol is False):
                    ok = True
            for anc in nm.ancestors(n):
                if anc["k"] == "BinaryOperator" and anc.get("op") == "&&":
                    l_, r_ = kids(anc)
                    if any(x["i"] == n["i"] for x in walk(r_)) and render(l_).replace(" ", "") in ("pos1past>name", "name<pos1past", "pos1past!=name"):
                        ok = True
            s1.check(ok, "name|deref|pos1past-1", short_loc(n.get("l")), "*(pos1past-1) is read only when the name is not empty",
                     "*(pos1past-1) is read without `pos1past > name`: for an empty line the byte before the line - for the first line, "
                     "before the mapped file - is read")
            continue
        s1.fail("name|deref|%s" % e, short_loc(n.get("l")), "unrecognised access `%s`" % render(n))
    sc = one("mp::internal::ReadNames")
    lp = [n for n in sc.walk() if n["k"] == "ForStmt"]
    ok = len(lp) == 1 and render(lp[0]["c"][2]).replace(" ", "") == "ptr!=end" and render(lp[0]["c"][3]) == "++ptr"
    dr = [n for n in walk(lp[0]) if n["k"] == "UnaryOperator" and n.get("op") == "*"] if lp else []
    ok = ok and all(render(kids(n)[0]) == "ptr" for n in dr)
    s1.check(ok, "scanner-bounded", short_loc(sc.loc), "the scanner reads *ptr only for start <= ptr < end")
    ln = [c for c in sc.walk() if c["k"] == "CXXMemberCallExpr" and c.get("callee", "").endswith("::OnName")]
    ok = len(ln) == 1 and "ptr - start - in_win_newline" in render(ln[0])
    s1.check(ok, "name-length", short_loc(sc.loc), "a name is [start, ptr) minus a trailing carriage return")
    rd = one("mp::NameProvider::ReadNames")
    pb = calls(rd, name="push_back")
    s1.check(len(pb) == 1 and "last_name.data()+last_name.size()+1" in xrender(rd, call_args(pb[0])[0], True).replace(" ", "").replace("handler.name()", "last_name"), "sentinel", short_loc(rd.loc),
             "a sentinel pointer after the last name lets name(i) compute every length from the next start")
    return rep
