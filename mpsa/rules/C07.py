"""C07 - the solution check reports a violation iff the model is violated (exhaustiveness and fail path).

D1 dispatch: for every constraint keeper, ComputeViolations reaches a violation evaluator of that type; a
   functional type that uses the generic result-variable evaluator has a specific value evaluator, or can
   have no result variable (then the generic evaluator returns before indexing with -1);
G1 the context switch of the generic and the conditional evaluators covers MIX/POS/NEG with the right sign
   and treats any other value as violated; Violation::Check requires the absolute and (when the reference
   value is not 0) the relative tolerance to be exceeded;
P1 fail path: with sol:chk:fail the violating branch raises with sol::MP_SOLUTION_CHECK (a 100-199 code) and
   the mp::Error handler rethrows; without it only a warning is added; the result is
   msgreal.empty() && msgidea.empty(); an aborted check returns false;
P2 selection: ComputeViolations skips exactly the unused constraints and classifies solver-side (8),
   top-level (2) and intermediate (4) as documented; variable bounds and integrality are checked for
   original variables in both modes and for auxiliary ones in the realistic mode only;
H1 the check is run from the postsolve of every solution (ValuePresolver::PostsolveSolution).
"""
from ..cfg import MiniInt, eval_cases, norm_facts, xrender, expand_locals, reach_calls, Facts, kids, strip, walk, cv, render, call_args, call_object, switch_sections
from ..cfg import short_loc as _short_loc
from ..facts import export_closure, export, export_many, AnalysisBroken

LEVEL = "other"
TECHNIQUE = ("static analysis: resolved-callee dispatch table over all constraint keeper instantiations, "
             "switch-exhaustiveness and sign rules on the evaluators, path/guard rules on the fail path and on "
             "the constraint selection")
LEVEL_TEXT = ("Decided: every stored constraint type reaches an evaluator, none of them can index with a missing "
              "result variable or end in the 'not implemented' stub, the context cases and tolerance test have the "
              "documented form, the fail option raises the dedicated code and nothing swallows it, exactly the "
              "unused constraints are skipped.  Not decided: numerical correctness of each evaluator (constr_eval.h), "
              "the two-sided tolerance semantics on the boundary.  Noted, not flagged: linear and quadratic functional "
              "constraints use the base no-op violation evaluator (they are checked through their algebraic images "
              "and through recomputation)."
              "  Also decided (added after the seeded rounds): the point predicates (at a bound, nonzero, positive, bound violation) and the complementarity measure agree with their definitions on sample values.")
LEVEL_NOTE = "Trusted: clang 14 front end/CFG, tool/mpx.cc, the rule module."
DESIGN_REF = "DESIGN.md section 4, C07"
EXPLANATION = "Unit: the visitor flat-converter unit (67 keepers).  See the module docstring."
ASSUMPTIONS = ["constraint types are given a result variable only through AssignResult(Var)2Args"]
TRUSTED = ["clang 14 front end + CFG builder", "tool/mpx.cc", "mpsa/rules/C07.py"]

U = "solvers/visitor/visitor-modelapi-connect.cc"
_REPO = ["/repo"]


def short_loc(l):
    return _short_loc((l or "").replace(_REPO[0].rstrip("/") + "/", "/repo/"))


import re as _re
import re


def nt(t):
    t = t.replace(" ", "").replace("<default>", "").replace("std::", "")
    t = _re.sub(r"\((?:const)?(?:mp::)?[A-Za-z_0-9:<>,]*\*\)", "", t).replace("this->", "")
    return _re.sub(r"(?<![0-9.])([0-9]+)\.0(?![0-9])", r"\1", t)


def nfacts(f, n):
    out = []
    for cid, pol in f.cfg.facts_at(n):
        c = strip(f.nodes[cid])
        while c["k"] == "UnaryOperator" and c.get("op") == "!":
            pol = not pol
            c = strip(kids(c)[0])
        out.append((nt(render(c)), pol))
    return out


def run(rep, ctx):
    repo = ctx["repo"]
    _REPO[0] = repo
    fn = [r"mp::ConstraintKeeper::(ComputeValue|ComputeViolations)", r"mp::ComputeValue", r"mp::ComputeValue::.*", r"mp::ComputeViolation",
          r"mp::[A-Za-z_0-9]+::ComputeViolation", r"mp::Violation::Check", r"mp::SolutionChecker::.*",
          r"mp::pre::ValuePresolver::PostsolveSolution", r"mp::ViolSummary::.*",
          r"mp::VarInfoImpl::[a-z_0-9]+"]
    d = export_closure(depth=1, roots=r"^mp::(ConstraintKeeper::ComputeViolations|SolutionChecker::CheckVars|Violation::|pre::ValuePresolver::PostsolveSolution)", unit=U, fn=fn, enum=[r"mp::Context::CtxVal", r"mp::sol::Status"], repo=repo)
    cg = export(U, callgraph=True, repo=repo)["callgraph"]
    F = Facts([d])
    rep.note_units([U])
    funcs = [f for f in F.funcs if not f.is_dependent() and f.cfg is not None]
    rep.note_funcs(funcs)
    byid = {f.id: f for f in funcs}

    def all_of(qn):
        c = [f for f in funcs if f.qn == qn]
        if not c:
            raise AnalysisBroken("anchor %s not found" % qn)
        return c

    def one(qn, pred=lambda f: True):
        c = [f for f in all_of(qn) if pred(f)]
        if not c:
            raise AnalysisBroken("anchor %s not found" % qn)
        return c[0]

    # ---- D1 ---------------------------------------------------------------------------
    d1 = rep.rule("C07.D1", "DISPATCH", "every stored constraint type reaches a violation evaluator; no path into the stub or x[-1]", floor=60)
    keepers = all_of("mp::ConstraintKeeper::ComputeViolations")
    cvs = {f.full.split("ConstraintKeeper<")[-1].split(">::ComputeValue")[0]: f for f in all_of("mp::ConstraintKeeper::ComputeValue")}
    generic = [f for f in funcs if f.qn == "mp::ComputeViolation" and "constr_base.h" in (f.loc or "")]
    stub = [f for f in funcs if f.qn == "mp::ComputeValue" and "constr_base.h" in (f.loc or "")]
    assign_insts = " ".join(f_["id"] for f_ in cg if f_["qn"] in ("mp::FlatConverter::AssignResultVar2Args", "mp::FlatConverter::AssignResult2Args"))
    noted = []
    for f in keepers:
        inst = f.full.split("ConstraintKeeper<")[-1].split(">::ComputeViolations")[0]
        con = inst.split("ModelAPI, ", 1)[-1]
        key = con[-80:]
        cs = [c for c in f.walk() if c["k"] == "CXXMemberCallExpr" and c.get("callee", "").endswith("::ComputeViolation")]
        if len(cs) != 1:
            d1.fail(key, short_loc(f.loc), "%d ComputeViolation calls in ComputeViolations" % len(cs))
            continue
        tgt = byid.get(cs[0].get("calleeId"))
        if tgt is None:
            raise AnalysisBroken("C07.D1: evaluator %s of %s not exported" % (cs[0].get("callee"), con[:60]))
        if tgt.qn == "mp::BasicConstraint::ComputeViolation":
            okb = con in ("mp::LinearFunctionalConstraint", "mp::QuadraticFunctionalConstraint")
            noted.append(con)
            d1.check(okb, key, short_loc(tgt.loc), "%s uses the base (no-op) evaluator: checked through its algebraic image and by recomputation" % con.replace("mp::", ""),
                     "%s has no violation evaluator of its own: the base class version reports 'no violation' for every point" % con.replace("mp::", ""))
            continue
        if tgt.qn != "mp::CustomFunctionalConstraint::ComputeViolation":
            d1.ok(key, short_loc(tgt.loc), "own evaluator %s" % tgt.qn.replace("mp::", ""))
            continue
        ic = [x for x in tgt.walk() if x["k"] == "CallExpr" and x.get("callee") == "mp::ComputeViolation"]
        t2 = byid.get(ic[0].get("calleeId")) if ic else None
        if t2 is None:
            raise AnalysisBroken("C07.D1: free evaluator of %s not exported" % con[:60])
        if "constr_base.h" not in (t2.loc or ""):
            d1.ok(key, short_loc(t2.loc), "specific evaluator at %s" % short_loc(t2.loc))
            continue
        # generic, result-variable based: needs a value evaluator (or no result variable ever)
        kv = cvs.get(inst)
        vc = [c for c in kv.walk() if c["k"] == "CallExpr" and c.get("callee") == "mp::ComputeValue"] if kv else []
        vt = byid.get(vc[0].get("calleeId")) if vc else None
        if vt is None:
            raise AnalysisBroken("C07.D1: value evaluator of %s not found" % con[:60])
        if "constr_base.h" not in (vt.loc or ""):
            d1.ok(key, short_loc(vt.loc), "generic violation evaluator with the value evaluator at %s" % short_loc(vt.loc))
        else:
            idname = con.split("mp::")[-1].rstrip(">")
            never = idname not in assign_insts
            d1.check(never, key, short_loc(vt.loc), "%s has no value evaluator and is never given a result variable "
                     "(no AssignResult(Var)2Args instantiation): the generic evaluator returns before using the variable" % idname,
                     "%s can get a result variable but its value evaluator is the 'not implemented' stub: the check aborts" % idname)
    rep.extra["keepers"] = len(keepers)
    rep.extra["base_noop_evaluators"] = sorted(set(noted))
    if len(generic) < 1 or len(stub) < 1:
        raise AnalysisBroken("C07.D1: generic evaluator / stub not found")
    g = generic[0]
    rv = [v for v in g.walk() if v["k"] == "VarDecl" and v.get("name") == "resvar"]
    idx = [n for n in g.walk() if n["k"] == "CXXOperatorCallExpr" and n.get("op") == "[]" and rv and strip(call_args(n)[1]).get("declId") == rv[0]["declId"]] + \
          [n for n in g.walk() if n["k"] == "CXXMemberCallExpr" and n.get("callee", "").split("::")[-1] in ("raw", "bounds_viol") and rv and
           strip(call_args(n)[0]).get("declId") == rv[0]["declId"]]
    okg = bool(rv) and bool(idx)
    for n in idx:
        fa = nfacts(g, n)
        if not (("resvar<0", False) in fa or ("resvar>=0", True) in fa):
            okg = False
    d1.check(okg, "generic-guards-missing-result-var", short_loc(g.loc),
             "the generic evaluator indexes with the result variable only after resvar < 0 was excluded (%d uses)" % len(idx),
             "the generic evaluator uses x[resvar] without excluding resvar < 0: a functional constraint without result variable "
             "(the dummy UnaryEncodingConstraint) reads x[-1]")

    # ---- E1: logical evaluators agree with the truth tables of their operators ---------------------
    e1 = rep.rule("C07.E1", "TABLE", "evaluators of the logical operators (not, and, or, implication-else, if-then-else selector) agree with the operators' truth tables (threshold 0.5)", floor=5)
    evs = {}
    for f in funcs:
        if f.qn == "mp::ComputeValue" and f.params:
            m = _re.search(r"mp::([A-Za-z_0-9]+)ConstraintId", f.params[0].get("ct") or "")
            if m:
                evs.setdefault(m.group(1), f)

    def fcv(n):
        n = strip(n)
        for _ in range(6):
            if "cv" in n:
                try:
                    return float(n["cv"])
                except ValueError:
                    return None
            if n.get("v") is not None and n["k"] in ("FloatingLiteral", "IntegerLiteral"):
                return float(n["v"])
            if len(kids(n)) == 1:
                n = strip(kids(n)[0])
            else:
                return None
        return None

    def arg_index(f, e):
        """k if e is x[con.GetArguments()[k]] (possibly through a local), else None"""
        e = strip(e)
        if e["k"] == "DeclRefExpr":
            v = [x for x in f.walk() if x["k"] == "VarDecl" and x.get("declId") == e.get("declId") and kids(x)]
            if len(v) == 1:
                return arg_index(f, kids(v[0])[0])
            return None
        m = _re.fullmatch(r"x\[con\.GetArguments\(\)\[([0-9]+)\]\]", nt(render(e)))
        return int(m.group(1)) if m else None

    def btruth(f, e, val):
        """truth value of a 0.5-threshold boolean expression for argument truth values val[k]"""
        e = strip(e)
        if e["k"] == "BinaryOperator" and e.get("op") in ("&&", "||"):
            a, b = btruth(f, kids(e)[0], val), btruth(f, kids(e)[1], val)
            return (a and b) if e["op"] == "&&" else (a or b)
        if e["k"] == "UnaryOperator" and e.get("op") == "!":
            return not btruth(f, kids(e)[0], val)
        if e["k"] == "BinaryOperator" and e.get("op") in (">=", "<") and fcv(kids(e)[1]) == 0.5:
            k = arg_index(f, kids(e)[0])
            if k is None:
                raise AnalysisBroken("C07.E1: unrecognised operand %s" % render(e))
            return val[k] if e["op"] == ">=" else not val[k]
        raise AnalysisBroken("C07.E1: unrecognised condition %s in %s" % (render(e), f.full[:80]))
    import itertools as _it
    for name in ("Not", "Implication", "IfThen", "And", "Or"):
        if name not in evs:
            raise AnalysisBroken("C07.E1: no evaluator for %sConstraint" % name)
    f = evs["Not"]
    r = [x for x in f.walk() if x["k"] == "ReturnStmt"]
    bad = None
    if len(r) == 1:
        for a in (False, True):
            if btruth(f, kids(r[0])[0], {0: a}) != (not a):
                bad = "not(%s) evaluates to %s" % (a, not (not a))
    e1.check(len(r) == 1 and bad is None, "not", short_loc(f.loc), "not: value = argument < 0.5", bad or "shape")
    f = evs["Implication"]
    r = [x for x in f.walk() if x["k"] == "ReturnStmt"]
    bad = None
    if len(r) == 1:
        for a, b, c in _it.product((False, True), repeat=3):
            got = btruth(f, kids(r[0])[0], {0: a, 1: b, 2: c})
            want = (a and b) or ((not a) and c)
            if got != want:
                bad = "condition %s, then %s, else %s: the evaluator says %s, the operator is %s" % (a, b, c, got, want)
    e1.check(len(r) == 1 and bad is None, "implication-else", short_loc(f.loc), "implication: (cond and then) or (not cond and else) for all 8 cases",
             "implication evaluator disagrees with  cond ==> then else else_ : %s - a violated implication passes the solution check (or a satisfied one is reported)" % bad)
    f = evs["IfThen"]
    co = [x for x in f.walk() if x["k"] == "ConditionalOperator"]
    bad = None
    if len(co) == 1:
        c, a, b = kids(co[0])
        for t in (False, True):
            sel = cv(a) if btruth(f, c, {0: t}) else cv(b)
            if sel != (1 if t else 2):
                bad = "condition %s selects argument %s" % (t, sel)
        idx = f.parent.get(co[0]["i"])
    if len(co) != 1:
        # written without the conditional operator: the evaluator is run on a modelled point (x[arg k] = X[k])
        bad = None
        for cond_ in (0.0, 0.4, 0.5, 1.0):
            X_ = [cond_, 10.0, 20.0]
            box = {}

            def atom(t_, n_, env_):
                if n_["k"] == "CXXOperatorCallExpr" and n_.get("op") == "[]":
                    base_, ix_ = call_args(n_)[0], call_args(n_)[1]
                    k_ = box["mi"].expr(ix_, env_, 0)
                    if render(base_).replace(" ", "").endswith("GetArguments()"):
                        return int(k_)
                    if strip(base_).get("declId") == f.params[1]["declId"] and 0 <= int(k_) < 3:
                        return X_[int(k_)]
                return None
            mi = MiniInt(F, atom)
            box["mi"] = mi
            try:
                got_ = mi.call(f, [("obj", None, None), ("obj", None, None)])
            except AnalysisBroken as e_:
                bad = "not evaluable: %s" % str(e_)[:80]
                break
            if got_ != (X_[1] if cond_ >= 0.5 else X_[2]):
                bad = "condition value %s selects %s" % (cond_, got_)
        e1.check(bad is None, "ifthen-selector", short_loc(f.loc), "if-then-else: value of argument 1 when the condition holds, of argument 2 otherwise", bad or "")
    else:
        e1.check(bad is None, "ifthen-selector", short_loc(f.loc), "if-then-else: value of argument 1 when the condition holds, of argument 2 otherwise", bad or "shape")
    # and / or (and count, below): evaluated on modelled argument vectors - the evaluator may be a loop with an early return
    # or a standard algorithm with a lambda
    def eval_vector(f, truths):
        """value ComputeValue(con, x) returns when con has len(truths) arguments with the given truth values (x = 1 / 0)"""
        n_ = len(truths)
        xs = [1.0 if t else 0.0 for t in truths]

        def atom(t, n, env):
            if n["k"] in ("CXXOperatorCallExpr", "ArraySubscriptExpr") and (n.get("op", "[]") == "[]"):
                ks_ = call_args(n) if n["k"] == "CXXOperatorCallExpr" else kids(n)
                base = strip(ks_[0])
                if base["k"] == "DeclRefExpr" and f.params and len(f.params) > 1 and base.get("declId") == f.params[1]["declId"]:
                    return float(xs[int(mi.expr(ks_[1], env))])
                if "GetArguments()" in render(base):
                    return int(mi.expr(ks_[1], env))
            if t.endswith(".GetArguments().size()") or t.endswith("args.size()"):
                return n_
            return None

        def seq(text, node, env):
            return list(range(n_)) if ("GetArguments()" in text or xrender(f, node, True).find("GetArguments()") >= 0) else None
        mi = MiniInt(F, atom, seq=seq)
        return mi.call(f, [("obj", None, None), ("obj", None, None)])
    for name, want_fn in (("And", all), ("Or", any)):
        f = evs[name]
        bad = None
        try:
            for n_ in (1, 2, 3):
                for truths in _it.product((False, True), repeat=n_):
                    got = eval_vector(f, truths)
                    if float(got) != (1.0 if want_fn(truths) else 0.0):
                        bad = "arguments %s: the evaluator says %s" % (list(truths), got)
        except AnalysisBroken as e_:
            raise AnalysisBroken("C07.E1: %s evaluator: %s" % (name, e_))
        e1.check(bad is None, name.lower(), short_loc(f.loc), "%s: %s of the arguments' truth values (threshold 0.5), all vectors of length 1..3" % (name.lower(), want_fn.__name__), bad)

    # ---- G1 ---------------------------------------------------------------------------
    # ---- E2: numeric evaluators name the right function of the right operands ----------------------
    e2 = rep.rule("C07.E2", "TABLE", "evaluators of the one-argument functions, pow/exp_a/log_a, min/max and count apply the operator's own function to its own operands", floor=20)

    def shape(f, e):
        e = strip(e)
        k = arg_index(f, e)
        if k is not None:
            return ("arg", k)
        m = _re.fullmatch(r"con\.GetParameters\(\)\[([0-9]+)\]", nt(render(e)))
        if m:
            return ("par", int(m.group(1)))
        if e["k"] == "DeclRefExpr":
            v = [x for x in f.walk() if x["k"] == "VarDecl" and x.get("declId") == e.get("declId") and kids(x)]
            if len(v) == 1:
                return shape(f, kids(v[0])[0])
        if e["k"] == "CallExpr":
            return ("call", (e.get("callee") or "").split("::")[-1]) + tuple(shape(f, a) for a in call_args(e))
        if e["k"] == "BinaryOperator":
            return ("op", e.get("op"), shape(f, kids(e)[0]), shape(f, kids(e)[1]))
        return ("?", nt(render(e))[:40])
    A0, P0 = ("arg", 0), ("par", 0)
    REF = {"Abs": ("call", "fabs", A0), "Exp": ("call", "exp", A0), "Log": ("call", "log", A0), "Sin": ("call", "sin", A0), "Cos": ("call", "cos", A0), "Tan": ("call", "tan", A0),
           "Asin": ("call", "asin", A0), "Acos": ("call", "acos", A0), "Atan": ("call", "atan", A0), "Sinh": ("call", "sinh", A0), "Cosh": ("call", "cosh", A0), "Tanh": ("call", "tanh", A0),
           "Asinh": ("call", "asinh", A0), "Acosh": ("call", "acosh", A0), "Atanh": ("call", "atanh", A0),
           "Pow": ("call", "pow", A0, P0), "ExpA": ("call", "pow", P0, A0), "LogA": ("op", "/", ("call", "log", A0), ("call", "log", P0))}
    for name, want in sorted(REF.items()):
        f = evs.get(name)
        if f is None:
            raise AnalysisBroken("C07.E2: no evaluator for %sConstraint" % name)
        r = [x for x in f.walk() if x["k"] == "ReturnStmt"]
        got = shape(f, kids(r[0])[0]) if len(r) == 1 else None
        e2.check(got == want, name.lower(), short_loc(f.loc), "%s: %s" % (name, want), "%s evaluates %s, the operator is %s: the recomputed value of every such expression is wrong, so violations are missed or invented" % (name, got, want))
    for name, op, init_neg in (("Max", "<", True), ("Min", ">", False)):
        f = evs.get(name)
        if f is None:
            raise AnalysisBroken("C07.E2: no evaluator for %sConstraint" % name)
        ifs = [x for x in f.walk() if x["k"] == "IfStmt"]
        v = [x for x in f.walk() if x["k"] == "VarDecl" and x.get("name") == "result"]
        ok = len(ifs) == 1 and len(v) == 1
        if ok:
            c = strip(kids(ifs[0])[0])
            ini = nt(render(kids(v[0])[0])).upper()
            asg = [x for x in walk(ifs[0]) if x["k"] == "BinaryOperator" and x.get("op") == "="]
            ok = c["k"] == "BinaryOperator" and ((c.get("op") == op and nt(render(kids(c)[0])) == "result" and nt(render(kids(c)[1])) == "x[i]") or
                                                  (c.get("op") == {"<": ">", ">": "<"}[op] and nt(render(kids(c)[1])) == "result" and nt(render(kids(c)[0])) == "x[i]")) and \
                ("INF" in ini) and (ini.startswith("-") == init_neg) and len(asg) == 1 and nt(render(asg[0])) == "result=x[i]"
        e2.check(ok, name.lower(), short_loc(f.loc), "%s: running %s over the arguments starting from %sinfinity" % (name, name.lower(), "-" if init_neg else "+"))
    f = evs.get("Count")
    if f is None:
        raise AnalysisBroken("C07.E2: no evaluator for CountConstraint")
    badc = None
    try:
        for n_ in (1, 2, 3):
            for truths in _it.product((False, True), repeat=n_):
                got = eval_vector(f, truths)
                if float(got) != float(sum(truths)):
                    badc = "arguments %s: the evaluator says %s" % (list(truths), got)
    except AnalysisBroken as e_:
        raise AnalysisBroken("C07.E2: count evaluator: %s" % e_)
    e2.check(badc is None, "count", short_loc(f.loc), "count: number of arguments >= 0.5 (all vectors of length 1..3)", badc)

    g1 = rep.rule("C07.G1", "TABLE", "context cases and the tolerance test", floor=8)
    ctx_vals = F.enum_values("mp::Context::CtxVal") or {}
    if not {"CTX_MIX", "CTX_POS", "CTX_NEG"} <= set(ctx_vals):
        raise AnalysisBroken("enum Context::CtxVal not exported: %s" % ctx_vals)

    def ret_expr(stmts):
        for s in stmts:
            for x in walk(s):
                if x["k"] == "ReturnStmt":
                    il = [y for y in walk(x) if y["k"] == "InitListExpr"]
                    return render(kids(il[0])[0]).replace(" ", "").replace("std::", "") if il else render(x)
        return None
    # which return is taken for each context value (switch, if-chain, ...): selected by case evaluation
    def generic_case(ctxval):
        def atom(t, n, env):
            if t.endswith("GetContext().GetValue()"):
                return ctxval
            if t.endswith(".recomp_vals()"):
                return 0
            if t.endswith("GetResultVar()"):
                return 5
            return None
        mi = MiniInt(F, atom)
        mi.select_only = True
        r_ = mi.call(g, [("obj", None, None), ("obj", None, None)])
        if not isinstance(r_, dict):
            return None
        il = [y for y in walk(r_) if y["k"] == "InitListExpr"]
        return (xrender(g, kids(il[0])[0]).replace(" ", "").replace("std::", "") if il else render(r_)), r_
    want = {"CTX_MIX": "fabs(viol)", "CTX_POS": "viol", "CTX_NEG": "-viol"}
    where_ = short_loc(g.loc)
    for nm, w in want.items():
        got, rn_ = generic_case(ctx_vals[nm]) or (None, None)
        g1.check(got == w, "generic|%s" % nm, where_, "%s: violation = %s" % (nm, w), "%s: violation = %s, expected %s" % (nm, got, w))
    other_ = max(ctx_vals.values()) + 7
    gd, rn_ = generic_case(other_) or (None, None)
    g1.check(gd is not None and ("INFINITY" in gd.upper() or gd in ("inf", "__builtin_inff()", "__builtin_huge_valf()")), "generic|default-violated", where_,
             "any other context value counts as violated (infinite violation)", "default returns %s" % gd)
    vd = [v for v in g.walk() if v["k"] == "VarDecl" and v.get("name") == "viol"]
    g1.check(len(vd) == 1 and render(kids(vd[0])[0]).replace(" ", "") == "x[resvar]-ComputeValue(c,x)", "generic|difference", short_loc(g.loc),
             "viol = x[result] - value(arguments)")
    for f in all_of("mp::ConditionalConstraint::ComputeViolation")[:1]:
        sw2 = [n for n in f.walk() if n["k"] == "SwitchStmt"]
        secs2 = switch_sections(sw2[0]) if sw2 else {}
        conds = {}
        for nm in ("CTX_MIX", "CTX_POS", "CTX_NEG"):
            sec = secs2.get(ctx_vals[nm], [])
            ifs = [x for s in sec for x in walk(s) if x["k"] == "IfStmt"]
            conds[nm] = xrender(f, kids(ifs[0])[0]).replace(" ", "") if ifs else None
        FLAG, VALID = "x[GetResultVar()]>=0.5", "viol.viol_<=0"
        okcc = conds == {"CTX_MIX": FLAG + "==" + VALID, "CTX_POS": FLAG + "<=" + VALID, "CTX_NEG": FLAG + ">=" + VALID}
        if not okcc:
            # the cases are written with other operators: evaluated for every (context, flag value, inner violation) sample
            okcc, conds = True, {}
            for nm in ("CTX_MIX", "CTX_POS", "CTX_NEG"):
                for xb_ in (0.0, 0.49, 0.5, 1.0):
                    for v_ in (-1.0, 0.0, 2.0):
                        box = {}

                        def atom(t_, n_, env_, nm=nm, xb_=xb_, v_=v_):
                            t_ = t_.replace("this->", "")
                            if t_.endswith("GetContext().GetValue()"):
                                return ctx_vals[nm]
                            if n_["k"] in ("CXXOperatorCallExpr", "ArraySubscriptExpr") and "GetResultVar()" in t_:
                                return xb_
                            if n_["k"] == "MemberExpr" and n_.get("name") == "viol_":
                                return v_
                            if n_["k"] == "MemberExpr" and n_.get("name") == "valX_":
                                return 7.0
                            if n_["k"] == "CallExpr" and (n_.get("callee") or "").split("::")[-1] in ("fabs", "abs") and len(call_args(n_)) == 1:
                                return abs(box["mi"].expr(call_args(n_)[0], env_, 0))
                            if n_["k"] == "InitListExpr" or (n_["k"] in ("CXXConstructExpr", "CXXTemporaryObjectExpr") and "Violation" in (n_.get("callee") or n_.get("ct") or "")):
                                ks_ = [x for x in kids(n_) if x is not None]
                                if ks_:
                                    return box["mi"].expr(ks_[0], env_, 0)
                            return None
                        mi = MiniInt(F, atom)
                        box["mi"] = mi
                        try:
                            got_ = mi.call(f, [("obj", None, None)])
                        except AnalysisBroken as e_:
                            raise AnalysisBroken("C07.G1: ConditionalConstraint::ComputeViolation: %s" % e_)
                        flag_, valid_ = xb_ >= 0.5, v_ <= 0.0
                        want_ = {"CTX_MIX": 0.0 if flag_ == valid_ else abs(v_), "CTX_POS": 0.0 if (not flag_ or valid_) else v_,
                                 "CTX_NEG": 0.0 if (flag_ or not valid_) else -v_}[nm]
                        if got_ != want_:
                            okcc = False
                            conds[nm] = "flag value %s, inner violation %s: %s instead of %s" % (xb_, v_, got_, want_)
        g1.check(okcc, "conditional|cases",
                 short_loc(f.loc), "conditional constraints: MIX needs b <=> c, POS b => c, NEG c => b", str(conds))
        hv = {v["name"]: nt(render(kids(v)[0])) for v in f.walk() if v["k"] == "VarDecl" and kids(v)}
        g1.check(hv.get("ccon_valid") == "viol.viol_<=0" and hv.get("has_arg") == "x[GetResultVar()]>=0.5", "conditional|inputs", short_loc(f.loc),
                 "the comparison holds iff its violation is <= 0; the flag is true iff x[result] >= 0.5", str(hv))
    ck = one("mp::Violation::Check")
    def ck_atom(t, n):
        t = t.replace("0.0", "0")
        if t in ("viol_>epsabs", "epsabs<viol_"):
            return "A"
        if t in ("viol_<=epsabs", "epsabs>=viol_"):
            return ("A", True)
        if t in ("0==fabs(valX_)", "fabs(valX_)==0", "valX_==0", "0==valX_"):
            return "Z"
        if t in ("0!=fabs(valX_)", "fabs(valX_)!=0", "valX_!=0", "0!=valX_"):
            return ("Z", True)
        if re.match(r"^(violRel=)?fabs\(viol_/valX_\)>epsrel$", t) or t in ("epsrel<fabs(viol_/valX_)", "epsrel<violRel=fabs(viol_/valX_)"):
            return "R"
        if re.match(r"^(violRel=)?fabs\(viol_/valX_\)<=epsrel$", t):
            return ("R", True)
        return None

    def ck_ret(e, value_of):
        if e is None:
            raise AnalysisBroken("C07.G1: Violation::Check has a path without a return")
        il = [x for x in walk(e) if x["k"] == "InitListExpr" or (x["k"] == "CXXConstructExpr" and "pair" in (x.get("callee") or ""))]
        first = strip(kids(il[0])[0]) if il and kids(il[0]) else None
        while first is not None and first["k"] == "MaterializeTemporaryExpr" and kids(first):
            first = strip(kids(first)[0])
        if first is None:
            raise AnalysisBroken("C07.G1: Violation::Check does not return a {flag, value} pair")
        return value_of(first)
    try:
        tab = eval_cases(ck, ["A", "Z", "R"], ck_atom, ck_ret)
        wrong = [k for k, v in tab.items() if v != (k[0] and (k[1] or k[2]))]
        c = "cases (viol>epsabs, ref==0, |viol/ref|>epsrel) with a wrong verdict: %s" % wrong
    except AnalysisBroken:
        # the test is written with other atoms: evaluate it on sample numbers instead (violation, reference, two tolerances)
        wrong = []
        for viol_ in (-1.0, 0.0, 1e-7, 0.5, 3.0):
            for ref_ in (0.0, -2.0, 1e-3, 100.0):
                for ea_ in (1e-6, 0.1):
                    for er_ in (1e-6, 0.5):
                        box = {}

                        def atom(t_, n_, env_, viol_=viol_, ref_=ref_):
                            t_ = t_.replace("this->", "")
                            if t_ == "viol_":
                                return viol_
                            if t_ == "valX_":
                                return ref_
                            if n_["k"] == "CallExpr" and (n_.get("callee") or "").split("::")[-1] in ("fabs", "abs") and len(call_args(n_)) == 1:
                                return abs(box["mi"].expr(call_args(n_)[0], env_, 0))
                            if n_["k"] == "InitListExpr" or (n_["k"] in ("CXXConstructExpr", "CXXTemporaryObjectExpr") and "pair" in (n_.get("callee") or n_.get("ct") or "")):
                                ks_ = [x for x in kids(n_) if x is not None]
                                if ks_:
                                    return box["mi"].expr(ks_[0], env_, 0)
                            return None
                        mi = MiniInt(F, atom)
                        box["mi"] = mi
                        got_ = mi.call(ck, [ea_, er_])
                        want_ = viol_ > ea_ and (ref_ == 0.0 or abs(viol_ / ref_) > er_)
                        if bool(got_) != bool(want_):
                            wrong.append((viol_, ref_, ea_, er_, bool(got_)))
        c = "(violation, reference, epsabs, epsrel, verdict) samples with a wrong verdict: %s" % wrong[:3]
    g1.check(not wrong, "tolerance-test", short_loc(ck.loc),
             "violated iff viol > epsabs and (reference value is 0 or |viol/ref| > epsrel) - 8 cases evaluated", c)

    # ---- P1 ---------------------------------------------------------------------------
    p1 = rep.rule("C07.P1", "PATH", "fail path: dedicated code raised and not swallowed; result is 'no report text'", floor=5)
    cs_ = one("mp::SolutionChecker::CheckSolution")
    th = [n for n in cs_.walk() if n["k"] == "CXXThrowExpr" and kids(n) and any(x.get("callee") == "mp::Error::Error" for x in walk(n))]
    st = F.enum_values("mp::sol::Status") or {}
    code = None
    raise_viol = None
    for t in th:
        ce = [x for x in walk(t) if x["k"] in ("CXXConstructExpr", "CXXTemporaryObjectExpr") and x.get("callee") == "mp::Error::Error"]
        if ce and len(kids(ce[0])) == 2 and kids(ce[0])[1]["k"] != "CXXDefaultArgExpr" and cv(kids(ce[0])[1]) is not None:
            code = cv(kids(ce[0])[1])
            raise_viol = t
    okp = raise_viol is not None and code == st.get("MP_SOLUTION_CHECK", 150) and 100 <= code <= 199
    if okp:
        fa = nfacts(cs_, raise_viol)
        okp = any("sol_check_fail()" in t and pol is True for t, pol in fa) and any(t == "msgreal.size()||msgidea.size()" and pol is True for t, pol in fa)
    p1.check(okp, "raise-with-dedicated-code", short_loc(raise_viol.get("l")) if raise_viol else short_loc(cs_.loc),
             "under sol:chk:fail a non-empty report raises mp::Error with code %s (MP_SOLUTION_CHECK)" % code)
    warn = [c for c in cs_.walk() if c["k"] == "CXXMemberCallExpr" and c.get("callee", "").endswith("::AddWarning") and "GetSolCheckWarningKey" in render(c)]
    okw = len(warn) == 1
    if okw:
        fa = nfacts(cs_, warn[0])
        okw = any("sol_check_fail()" in t and pol is False for t, pol in fa) and any(t == "msgreal.size()||msgidea.size()" and pol is True for t, pol in fa)
    p1.check(okw, "warning-otherwise", short_loc(warn[0].get("l")) if warn else "", "without the option the same branch only adds the warning")
    tr = [n for n in cs_.walk() if n["k"] == "CXXTryStmt"]
    okr = False
    if len(tr) == 1:
        for h in tr[0]["c"][1:]:
            if h and h["k"] == "CXXCatchStmt" and "mp::Error" in (h.get("catchT") or ""):
                rt = [x for x in walk(h) if x["k"] == "CXXThrowExpr" and not kids(x)]
                if rt:
                    fa = nfacts(cs_, rt[0])
                    okr = any("sol_check_fail()" in t and pol is True for t, pol in fa)
        first = (tr[0]["c"][1].get("catchT") or "") if len(tr[0]["c"]) > 1 and tr[0]["c"][1] else ""
        okr = okr and "mp::Error" in first
    p1.check(okr, "error-rethrown", short_loc(cs_.loc), "the mp::Error handler comes first and rethrows when sol:chk:fail is set")
    rets = [r for r in cs_.walk() if r["k"] == "ReturnStmt"]
    last = [r for r in rets if render(kids(r)[0]).replace(" ", "") == "msgreal.empty()&&msgidea.empty()"]
    p1.check(len(last) == 1, "result", short_loc(cs_.loc), "the check returns msgreal.empty() && msgidea.empty()")
    ab = [r for r in rets if cv(kids(r)[0]) == 0]
    oka = False
    for r in ab:
        fa = nfacts(cs_, r)
        if any(t == "err_msg.size()" and pol is True for t, pol in fa):
            oka = True
    p1.check(oka, "aborted-check-is-not-a-pass", short_loc(cs_.loc), "a check that ended in an exception returns false (and raises under sol:chk:fail)")
    modes = [n for n in cs_.walk() if n["k"] == "IfStmt" and "sol_check_mode()" in render(kids(n)[0])]
    masks = sorted(cv(kids(strip(kids(n)[0]))[1]) if strip(kids(n)[0])["k"] == "BinaryOperator" else None for n in modes)
    p1.check(masks == [31, 992], "mode-bits", short_loc(cs_.loc), "realistic mode for bits 1..16, idealistic (recomputed) mode for bits 32..512", str(masks))

    # ---- P2 ---------------------------------------------------------------------------
    p2 = rep.rule("C07.P2", "GUARD", "selection: skip exactly the unused; classes 8 / 2 / 4; variables by mode", floor=4)
    nk = 0
    for f in keepers:
        calls_ = [c for c in f.walk() if c["k"] == "CXXMemberCallExpr" and c.get("callee", "").endswith("::ComputeViolation")]
        if len(calls_) != 1:
            continue
        # shape-free: (1) the evaluation is guarded by `class & check_mode()` and `!IsUnused()`; (2) the class, computed
        # inline or by a helper, is 8 for a solver-side constraint, |2 for depth 0, 4 if neither - evaluated for the 4 cases
        fa = norm_facts(f, calls_[0], loop_conditions=False, all_locals=True)
        sel = [t for t, pol in fa if pol and t.endswith("&chk.check_mode()")]
        unused_ok = ("cons_[i].IsUnused()", False) in fa
        problems = []
        if len(sel) != 1 or not unused_ok:
            problems.append("selection conditions %s" % [x for x in fa if "check_mode" in x[0] or "IsUnused" in x[0]])
        cls_txt = sel[0][:-len("&chk.check_mode()")] if sel else None

        def mk_atom(br, d0):
            def atom(t, n, env):
                if t.endswith(".IsBridged()"):
                    return int(br)
                if t.endswith(".GetDepth()"):
                    return 0 if d0 else 1
                return None
            return atom
        table = {}
        ifsel = next((a for a in f.ancestors(calls_[0]) if a["k"] == "IfStmt" and "check_mode()" in render(kids(a)[0])), None)
        for br in (False, True):
            for d0 in (False, True):
                mi = MiniInt(F, mk_atom(br, d0))
                try:
                    if ifsel is None:
                        raise AnalysisBroken("no selection test")
                    cnode = strip(kids(ifsel)[0])
                    # the class operand of `class & check_mode()`
                    opnd = kids(cnode)[0] if cnode["k"] == "BinaryOperator" and cnode.get("op") == "&" else None
                    if opnd is None:
                        raise AnalysisBroken("selection test is not `class & mode`")
                    env = {}
                    o0 = strip(opnd)
                    if o0["k"] == "DeclRefExpr":
                        # run the statements of the enclosing block up to the selection test
                        st_, blk = ifsel, f.parent.get(ifsel["i"])
                        while blk is not None and blk["k"] != "CompoundStmt":
                            st_, blk = blk, f.parent.get(blk["i"])
                        mi.run(kids(blk), env, 0, stop=lambda s_: s_ is ifsel or s_.get("i") == ifsel["i"])
                    table[(br, d0)] = mi.expr(opnd, env)
                except AnalysisBroken as e:
                    problems.append(str(e))
                    break
        want_tab = {(False, False): 8, (False, True): 10, (True, True): 2, (True, False): 4}
        if not problems and table != want_tab:
            problems.append("class by (bridged, depth 0): %s, expected %s" % (table, want_tab))
        ok = not problems
        conds, asg = problems[:2], table
        nk += 1
        if not ok or nk == 1:
            p2.check(ok, "select|%s" % f.full.split("ConstraintKeeper<")[-1].split(">::ComputeViolations")[0].split(", ", 2)[-1][-60:], short_loc(f.loc),
                     "unused skipped; solver-side 8, top-level 2, intermediate 4; evaluated iff the class is in the mode",
                     "selection: %s, class table %s" % (conds, asg))
    rep.extra["keepers_selection_checked"] = nk
    for f in keepers[:1]:
        # the summary slot as a function of the class value (inline ternary or helper): 2, 10 -> 0; 8 -> 2; 4 -> 1
        cnt_ = [c for c in f.walk() if c["k"] == "CXXMemberCallExpr" and (c.get("callee") or "").endswith("::CountViol")]
        slot = {}
        t = ""
        try:
            sub = next(x for x in walk(call_object(cnt_[0])) if x["k"] in ("CXXOperatorCallExpr", "ArraySubscriptExpr")) if cnt_ else None
            ixe = strip(call_args(sub)[-1] if sub["k"] == "CXXOperatorCallExpr" else kids(sub)[1])
            ixe = expand_locals(f, ixe, 0, True)
            t = render(ixe).replace(" ", "")
            fa_ = norm_facts(f, cnt_[0], loop_conditions=False, all_locals=True)
            cls_ = [t_[:-len("&chk.check_mode()")] for t_, pol_ in fa_ if pol_ and t_.endswith("&chk.check_mode()")]
            for cval in (2, 10, 8, 4):
                mi = MiniInt(F, lambda t_, n_, env_, cval=cval: cval if cls_ and t_ == cls_[0] else None)
                slot[cval] = mi.expr(ixe, {})
        except (AnalysisBroken, StopIteration, KeyError, IndexError, TypeError) as e:
            t = "%s (%s)" % (t, e)
        p2.check(slot == {2: 0, 10: 0, 8: 2, 4: 1}, "report-slot", short_loc(f.loc), "reported as original (0) if top-level, else solver-side (2), else intermediate (1)", "%s -> %s" % (t, slot))
    cvf = one("mp::SolutionChecker::CheckVars")
    chk = [c for c in cvf.walk() if c["k"] == "CXXMemberCallExpr" and c.get("callee", "").endswith("::CheckViol")]
    okv = len(chk) == 3
    if okv:
        for c in chk:
            fa = norm_facts(cvf, c, loop_conditions=False, all_locals=True)
            # original variables always; auxiliary ones unless the check uses recomputed values:  !aux || !if_recomputed()
            if not any(pol is True and "||" in t and "if_recomputed()" in t and "is_var_original(i)" in t and t.count("!") >= 1 for t, pol in fa):
                okv = False
        intc = [c for c in chk if "sol_int_tol()" in render(c)]
        okv = okv and len(intc) == 1 and any("is_var_integer(i)" in render(cvf.nodes[cid]) and pol is True for cid, pol in cvf.cfg.facts_at(intc[0]))
        t = " ".join(render(c).replace(" ", "") for c in chk)
        okv = okv and "lb(i)-x" in t.replace("this->", "").replace("static_cast<constImpl&>(*this).", "") .replace("((constImpl*)this)->", "") or okv and "lb(i))-x" in t
    p2.check(okv, "variables", short_loc(cvf.loc), "bounds of every variable (lb - x, x - ub) and integrality of integer variables; auxiliary ones only with the solver's values")
    dcs = one("mp::SolutionChecker::DoCheckSol")
    bits = sorted((cv(kids(strip(kids(n)[0]))[1]) if strip(kids(n)[0])["k"] == "BinaryOperator" and strip(kids(n)[0]).get("op") == "&" and
                    "check_mode()" in render(kids(strip(kids(n)[0]))[0]) else None,
                   [c.get("callee", "").split("::")[-1] for c in walk(kids(n)[1]) if c["k"] == "CXXMemberCallExpr" and
                    c.get("callee", "").split("::")[-1].startswith("Check")]) for n in dcs.walk() if n["k"] == "IfStmt")
    p2.check(bits == [(1, ["CheckVars"]), (14, ["CheckCons"]), (16, ["CheckObjs"])], "mode-dispatch",
             short_loc(dcs.loc), "bit 1 variables, bits 2/4/8 constraints, bit 16 objectives", str(bits))

    # ---- H1 ---------------------------------------------------------------------------
    # ---- V1: variable bound and integrality checks ---------------------------------------------------
    v1 = rep.rule("C07.V1", "TABLE", "variable checks: violation lb-x with reference lb, x-ub with reference ub, |x-round(x)| with the integrality tolerance", floor=3)
    cvf = one("mp::SolutionChecker::CheckVars")

    def aff(e):
        e = strip(e)
        if e["k"] == "BinaryOperator" and e.get("op") in ("+", "-"):
            a, b = aff(kids(e)[0]), aff(kids(e)[1])
            out = dict(a)
            for t_, v_ in b.items():
                out[t_] = out.get(t_, 0.0) + (v_ if e["op"] == "+" else -v_)
            return {t_: v_ for t_, v_ in out.items() if v_}
        if e["k"] == "UnaryOperator" and e.get("op") == "-":
            return {t_: -v_ for t_, v_ in aff(kids(e)[0]).items()}
        return {nt(render(e)).replace("MPCD(", "(").replace("((", "(").replace("))", ")"): 1.0}
    cvs = [c for c in cvf.walk() if c["k"] == "CXXMemberCallExpr" and (c.get("callee") or "").endswith("::CheckViol")]
    got = []
    for c in cvs:
        a = call_args(c)
        il = [x for x in walk(a[0]) if x["k"] == "InitListExpr" and len(kids(x)) == 2]
        if not il:
            got.append(("?",))
            continue
        viol, ref = kids(il[0])
        obj = nt(render(call_object(c)))
        got.append((obj.split(".")[1] if "." in obj else obj, aff(viol), nt(render(ref)), nt(render(a[1])), nt(render(a[2]))))

    def has(objpat, violaff, refpat, tol, tolrel):
        for g_ in got:
            if len(g_) == 5 and objpat in g_[0] and g_[1] == violaff and _re.fullmatch(refpat, g_[2]) and tol in g_[3] and tolrel in g_[4]:
                return True
        return False
    lbx = [k_ for g_ in got if len(g_) == 5 for k_ in g_[1] if "lb(i)" in k_]
    ubx = [k_ for g_ in got if len(g_) == 5 for k_ in g_[1] if "ub(i)" in k_]
    LB = lbx[0] if lbx else "lb(i)"
    UB = ubx[0] if ubx else "ub(i)"
    v1.check(len(cvs) == 3 and has("VarViolBnds", {LB: 1.0, "x": -1.0}, r".*lb\(i\).*", "sol_feas_tol()", "sol_feas_tol_rel()"), "lower-bound", short_loc(cvf.loc),
             "lower bound: violation lb(i) - x, relative to lb(i), tolerances sol:chk:feastol / feastolrel", str(got))
    v1.check(has("VarViolBnds", {"x": 1.0, UB: -1.0}, r".*ub\(i\).*", "sol_feas_tol()", "sol_feas_tol_rel()"), "upper-bound", short_loc(cvf.loc),
             "upper bound: violation x - ub(i), relative to ub(i)",
             "the upper-bound check is not (x - ub(i), reference ub(i)): %s - with the wrong reference value the relative tolerance is applied to another number and violations are missed or invented" % [g_ for g_ in got if len(g_) == 5 and any("ub(i)" in k_ for k_ in g_[1])])
    v1.check(any(len(g_) == 5 and "VarViolIntty" in g_[0] and len(g_[1]) == 1 and list(g_[1])[0].replace(")", "") == "fabs(x-round(x" and g_[2] == "round(x)" and "sol_int_tol()" in g_[3] for g_ in got), "integrality", short_loc(cvf.loc),
             "integrality: |x - round(x)| against sol:chk:inttol for integer variables", str(got))

    # ---- E3: value predicates of the point under check, and the complementarity measure built on them -----------------
    e3 = rep.rule("C07.E3", "TABLE", "point predicates (at lower / upper bound, nonzero, positive, bound violation) and the complementarity violation "
                  "evaluated on sample values", floor=5)
    INFV = float("inf")

    def vi_eval(g, X_, L_, U_, T_, INT_):
        box = {}

        def atom(t_, n_, env_):
            t_ = t_.replace("this->", "").replace(" ", "")
            if n_["k"] == "CXXOperatorCallExpr" and n_.get("op") == "[]":
                b_ = render(call_args(n_)[0]).replace(" ", "").replace("this->", "")
                return {"lb_": L_, "ub_": U_, "x_": X_}.get(b_, X_ if "this" in b_ else None)
            if n_["k"] == "ArraySubscriptExpr":
                b_ = render(kids(n_)[0]).replace(" ", "").replace("this->", "")
                return {"lb_": L_, "ub_": U_, "x_": X_}.get(b_)
            if t_ == "feastol_":
                return T_
            if n_["k"] == "CXXMemberCallExpr" and (n_.get("callee") or "").endswith("::is_var_int"):
                return INT_
            if n_["k"] == "CXXMemberCallExpr" and (n_.get("callee") or "").endswith("::size"):
                return 100
            if n_["k"] == "CallExpr" and (n_.get("callee") or "").split("::")[-1] in ("fabs", "abs") and len(call_args(n_)) == 1:
                return abs(box["mi"].expr(call_args(n_)[0], env_, 0))
            return None
        mi = MiniInt(F, atom)
        box["mi"] = mi
        return mi.call(g, [3])
    vi = {g.name: g for g in funcs if g.qn.startswith("mp::VarInfoImpl::")}
    SPEC = {"is_at_lb": lambda X, L, U, T, I: X - L <= T, "is_at_ub": lambda X, L, U, T, I: U - X <= T,
            "is_nonzero": lambda X, L, U, T, I: abs(X) >= (0.5 if I else T), "is_positive": lambda X, L, U, T, I: X >= (0.5 if I else T),
            "bounds_viol": lambda X, L, U, T, I: max(L - X, X - U)}
    for nm_, spec_ in SPEC.items():
        if nm_ not in vi:
            raise AnalysisBroken("C07.E3: VarInfoImpl::%s not found" % nm_)
        badp = []
        for X_ in (-2.0, 0.0, 5e-7, 0.3, 0.7, 5.0, 10.0 - 5e-7, 10.0, 12.0):
            for L_, U_ in ((0.0, 10.0), (0.0, INFV), (-INFV, 10.0)):
                for I_ in (0, 1):
                    try:
                        got_ = vi_eval(vi[nm_], X_, L_, U_, 1e-6, I_)
                    except AnalysisBroken as e_:
                        raise AnalysisBroken("C07.E3: %s: %s" % (nm_, e_))
                    want_ = spec_(X_, L_, U_, 1e-6, I_)
                    if (bool(got_) != bool(want_)) if nm_ != "bounds_viol" else (got_ != want_):
                        badp.append((X_, L_, U_, I_, got_))
        e3.check(not badp, "predicate|%s" % nm_, short_loc(vi[nm_].loc), "%s agrees with its definition on 54 (value, bounds, type) samples" % nm_,
                 "%s at (value, lb, ub, integer, result) = %s: the checks built on it (complementarity, indicator, SOS) then miss or invent violations" % (nm_, badp[:3]))
    cc_ = [g for g in funcs if g.qn == "mp::ComplementarityConstraint::ComputeViolation"]
    for g in cc_[:1]:
        badc = []
        for a_ in (0, 1):
            for b_ in (0, 1):
                for ve_ in (-3.0, 2.0):
                    box = {}

                    def atom(t_, n_, env_):
                        if n_["k"] == "CXXMemberCallExpr":
                            cn_ = (n_.get("callee") or "").split("::")[-1]
                            if cn_ == "is_at_lb":
                                return a_
                            if cn_ == "is_at_ub":
                                return b_
                            if cn_ == "ComputeValue":
                                return ve_
                        if n_["k"] == "CallExpr" and (n_.get("callee") or "").split("::")[-1] in ("fabs", "abs") and len(call_args(n_)) == 1:
                            return abs(box["mi"].expr(call_args(n_)[0], env_, 0))
                        if n_["k"] == "InitListExpr" or (n_["k"] in ("CXXConstructExpr", "CXXTemporaryObjectExpr") and "Violation" in (n_.get("callee") or n_.get("ct") or "")):
                            ks_ = [x for x in kids(n_) if x is not None]
                            if ks_:
                                return box["mi"].expr(ks_[0], env_, 0)
                        return None
                    mi = MiniInt(F, atom)
                    box["mi"] = mi
                    try:
                        got_ = mi.call(g, [("obj", None, None)])
                    except AnalysisBroken as e_:
                        raise AnalysisBroken("C07.E3: ComplementarityConstraint::ComputeViolation: %s" % e_)
                    want_ = -ve_ if a_ else (ve_ if b_ else abs(ve_))
                    if got_ != want_:
                        badc.append((a_, b_, ve_, got_))
        e3.check(not badc, "complementarity-measure", short_loc(g.loc), "violation: -expr at the lower bound, expr at the upper bound, |expr| strictly inside",
                 "(at lb, at ub, expression value, violation) = %s" % badc[:3])

    h1 = rep.rule("C07.H1", "PATH", "the check runs in the postsolve of every solution", floor=1)
    ps = one("mp::pre::ValuePresolver::PostsolveSolution")
    # the checker call, in PostsolveSolution itself or in a helper it calls; the conditions on the way are those of the
    # helper call plus those inside the helper
    reached_ = list(reach_calls(F, ps, lambda n: n["k"] == "CXXOperatorCallExpr" and n.get("op") == "()" and "solchk_" in render(kids(n)[1] if len(kids(n)) > 1 else n), depth=1))
    okh = len(reached_) == 1
    if okh:
        a_, c_, r_, o_ = reached_[0]
        fa = sorted(set(nfacts(ps, a_)) | (set(nfacts(o_, c_)) if o_ is not ps else set()))
        okh = ("solchk_", True) in [(t.replace("(bool)", ""), p_) for t, p_ in fa] or any("solchk_" in t and p_ is True for t, p_ in fa)
        okh = okh and ("mx.IsSingleKey()", True) in fa
        a = [xrender(o_, r_(x)).replace("this->", "") for x in call_args(c_)[1:]]
        okh = okh and [t_.replace(" ", "") for t_ in a[:2]] in (["mx()", "mv.GetConValues()"], ["mv.GetVarValues()()", "mv.GetConValues()"])
    h1.check(okh, "postsolve-calls-checker", short_loc(ps.loc), "with a checker installed, every postsolved solution with values is passed to it")
    return rep
